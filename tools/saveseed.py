#!/usr/bin/env python3
"""tools/saveseed.py <src dir> <name> <status> <caught_by comma list> <what_i_ran> — store a confirmed seeded change under seeded/<name>/"""
import sys, json, os, shutil
src, name, status, caught, ran = sys.argv[1:6]
dst = os.path.join('/verif/seeded', name)
os.makedirs(dst, exist_ok=True)
for f in ('patch.diff', 'demo.py'):
    shutil.copy(os.path.join(src, f), os.path.join(dst, f))
meta = json.load(open(os.path.join(src, 'meta.json'))) if os.path.exists(os.path.join(src, 'meta.json')) else {}
meta['status'] = status
meta['caught_by'] = [c for c in caught.split(',') if c]
meta['what_i_ran'] = ran
meta.setdefault('confirmed', 'demo.py exits 0 on /repo HEAD and 1 with patch.diff applied (tools/tryseed.sh); suite unchanged per the author agent')
json.dump(meta, open(os.path.join(dst, 'meta.json'), 'w'), indent=1)
print('saved', dst)
