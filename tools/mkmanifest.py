#!/usr/bin/env python3
"""Regenerates MANIFEST.json from the table below (claimed properties) — run after adding a property."""
import json, os
V = os.path.dirname(os.path.dirname(os.path.abspath(__file__)))
BASE = ("Trusted: Coq 8.16.1 kernel; extraction (ExtrOcamlBasic only) + OCaml driver; the Python correspondence harness; "
        "the hand-written model is tied to /repo only by the correspondence run of this check (all of /repo is modelled, not verified). ")
CLAIMED = {
 'C13': dict(
   text="Theorems (Coq, closed under the global context) that the model's row-validity function equals the documented rule "
        "(all equal / pairwise different / non-decreasing / strictly increasing on the active entries, any length), that "
        "-1 entries are ignored, that sequential option removal in any order admits exactly the rule, and that pre-removal "
        "loses no valid combination; the model functions are compared with choice_constraints.py exhaustively on small shapes.",
   note=BASE + "Option lists are abstracted to positions.",
   technique="Coq theorems about an extracted Gallina model + differential correspondence with the implementation",
   design="§6 C13"),
 'C16': dict(
   text="Theorems: clamping (continuous over Q and over any decidable total order, discrete over Z) lands in range, is the identity "
        "in range and returns the nearest in-domain value; set_des_var_value never stores an out-of-domain value, also on LINKED "
        "nodes; a PrimFloat witness refutes the unclamped linked formula of the code as found (fixed by d6bfdac). "
        "correct_value / set_des_var_value are compared with the extracted model on exact rationals. A second batch decodes graphs with 1-3 design-variable nodes through GraphProcessor (both encoders, entries inside/on/outside the bounds, negative and non-integer indices) and submits instance + stored values to decode_witness.",
   note=BASE + "Floats enter the model as exact rationals; the relative-position formula is compared exactly only where double "
        "arithmetic is exact, otherwise the model decides domain membership of what the code stored. NaN is outside the quantifier. "
        "PrimFloat primitives (kernel) appear under the refutation witness.",
   technique="Coq theorems about an extracted Gallina model + differential correspondence with the implementation",
   design="§6 C16"),
 'C02': dict(
   text="Theorems: the executable closure equals the declarative derivation closure Reach; any legal resolution order that ends "
        "with no active choice yields exactly the closure (all start nodes, no choice node); the result is independent of the "
        "order; enum_adm enumerates exactly the admissible assignments, each once; every admissible assignment is reachable "
        "by a legal run. The graph API is driven along every admissible assignment in several orders and along every path it "
        "offers, and compared with the proved enumeration. Totality: on a graph whose start nodes and edge targets are declared nodes the fuelled closure and enum_adm always return (C02_closure_total, C02_enumeration_total).",
   note=BASE + "Intermediate graphs are not compared. Known findings K1, K7, K8 (see known_findings.json) are reported as KNOWN-FINDING by generator guards.",
   technique="Coq theorems about an extracted Gallina model + differential correspondence with the implementation",
   design="§6 C02"),
 'C06': dict(
   text="Theorems: no admissible instance contains an incompatible pair; an option that necessarily confirms an incompatible pair "
        "is in no admissible assignment; every conflict-free assignment is enumerated and reachable by a legal run (no "
        "over-pruning); the admissible set is empty iff every assignment conflicts. The graph API is compared with the "
        "proved enumeration on graphs with 1-3 incompatibility constraints.",
   note=BASE + "Known findings K7, K8 are reported as KNOWN-FINDING by generator guards.",
   technique="Coq theorems about an extracted Gallina model + differential correspondence with the implementation",
   design="§6 C06"),
 'C01': dict(
   text="Theorems: whatever decode_witness accepts is an admissible assignment whose derivation closure is exactly the returned "
        "instance (no choice node, nothing missing), with in-domain design-variable values; the admissible set is empty iff every "
        "assignment conflicts. Every decode of both selection-choice encoders over the declared space is submitted to the "
        "extracted decode_witness; errors are allowed only when the model's enumeration is empty. A second batch runs graphs with 1-2 connection choices through GraphProcessor (enumerated rows, random vectors with both encoders, a fix/free phase) against the model's architectures (admissible assignment x valid connection set per choice).",
   note=BASE + "Which valid vector the corrector picks is abstracted (relation, not function). E is read from all_des_vars. Connection choices are not in this check. Known findings K7, K8, K9 by generator guards.",
   technique="Coq theorems about an extracted Gallina model + differential correspondence with the implementation", design="§6 C01"),
 'C03': dict(
   text="Theorems: an accepted decode result describes its instance — each active selection variable holds the index of the option "
        "taken, design-variable nodes carry the reported clamped values, values are in range; the instance depends only on the set "
        "of pairs. Checked per decode through decode_witness(Full), plus idempotence and one-vector-one-architecture on the "
        "implementation's outputs with the model's witness as architecture identity. A second batch (graphs with 1-2 connection choices through GraphProcessor) checks that rows decode to themselves, corrected vectors are fixed points and a second decode on the same processor gives the same architecture.",
   note=BASE + "Known findings K2, K7, K8, K9 by generator guards.",
   technique="Coq theorems about an extracted Gallina model + differential correspondence with the implementation", design="§6 C03"),
 'C04': dict(
   text="Theorems: rows_of lists exactly the vectors of admissible assignments with in-domain design-variable values; every "
        "admissible architecture is listed; assignments are enumerated once each; n_valid is the number of rows. "
        "get_all_discrete_x, get_n_valid_designs, get_n_design_space, imputation ratio and statistics of the complete encoder are "
        "compared with the extracted rows_of / n_declared. Under a faithful encoding (enc_ok, decided per case) no vector is listed twice (C04_rows_once).",
   note=BASE + "A taken choice may be listed inactive (auto-resolved): rows are matched one-to-one to architectures with that relaxation. Duplicate-freeness of the product rows is checked by the model's enc_ok per case, not yet a theorem. Known findings K2, K7, K8, K9.",
   technique="Coq theorems about an extracted Gallina model + differential correspondence with the implementation", design="§6 C04"),
 'C07': dict(
   text="Theorems: in an accepted decode an active selection variable's choice was reached and its option is in the instance, a "
        "design-variable variable is active iff its node is in the instance, inactive variables are canonical; active entries of "
        "enumerated rows refer to existing elements. Activeness is compared across get_all_discrete_x, get_graph(create=True/False) "
        "and raw vectors, and conditional-activeness flags against the model's rows.",
   note=BASE + "Connection encoders' activeness is covered under C10. Known findings K2, K7, K8, K9.",
   technique="Coq theorems about an extracted Gallina model + differential correspondence with the implementation", design="§6 C07"),
 'C14': dict(
   text="Theorems: accepted decodes are admissible architectures; the reference enumeration is exactly the admissible assignments; "
        "every admissible assignment is reachable by a legal greedy run. The fast encoder is decoded over its whole declared space "
        "and the image compared with enum_adm; corrected vectors must be fixed points. The order in which the fast encoder tries vectors is modelled (Neighborhood.v): exactly the space left by the fixed variables, every vector once, the requested one first; the search returns a feasible vector whenever that space holds one; FastHierarchyAnalyzer._iter_neighborhood is compared with the extracted neighborhood. Greedy.v models the whole decode of the fast encoder as a function of graph, vector and fixed flags (greedy application in decision-id order, options doomed by incompatibilities, options removed by choice constraints, neighbourhood search, fixed-value check): proved to return only admissible architectures (Adm) reached from a vector of the request's neighbourhood and to return a valid request unchanged; the implementation's corrected vector, activeness and instance are compared '=' with it on every generated graph outside the known-finding classes.",
   note=BASE + "F5 (zero selection choices) fixed by 305cac2, F34 (nested derivation loops) by 9b86f5c. Known findings K7, K8; the exact decode model leaves out connection choices and the K2/K7/K8/K9/K11 mechanisms.",
   technique="Coq theorems about an extracted Gallina model + differential correspondence with the implementation", design="§6 C14"),
 'C17': dict(
   text="Theorems: Obj only with a direction and a sound permanence flag, Con only with direction and reference, declared NONE is "
        "unused, the declared role decides when both are possible, undeclared/either is ambiguous (error); a node whose flag "
        "passes in_every_arch is reached under every admissible assignment, hence flagged objectives exist in every "
        "architecture; evaluate returns one value per objective/constraint in classification order: given value, NaN when "
        "missing, the reference value for an absent constraint node. objectives/constraints/errors and evaluate outputs are "
        "compared with the extracted functions.",
   note=BASE + "Permanence flags are read from the implementation (it follows automatically resolved choices); the model decides their soundness per node.",
   technique="Coq theorems about an extracted Gallina model + differential correspondence with the implementation", design="§6 C17"),
 'C09': dict(
   text="Theorems (any settings, any existence pattern, any size): enum_M lists exactly the matrices satisfying the declarative "
        "ValidM (per-pair limits from parallel limit, finite degrees, repeatability, exclusions, absent nodes; row/column sums in "
        "the allowed degrees), each once; validate accepts a matrix iff ValidM iff enumerated; count = length. get_agg_matrix, "
        "iter_matrices, validate_matrix on whole boxes of integer matrices and count_matrices are compared with the extracted "
        "functions, bounded-exhaustively on small shapes and randomly up to 3x3 with overrides and exclusions.",
   note=BASE + "The implementation's column-wise recursion / numba code is not modelled line by line: the model is an independent enumerator proved against ValidM. F8 (validate false accept with overrides) and F9 (over-count with overrides) fixed by 0ce93b8, d344083.",
   technique="Coq theorems about an extracted Gallina model + differential correspondence with the implementation", design="§6 C09"),
 'C05': dict(
   text="Theorems (histories of any length): for any correction search that answers inside the mask and is a consistent choice "
        "function, the retry loop over the analyzer's feasibility mask returns the row a processor with perfect knowledge would "
        "pick, keeps the invariant 'the mask only lacks infeasible rows', hence a decode after any sequence of decodes / fix / "
        "free equals the decode of a fresh processor with the same fixed mask; with copy-on-return every decode hands out a "
        "pristine instance whatever was stored on earlier ones; both are refuted (vm_compute witnesses) for the code as found "
        "(in-place and; cached object returned). Random operation histories on one long-lived processor are compared step by "
        "step with freshly built processors; for the fast encoder every decode of a history (also under fixed values) is in addition compared '=' with the extracted Greedy.fast_decode; absolute checks (range, canonical inactive entries, fixed option present); processors over 1-3 connection choices are compared row by row with a fresh processor.",
   note=BASE + "The oracle of the complete encoder's history runs is the implementation itself (metamorphic); the choice-function hypothesis on the implementation's correction search is assumed, not proved; other-process/hash-seed runs belong to C18. F2, F3, F11, F15, F20 fixed by b7e31b6, e876f05, 9b483be, 82c0c26, 30ede4f.",
   technique="Coq theorems about an extracted Gallina model + differential correspondence with the implementation", design="§6 C05"),
 'C15': dict(
   text="Theorems: restrict_rows yields only original rows (column removed) with the fixed value there (or inactive, for a "
        "design-variable-node variable), keeps every row active with that value, drops every row active with another value, "
        "counts accordingly; decodes under a fixed mask return rows the mask allows; after any fix/free/decode history a decode "
        "equals that of a fresh processor with the same fixed mask (free restores); refuted for the in-place mask of the code as "
        "found. get_all_discrete_x under fixed values is compared with the extracted restrict_rows applied to the unfixed "
        "enumeration; counts, des_vars, decodes with a fresh processor; out-of-range values must be rejected. Fast encoder under fixed values: Greedy.fast_decode keeps the fixed entries and passes respects_fixed (a fixed choice is never silently given another option; refuted for the code as found before 30ede4f), compared '=' with the implementation.",
   note=BASE + "An empty restricted space may fail explicitly (RuntimeError). F2 fixed by b7e31b6, F20 by 30ede4f.",
   technique="Coq theorems about an extracted Gallina model + differential correspondence with the implementation", design="§6 C15"),
 'C10': dict(
   text="Theorems: a decode table accepted by the extracted checker coding_ok consists of valid matrices (ValidM) with corrected "
        "vectors in range and inactive entries canonical, is idempotent, onto the valid matrices and injective (equal corrected "
        "vectors, equal matrices); the verdict function is 0 exactly when coding_ok holds. For every registered encoder factory x "
        "imputer the decode table over the declared space, out-of-range and over-long vectors is built from get_matrix per "
        "existence pattern and submitted to the checker; get_all_design_vectors and the two-used-values rule are compared too.",
   note=BASE + "Onto-ness is decided per observed table (a theorem about that table), not proved once per encoder family. Known findings K5, K6, K16 (F7), K17-K21.",
   technique="Coq theorems about an extracted Gallina model + differential correspondence with the implementation", design="§6 C10"),
 'C11': dict(
   text="Theorems: the connection sets of a choice in an instance are exactly the images of the valid matrices (ValidM) of the "
        "settings built from the connectors PRESENT in that instance (absent ones drop out, excluded pairs between present ends "
        "are kept); a grouping connector's aggregated degree is exactly the set of sums of one allowed degree per present finite "
        "member; an accepted edge list joins present connectors and stands for a valid matrix. Per admissible assignment the "
        "graph API is resolved and iter_conn_edges / validate_conn_edges / get_for_apply_connection_choice are compared with the "
        "extracted conn_sets / edges_valid; a second batch compares the architectures reachable through GraphProcessor.",
   note=BASE + "DSG.feasible is compared in one direction only. Processor level with connection choices has known findings K5, K22-K26.",
   technique="Coq theorems about an extracted Gallina model + differential correspondence with the implementation", design="§6 C11"),
 'C20': dict(
   text="Theorems: a successful resolve is the derivation closure of the mapped options (final: every reached choice is taken) and "
        "every mapped choice carries exactly the option its mapping assigns to the source architecture; an option mapping takes "
        "the entry of the source's selected option, or the None entry when the source choice's originating node is absent; an "
        "existence mapping takes the first listed source node that exists, else the default; accepted mappings are complete; "
        "incomplete / duplicate / unresolvable mappings are rejected. SupDSG.resolve is compared with the extracted resolve for "
        "every architecture of generated source graphs and generated mappings, incl. malformed ones and non-final sources.",
   note=BASE + "F10 (None key crash) fixed by 8abed32. Known finding K27.",
   technique="Coq theorems about an extracted Gallina model + differential correspondence with the implementation", design="§6 C20"),
 'C19': dict(
   text="Theorems about the labelled transition system of run_timeout, for every schedule of worker ticks and expiry: a returned "
        "call carries the function's own result (value or exception) iff the worker completed before the expiry and TimeoutError "
        "otherwise; on return the worker is finished or dead, also when the function swallows the injected exception once; a "
        "returned call is final; the outcomes consistent with measured timing are the set `allowed`. Real run_timeout calls with "
        "sleeping, busy, raising, swallowing, natively blocking, nested and back-to-back programs are compared with `allowed`, "
        "plus: nothing still running, no foreign exception in the caller, later calls unaffected. Nested limits (an outer limit around a call that sets its own) have their own transition system: for every schedule nothing is running once the caller has its answer (refuted for the limiter as found before 7b08eac), tied to real nested runs; the function's own exception object must come back (also TimeoutError, SystemExit, ...); an interrupt thrown into a cached iteration must not change later results.",
   note=BASE + "F23-F25 (interrupt class, own exceptions, nested limits) fixed by 960afd7, 7c20c98, 7b08eac. Partial: GIL scheduling, async-exception delivery latency and native blocking are runtime behaviour outside the LTS; timing is compared with a jitter tolerance and re-tried twice.",
   technique="Coq theorems about an extracted Gallina model + differential correspondence with the implementation", design="§6 C19"),
 'C18': dict(
   text="Theorems: structural equality (sorted start nodes, node identities, edge multiset, constraint identities) holds between a "
        "graph and any copy that lists the same elements in another order, fails after every single edit (added/removed node, "
        "edge, start node, constraint), is symmetric; equal graphs have equal hashes for any hash that is a function of the key "
        "and an injective hash decides equality. ==/hash of copies and single edits are compared with the extracted same_graph "
        "on descriptions read back from the objects; pickle round trips (graph, processor) and rebuilds in another interpreter "
        "with another hash seed must keep fingerprint, design variables and decodes; GML export must contain every node and edge.",
   note=BASE + "Partial: pickle and hash() are runtime behaviour outside the model (the theorems assume a hash that is a function of the structural key); DOT export is not parsed.",
   technique="Coq theorems about an extracted Gallina model + differential correspondence with the implementation", design="§6 C18"),
 'C12': dict(
   text="Theorems: the priority-area search (_get_best) never raises and returns a row of the table, the row of the first allowed "
        "non-empty area that is best there (largest distance correlation then smallest imputation ratio; or smallest ratio then "
        "largest information index); searched by information index over all areas it finds a row in every non-empty table; the "
        "staged selection returns the default manager iff there are no matrices, otherwise a constructed candidate of a created "
        "family, and raises only if no candidate of any family could be constructed; a keyed store shared by all processes "
        "delivers, for every history of cached/uncached requests and resets, a result acceptable for the settings asked, provided "
        "settings sharing a key accept the same results -- and a collision makes a cached answer wrong; settings with equal cache "
        "keys have the same valid matrices under every pattern. The real selector runs under deterministic time-out schedules and "
        "with tiny real time limits; stage/family/candidate are compared with the extracted select on the logged scores; the "
        "returned manager must pass C10's coding_verdict and have no variables when no pattern has two matrices; cache histories "
        "(cold, warm, no-cache, reset, other process with another hash seed) are compared with fresh computations and the "
        "extracted enum_M; key equality of settings pairs is compared with the extracted key_eq.",
   note=BASE + "Partial: only the installed numeric stack is exercised; crashes during a cache write are not modelled; md5 and Python's tuple hash are taken as collision free. F1 fixed by a0e230c.",
   technique="Coq theorems about an extracted Gallina model + differential correspondence with the implementation", design="§6 C12"),
 'C08': dict(
   text="Theorems: in the heap of immutable graph values to which every operation (copy, apply selection/connection choice, "
        "constrain on a copy, decode) appends a function of an existing value, no operation sequence changes an existing object "
        "and therefore no observation of it; storing a value changes that object and no other; a derived object is the function "
        "of its parent whatever happened in between; for grouping connectors, whose aggregated degree the implementation keeps in "
        "one cell shared by all graphs, a read after refreshing the cell for the graph at hand is stable under any further "
        "derivations while a read of the shared cell is refuted by a two-derivation witness (the defect F6). Generated histories "
        "over selection and connection design spaces (grouping nodes with conditional members): after every operation every live "
        "graph is re-observed (nodes, edges, feasible, final, next choices, option lists, connection sets, connector degree "
        "settings, stored values) in alternating order and compared with its observation at creation; the history is replayed in "
        "the extracted heap model on interned observations.",
   note=BASE + "Partial: that each first observation is the right one is decided by C02/C06/C11; attributes read directly from shared node objects are not per-graph observations and are not compared. F6 fixed by 04fe5a0.",
   technique="Coq theorems about an extracted Gallina model + differential correspondence with the implementation", design="§6 C08"),
}
NA_REASON = "machinery under construction in this round; not yet claimed"

def _fix_note():
    import json as _j
    k = _j.load(open('/verif/known_findings.json'))['findings']
    fixed = sorted({'%s (%s)' % (e['commit'], e['id']) for e in k if e['status'] == 'fixed'})
    known = sorted(e['id'] for e in k if e['status'] == 'known')
    return 'repaired by unguarded fix: commits in /repo: %s; recorded as known findings: %s. No source hook was needed (hooks.source_commits is empty).' % (', '.join(fixed), ', '.join(known))


def main():
    checks = []
    for pid, c in sorted(CLAIMED.items()):
        checks.append({
            'property_id': pid, 'quick_cmd': './check %s quick' % pid, 'thorough_cmd': './check %s thorough' % pid,
            'evidence_file': '/verif/evidence/%s.json' % pid, 'replay_cmd_template': './check %s --replay {path}' % pid,
            'engine': 'coq-dsgm',
            'level_claimed': {'category': 'proof', 'text': c['text'], 'design_ref': c['design']},
            'level_note': c['note'], 'technique': c['technique']})
    na = [{'property_id': 'C%02d' % i, 'reason': NA_REASON} for i in range(1, 21) if 'C%02d' % i not in CLAIMED]
    m = {
     'version': 1,
     'setup_cmd': './build.sh',
     'hooks': {'guard': 'ADSG_CORE_VERIF', 'enable': 'no source hooks are needed: every observable is public API; checks import /repo through PYTHONPATH',
               'baseline_off_cmd': 'cd /repo && /venv/bin/python -m pytest -ra -q -p no:cacheprovider --timeout=900 --continue-on-collection-errors',
               'source_commits': [], 'add_only': True},
     'engines': [{'name': 'coq-dsgm', 'path': '/verif/coq', 'serves_properties': sorted(CLAIMED),
                  'kind_free_text': 'Coq 8.16 development (Model/, Proofs/, Properties/) extracted to the OCaml driver ocaml/_build/dsgm; harness/check.py runs proofs + correspondence'}],
     'checks': checks,
     'not_applicable': na,
     'notes': 'See DESIGN.md (section 0 is the as-built status). known_findings.json lists the genuine defects: ' + _fix_note(),
    }
    json.dump(m, open(os.path.join(V, 'MANIFEST.json'), 'w'), indent=1)

if __name__ == '__main__':
    main()
