#!/bin/bash
# tools/sweep.sh <tier> <seeds...> — run every claimed check on the unchanged tree for several seeds; list alarms
tier=$1; shift
cd /verif
for p in $(python3 -c "import json;print(' '.join(c['property_id'] for c in json.load(open('MANIFEST.json'))['checks']))"); do
  for sd in "$@"; do
    out=$(VERIF_SEED=$sd VERIF_NO_CLEAN=1 VERIF_NO_SHRINK=1 timeout 3000 ./check $p $tier 2>&1)
    n=$(echo "$out" | grep -c "^VIOLATION")
    echo "$p seed=$sd violations=$n $(echo "$out" | tail -1 | sed 's/.*evaluations, //')"
  done
done
