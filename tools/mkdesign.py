#!/usr/bin/env python3
"""tools/mkdesign.py — regenerate the status block of DESIGN.md (between the STATUS markers) from tools/design_status.tmpl.md,
known_findings.json, seeded/*/meta.json and tools/coqchk.txt"""
import json, glob, os, re
V = '/verif'
t = open(V + '/tools/design_status.tmpl.md').read()
k = json.load(open(V + '/known_findings.json'))
rows = ['| id | status | properties | what fails |', '|----|--------|------------|------------|']
def key(e):
    m = re.match(r'([FK])(\d+)', e['id'])
    return (0 if e['status'] == 'fixed' else 1, m.group(1), int(m.group(2)))
for e in sorted(k['findings'], key=key):
    what = e.get('what') or re.sub(r'^fixed: property=\S+ \S+ ', '', e.get('line', ''))
    st = ('fixed by `%s`' % e['commit']) if e['status'] == 'fixed' else 'known finding'
    rows.append('| %s | %s | %s | %s |' % (e['id'], st, ', '.join(sorted(e['properties'])), what.replace('|', '/').replace('\n', ' ')))
t = t.replace('@@FINDINGS@@', '\n'.join(rows))
srows = ['| seeded change | result | caught by |', '|---------------|--------|-----------|']
for d in sorted(glob.glob(V + '/seeded/*')):
    m = json.load(open(d + '/meta.json'))
    srows.append('| %s | %s | %s |' % (os.path.basename(d), m.get('status'), ', '.join(m.get('caught_by') or []) or '—'))
t = t.replace('@@SEEDS@@', '\n'.join(srows))
import subprocess
nth = nex = 0
for f in glob.glob(V + '/coq/Properties/*.v'):
    src = open(f).read()
    nth += len(re.findall(r'^Theorem ', src, re.M))
    nex += len(re.findall(r'^Example ', src, re.M))
nlines = sum(len(open(f).read().splitlines()) for d_ in ('Model', 'Proofs', 'Properties', 'Extract') for f in glob.glob(V + '/coq/%s/*.v' % d_))
t = t.replace('@@NTHEOREMS@@', str(nth)).replace('@@NEXAMPLES@@', str(nex)).replace('@@NLINES@@', str(int(round(nlines, -2))))
t = t.replace('@@NMODEL@@', str(len(glob.glob(V + '/coq/Model/*.v')))).replace('@@NPROOFS@@', str(len(glob.glob(V + '/coq/Proofs/*.v'))))
t = t.replace('@@NSEEDS@@', str(len(glob.glob(V + '/seeded/*'))))
cc = open(V + '/tools/coqchk.txt').read().strip() if os.path.exists(V + '/tools/coqchk.txt') else 'not run yet'
t = t.replace('@@COQCHK@@', cc)
d = open(V + '/DESIGN.md').read()
b, e = '<!-- STATUS-BEGIN -->', '<!-- STATUS-END -->'
assert b in d and e in d
d = d[:d.index(b) + len(b)] + '\n' + t + '\n' + d[d.index(e):]
open(V + '/DESIGN.md', 'w').write(d)
print('DESIGN.md status block regenerated')
