#!/bin/bash
# tools/tryseed.sh <seed dir with patch.diff, demo.py> <property> [more properties]  — apply to /repo, run demo + checks, undo
D=$1; shift
cd /repo || exit 2
git diff --quiet || { echo "/repo not clean"; exit 2; }
echo "== demo on clean tree"; PYTHONPATH=/repo PYTHONHASHSEED=0 timeout 600 /venv/bin/python $D/demo.py > /tmp/demo_clean.log 2>&1; echo "rc=$?"
git apply $D/patch.diff || { echo "patch does not apply"; exit 2; }
echo "== demo on patched tree"; PYTHONPATH=/repo PYTHONHASHSEED=0 timeout 600 /venv/bin/python $D/demo.py > /tmp/demo_patched.log 2>&1; echo "rc=$?"; tail -2 /tmp/demo_patched.log
for P in "$@"; do
  echo "== check $P quick (patched)"; (cd /verif && VERIF_NO_SHRINK=${VERIF_NO_SHRINK:-0} timeout 1800 ./check $P quick 2>&1 | grep -v "Error occurred" | tail -4)
done
git -C /repo checkout -- .
git -C /repo status --short | head -3
