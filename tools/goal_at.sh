#!/bin/bash
# usage: goal_at.sh <file.v> <line>  -- prints the proof state just before <line>
f=$1; n=$2
head -n $((n-1)) "$f" > /tmp/_goal_at.v
echo "Show. Abort." >> /tmp/_goal_at.v
cd /verif/coq && timeout 120 coqc -Q . DSG /tmp/_goal_at.v 2>&1 | grep -v "^WARNING" | tail -${3:-40}
rm -f /tmp/_goal_at.vo /tmp/_goal_at.glob /tmp/_goal_at.vok /tmp/_goal_at.vos /tmp/._goal_at.aux
