(* dsgm: reads one case per line  (cmd arg ...)  and prints one result line per case. *)
open Dsgm_model
open Sx

let ctype_ x = match atom x with
  | "linked" -> Linked | "permutation" -> Permutation | "unordered" -> Unordered | "norepl" -> UnorderedNorepl
  | s -> failwith ("ctype " ^ s)

let q_ x = match lst x with [a; b] -> { qnum = z_ a; qden = pos_of_int (int_ b) } | _ -> failwith "q"
(* integers here can exceed 63 bits (float.as_integer_ratio): read/write them as decimal strings through Z arithmetic *)
let rec z_of_string s =
  let neg = String.length s > 0 && s.[0] = '-' in
  let s' = if neg then String.sub s 1 (String.length s - 1) else s in
  let ten = z_of_int 10 in
  let r = ref Z0 in
  String.iter (fun c -> r := Z.add (Z.mul !r ten) (z_of_int (Char.code c - 48))) s';
  if neg then Z.opp !r else !r
let string_of_z z =
  let ten = z_of_int 10 in
  let rec go z acc = if z = Z0 then acc else
    let (q, r) = Z.quotrem z ten in go q (string_of_int (int_of_z r) ^ acc) in
  match z with Z0 -> "0" | Zpos _ -> go z "" | Zneg _ -> "-" ^ go (Z.opp z) ""
let bigz_ x = z_of_string (atom x)
let bigq_ x = match lst x with [a; b] -> (match bigz_ b with Zpos p -> { qnum = bigz_ a; qden = p } | _ -> failwith "q-den") | _ -> failwith "q"
let w_bigq q = L [A (string_of_z q.qnum); A (string_of_z (Zpos q.qden))]
let dom_ x = match lst x with
  | [A "disc"; n] -> Disc (nat_ n)
  | [A "cont"; lo; hi] -> Cont (bigq_ lo, bigq_ hi)
  | _ -> failwith "dom"

let nkind_ x = match atom x with
  | "generic" -> Generic | "sel" -> SelChoice | "connchoice" -> ConnChoice | "connector" -> Connector
  | "grouping" -> Grouping | "dv" -> DesVarK | "metric" -> MetricK | s -> failwith ("nkind " ^ s)
let ekind_ x = match atom x with
  | "d" -> Derives | "c" -> Connects | "x" -> Excludes | "i" -> Incompat | s -> failwith ("ekind " ^ s)
let edge_ x = match lst x with [s; t; k] -> ((n_ s, n_ t), ekind_ k) | _ -> failwith "edge"
let ccon_ x = match lst x with [t; cn] -> (ctype_ t, list_ (pair_ n_ (list_ n_)) cn) | _ -> failwith "ccon"
let dsg_ x = match lst x with
  | [ns; es; st; cs] -> { nodes = list_ (pair_ n_ nkind_) ns; edges = list_ edge_ es; start = list_ n_ st; cons = list_ ccon_ cs }
  | _ -> failwith "dsg"
let assign_ x = list_ (pair_ n_ n_) x
let w_assign s = w_list (w_pair w_n w_n) s

let var_ x = match lst x with
  | [A "sel"; c; opts] -> VSel (n_ c, list_ n_ opts)
  | [A "dv"; n; d] -> VDv (n_ n, dom_ d)
  | _ -> failwith "var"
let kind_ x = match atom x with "full" -> Full | "instonly" -> InstOnly | s -> failwith ("enc_kind " ^ s)

let mtype_ x = match atom x with "none" -> TNone | "obj" -> TObj | "con" -> TCon | "both" -> TBoth | s -> failwith ("mtype " ^ s)
let metric_ x = match lst x with
  | [i; d; r; t] -> { m_id = n_ i; m_dir = bool_ d; m_ref = opt_ bigq_ r; m_ty = opt_ mtype_ t }
  | _ -> failwith "metric"
let w_role = function RObj -> A "obj" | RCon -> A "con" | RUnused -> A "unused" | RAmbiguous -> A "ambiguous"
let role_ x = match atom x with "obj" -> RObj | "con" -> RCon | "unused" -> RUnused | "ambiguous" -> RAmbiguous | s -> failwith s
let mval_ x = match x with A "nan" -> VNaN | v -> VNum (bigq_ v)
let w_mval = function VNaN -> A "nan" | VNum q -> w_bigq q

let cnode_ x = match lst x with
  | [l; m; r] -> { c_list = opt_ (list_ nat_) l; c_min = nat_ m; c_rep = bool_ r }
  | _ -> failwith "cnode"
let settings_ x = match lst x with
  | [src; tgt; ex; par] -> { s_src = list_ cnode_ src; s_tgt = list_ cnode_ tgt; s_excl = list_ (pair_ nat_ nat_) ex; s_par = opt_ nat_ par }
  | _ -> failwith "settings"
let existence_ x = match lst x with
  | [a; b] -> { x_src = list_ (opt_ (list_ nat_)) a; x_tgt = list_ (opt_ (list_ nat_)) b }
  | _ -> failwith "existence"
let w_matrix m = w_list (w_list w_nat) m

let cand_ x = match lst x with
  | [i; f; d] -> { c_imp = bigq_ i; c_inf = bigq_ f; c_dc = (match d with A "nan" -> None | v -> Some (bigq_ v)) }
  | _ -> failwith "cand"
let w_result = function RNone -> A "none" | RIdx i -> L [A "idx"; w_nat i] | RRaise -> A "raise"
let w_fam = function FPat -> A "pattern" | FEag -> A "eager" | FLaz -> A "lazy" | FEnum -> A "enum"
let w_stage = function S0_pattern -> A "0_pattern" | S1_init_all -> A "1_init_all" | S1_init_lazy -> A "1_init_lazy"
  | S2_init_inf_idx -> A "2_init_inf_idx" | S3_all -> A "3_all" | S4_all_enum -> A "4_all_enum" | S4_all_inf_idx -> A "4_all_inf_idx"
let w_outcome = function ODefault -> A "default" | OChosen (st, f, p) -> L [A "chosen"; w_stage st; w_fam f; w_nat p]
  | ORaise0 -> A "raise" | OBad -> A "bad"

let dispatch (cmd : string) (args : sx list) : sx =
  match cmd, args with
  | "valid_idx_rows", [t; p; rows] ->
      w_list w_nat (valid_idx_rows (ctype_ t) (bool_ p) (list_ (list_ z_) rows))
  | "idx_okb", [t; v] -> w_bool (idx_okb (ctype_ t) (list_ z_ v))
  | "removed_options", [t; ns; it; k] ->
      w_list (w_pair w_nat (w_list w_nat)) (removed_options (ctype_ t) (list_ nat_ ns) (nat_ it) (nat_ k))
  | "pre_removed", [t; ns; p] ->
      w_list (w_pair w_nat (w_list w_nat)) (pre_removed (ctype_ t) (list_ nat_ ns) (bool_ p))
  | "count_max", [t; ns; p] -> w_nat (count_max (ctype_ t) (list_ nat_ ns) (bool_ p))
  | "correct", [d; v] -> w_bigq (correct (dom_ d) (bigq_ v))
  | "in_dom", [d; v] -> w_bool (in_dom (dom_ d) (bigq_ v))
  | "canon", [d] -> w_bigq (canon (dom_ d))
  | "set_value", [g; i; v] -> w_opt (w_list (w_pair w_nat w_bigq)) (set_value (list_ dom_ g) (nat_ i) (bigq_ v))
  | "closure", [g; s] -> w_opt (w_list w_n) (closure (dsg_ g) (assign_ s))
  | "inst_nodes", [g; s] -> w_opt (w_list w_n) (inst_nodes (dsg_ g) (assign_ s))
  | "permanent", [g] -> w_opt (w_list w_n) (permanent (dsg_ g))
  | "admb", [g; s] -> w_opt w_bool (admb (dsg_ g) (assign_ s))
  | "enum_adm", [g] ->
      let g = dsg_ g in
      w_opt (w_list (fun s -> L [w_assign s; w_opt (w_list w_n) (inst_nodes g s)])) (enum_adm g)
  | "rows_of", [g; e] -> w_opt (w_list (w_list w_z)) (rows_of (dsg_ g) (list_ var_ e))
  | "enc_ok", [g; e] -> w_opt w_bool (enc_ok (dsg_ g) (list_ var_ e))
  | "n_declared", [e] -> w_n (n_declared (list_ var_ e))
  | "decode_witness", [g; e; k; x; x'; act; inst; dvv] ->
      w_opt (w_opt w_assign)
        (decode_witness (dsg_ g) (list_ var_ e) (kind_ k) (list_ bigq_ x) (list_ bigq_ x') (list_ bool_ act)
           (list_ n_ inst) (list_ (pair_ n_ bigq_) dvv))
  | "classify_all", [g; ms] -> w_opt (w_list (w_pair w_n w_role)) (classify_all (dsg_ g) (list_ metric_ ms))
  | "classify_flags", [ms] -> w_list (w_pair w_n w_role) (classify_flags (list_ (pair_ metric_ bool_) ms))
  | "in_every_arch", [g; n] -> w_opt w_bool (in_every_arch (dsg_ g) (n_ n))
  | "evaluate", [ms; rs; inst; vals] ->
      let ((o, c), mv) = evaluate (list_ metric_ ms) (list_ (pair_ n_ role_) rs) (list_ n_ inst) (list_ (pair_ n_ mval_) vals) in
      L [w_list w_mval o; w_list w_mval c; w_list (w_pair w_n w_mval) mv]
  | "enum_M", [st; e] -> w_list w_matrix (enum_M (settings_ st) (existence_ e))
  | "count_M", [st; e] -> w_nat (count_M (settings_ st) (existence_ e))
  | "validate_M", [st; e; ms] -> let st = settings_ st and e = existence_ e in
      w_list (fun m -> w_bool (validate st e (list_ (list_ nat_) m))) (lst ms)
  | "max_conn_mat", [st; e] -> w_matrix (max_conn_mat (settings_ st) (existence_ e))
  | "restrict_rows", [sel; i; v; rows] ->
      w_list (w_list w_z) (restrict_rows (bool_ sel) (nat_ i) (z_ v) (list_ (list_ z_) rows))
  | "arun", [alias; ops] ->
      let op_ x = match lst x with [A "d"; k] -> ADecode (nat_ k) | [A "m"; k; v] -> AMutate (nat_ k, nat_ v) | _ -> failwith "aop" in
      let (_, outs) = arun (bool_ alias) ainit (list_ op_ ops) in w_list (w_opt w_nat) outs
  | "coding_verdict", [st; e; nopts; tbl] ->
      let obs_ x = match lst x with
        | [i; o; a; m] -> { o_in = list_ z_ i; o_out = list_ z_ o; o_act = list_ bool_ a; o_mat = list_ (list_ nat_) m }
        | _ -> failwith "obs" in
      w_nat (coding_verdict (settings_ st) (existence_ e) (list_ nat_ nopts) (list_ obs_ tbl))
  | "conn_sets", [specs; inst; cc] | "edges_valid", [specs; inst; cc; _] ->
      let centry_ x = match lst x with
        | [A "single"; n] -> Single (n_ n) | [A "group"; g; ms] -> Group (n_ g, list_ n_ ms) | _ -> failwith "centry" in
      let cc_ x = match lst x with
        | [i; s; t; ex] -> { cc_id = n_ i; cc_src = list_ centry_ s; cc_tgt = list_ centry_ t; cc_excl = list_ (pair_ n_ n_) ex }
        | _ -> failwith "cchoice" in
      let specs = list_ (pair_ n_ cnode_) specs and inst = list_ n_ inst and cc = cc_ cc in
      if cmd = "conn_sets" then w_list (w_list (w_pair w_n w_n)) (conn_sets specs inst cc)
      else w_bool (edges_valid specs inst cc (list_ (pair_ n_ n_) (List.nth args 3)))
  | "sup_resolve", [g; maps; inst; s] ->
      let smap_ x = match lst x with
        | [A "opt"; c; o; so; cd; tbl] -> MOpt (n_ c, n_ o, list_ n_ so, bool_ cd, list_ (pair_ (opt_ n_) n_) tbl)
        | [A "exist"; tbl; d] -> MExist (list_ (pair_ n_ n_) tbl, opt_ n_ d)
        | _ -> failwith "smap" in
      w_opt (fun (s, i) -> L [w_assign s; w_list w_n i])
        (resolve (dsg_ g) (list_ (pair_ n_ smap_) maps) (list_ n_ inst) (assign_ s))
  | "timeout_allowed", [res; sw; dur; limit; tol] ->
      let res_ x = match lst x with [A "value"; v] -> OValue (nat_ v) | [A "raise"; v] -> ORaise (nat_ v) | _ -> failwith "outcome" in
      let w_out = function OValue v -> L [A "value"; w_nat v] | ORaise v -> L [A "raise"; w_nat v] | OTimeout -> A "timeout" in
      let p = { p_dur = nat_ dur; p_res = res_ res; p_swallow = bool_ sw } in
      w_list w_out (allowed p (nat_ dur) (nat_ limit) (nat_ tol))
  | "nested_summary", [fixed; dur; depth] ->
      (* outcomes and leak flag over all schedules of `depth` events of the nested-limits LTS *)
      let w_out = function OValue v -> L [A "value"; w_nat v] | ORaise v -> L [A "raise"; w_nat v] | OTimeout -> A "timeout" in
      let p = { p_dur = nat_ dur; p_res = OValue (nat_ (A "0")); p_swallow = false } in
      let states = nreach (bool_ fixed) p (nat_ depth) ninit in
      let outs = List.sort_uniq compare (List.filter_map (fun s -> match nreturned s with Some o -> Some o | None -> None) states) in
      L [w_list w_out outs; w_bool (List.exists nleaks states)]
  | "same_graph", [a; b] ->
      let sg_ x = match lst x with
        | [n; e; st; c] -> { g_nodes = list_ n_ n; g_edges = list_ n_ e; g_start = list_ n_ st; g_cons = list_ n_ c }
        | _ -> failwith "sgraph" in
      w_bool (same_graph (sg_ a) (sg_ b))
  | "get_best", [knows; np; by_inf; tbl] ->
      w_result (get_best (bool_ knows) (opt_ nat_ np) (bool_ by_inf) (list_ cand_ tbl))
  | "equalize", [tbl] -> w_list (fun c -> w_opt w_bigq c.c_dc) (equalize (list_ cand_ tbl))
  | "select", [excl; nmat; nmax; pat; eag; laz; enum] ->
      let e = { e_excl = bool_ excl; e_nmat = opt_ n_ nmat; e_nmax = n_ nmax; e_pat = list_ cand_ pat;
                e_eag = list_ cand_ eag; e_laz = list_ cand_ laz; e_enum = list_ cand_ enum } in
      let (o, fams) = select e in
      L [w_outcome o; w_list w_fam fams]
  | "combined", [ms] ->
      let c = combined (list_ cnode_ ms) in
      L [w_opt (w_list w_nat) c.c_list; w_nat c.c_min; w_bool c.c_rep]
  | "neighborhood", [vs] ->
      let nv_ x = match lst x with [n; c; f] -> ((nat_ n, z_ c), bool_ f) | _ -> failwith "nvar" in
      w_list (w_list w_z) (neighborhood (list_ nv_ vs))
  | "fast_decode", [chk; g; ovars; vars; x; fixed] ->
      (* the fast encoder's decode on the graph model: none = the model gives up; (some none) = no feasible vector *)
      w_opt (w_opt (fun (imp, inst) -> L [w_list w_z imp; w_list w_n inst]))
        (fast_decode (bool_ chk) (dsg_ g) (list_ (pair_ n_ (list_ n_)) ovars) (list_ (pair_ n_ (list_ n_)) vars) (list_ z_ x) (list_ bool_ fixed))
  | "persist_run", [h; ops] -> w_list w_n (prun_ids (list_ n_ h) (list_ (pair_ bool_ (pair_ nat_ n_)) ops))
  | "key_eq", [s1; p1; s2; p2] ->
      w_bool (ckey_eqb (cache_key (settings_ s1) (opt_ (list_ existence_) p1)) (cache_key (settings_ s2) (opt_ (list_ existence_) p2)))
  | _ -> Dispatch2.dispatch cmd args

let () =
  try
    while true do
      let line = input_line stdin in
      if String.length line > 0 then begin
        let out =
          try
            match parse line with
            | L (A cmd :: args) -> to_string (dispatch cmd args)
            | _ -> "(error bad-case)"
          with
          | Failure m -> "(error " ^ String.concat "_" (String.split_on_char ' ' m) ^ ")"
          | Stack_overflow -> "(error stack-overflow)"
          | Not_found -> "(error not-found)" in
        print_string out; print_newline ()
      end
    done
  with End_of_file -> ()
