(* dsgm: reads one case per line  (cmd arg ...)  and prints one result line per case. *)
open Dsgm_model
open Sx

let ctype_ x = match atom x with
  | "linked" -> Linked | "permutation" -> Permutation | "unordered" -> Unordered | "norepl" -> UnorderedNorepl
  | s -> failwith ("ctype " ^ s)

let dispatch (cmd : string) (args : sx list) : sx =
  match cmd, args with
  | "valid_idx_rows", [t; p; rows] ->
      w_list w_nat (valid_idx_rows (ctype_ t) (bool_ p) (list_ (list_ z_) rows))
  | "idx_okb", [t; v] -> w_bool (idx_okb (ctype_ t) (list_ z_ v))
  | "removed_options", [t; ns; it; k] ->
      w_list (w_pair w_nat (w_list w_nat)) (removed_options (ctype_ t) (list_ nat_ ns) (nat_ it) (nat_ k))
  | "pre_removed", [t; ns; p] ->
      w_list (w_pair w_nat (w_list w_nat)) (pre_removed (ctype_ t) (list_ nat_ ns) (bool_ p))
  | "count_max", [t; ns; p] -> w_nat (count_max (ctype_ t) (list_ nat_ ns) (bool_ p))
  | _ -> Dispatch2.dispatch cmd args

let () =
  try
    while true do
      let line = input_line stdin in
      if String.length line > 0 then begin
        let out =
          try
            match parse line with
            | L (A cmd :: args) -> to_string (dispatch cmd args)
            | _ -> "(error bad-case)"
          with
          | Failure m -> "(error " ^ String.concat "_" (String.split_on_char ' ' m) ^ ")"
          | Stack_overflow -> "(error stack-overflow)"
          | Not_found -> "(error not-found)" in
        print_string out; print_newline ()
      end
    done
  with End_of_file -> ()
