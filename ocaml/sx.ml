(* Generic S-expression glue between the Python harness and the extracted model (trusted glue). *)
open Dsgm_model

type sx = A of string | L of sx list

let parse (s : string) : sx =
  let n = String.length s in
  let pos = ref 0 in
  let rec skip () = if !pos < n && (s.[!pos] = ' ' || s.[!pos] = '\t' || s.[!pos] = '\n') then (incr pos; skip ()) in
  let rec item () =
    skip ();
    if !pos >= n then failwith "sx: eof"
    else if s.[!pos] = '(' then begin
      incr pos;
      let acc = ref [] in
      let rec loop () =
        skip ();
        if !pos >= n then failwith "sx: unclosed"
        else if s.[!pos] = ')' then incr pos
        else (acc := item () :: !acc; loop ()) in
      loop (); L (List.rev !acc)
    end else begin
      let st = !pos in
      while !pos < n && not (s.[!pos] = ' ' || s.[!pos] = '(' || s.[!pos] = ')' || s.[!pos] = '\n' || s.[!pos] = '\t') do incr pos done;
      A (String.sub s st (!pos - st))
    end in
  item ()

let rec print_sx b = function
  | A s -> Buffer.add_string b s
  | L l -> Buffer.add_char b '(';
           List.iteri (fun i x -> if i > 0 then Buffer.add_char b ' '; print_sx b x) l;
           Buffer.add_char b ')'
let to_string x = let b = Buffer.create 256 in print_sx b x; Buffer.contents b

(* ---- numbers ---- *)
let rec nat_of_int n = if n <= 0 then O else S (nat_of_int (n - 1))
let rec int_of_nat = function O -> 0 | S n -> 1 + int_of_nat n
let rec pos_of_int n = if n <= 1 then XH else if n land 1 = 1 then XI (pos_of_int (n lsr 1)) else XO (pos_of_int (n lsr 1))
let rec int_of_pos = function XH -> 1 | XO p -> 2 * int_of_pos p | XI p -> 2 * int_of_pos p + 1
let z_of_int n = if n = 0 then Z0 else if n > 0 then Zpos (pos_of_int n) else Zneg (pos_of_int (-n))
let int_of_z = function Z0 -> 0 | Zpos p -> int_of_pos p | Zneg p -> - (int_of_pos p)
let n_of_int n = if n <= 0 then N0 else Npos (pos_of_int n)
let int_of_n = function N0 -> 0 | Npos p -> int_of_pos p

(* ---- readers ---- *)
let atom = function A s -> s | L _ -> failwith "sx: atom expected"
let lst = function L l -> l | A s -> failwith ("sx: list expected, got " ^ s)
let int_ x = int_of_string (atom x)
let nat_ x = nat_of_int (int_ x)
let z_ x = z_of_int (int_ x)
let n_ x = n_of_int (int_ x)
let bool_ x = match atom x with "1" | "true" | "T" -> true | "0" | "false" | "F" -> false | s -> failwith ("sx: bool " ^ s)
let list_ f x = List.map f (lst x)
let pair_ f g x = match lst x with [a; b] -> (f a, g b) | _ -> failwith "sx: pair"
let opt_ f x = match x with A "none" -> None | L [A "some"; v] -> Some (f v) | _ -> failwith "sx: option"

(* ---- writers ---- *)
let w_int i = A (string_of_int i)
let w_nat n = w_int (int_of_nat n)
let w_z z = w_int (int_of_z z)
let w_n n = w_int (int_of_n n)
let w_bool b = A (if b then "1" else "0")
let w_list f l = L (List.map f l)
let w_pair f g (a, b) = L [f a; g b]
let w_opt f = function None -> A "none" | Some v -> L [A "some"; f v]
