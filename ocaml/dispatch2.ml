open Sx
let dispatch (cmd : string) (_ : sx list) : sx = failwith ("unknown-command-" ^ cmd)
