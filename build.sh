#!/bin/bash
# Build the Coq development (full .vo build) and the extracted OCaml model driver `dsgm`.
# usage: build.sh [clean]
set -e
cd "$(dirname "$0")"
V=$(pwd)
exec 9>"$V/.build.lock"; flock 9
if [ "$1" = "clean" ]; then
  rm -rf ocaml/_build
  (cd coq && [ -f Makefile ] && make clean >/dev/null 2>&1 || true)
  rm -f coq/Makefile coq/Makefile.conf coq/dsgm_model.ml coq/dsgm_model.mli
fi
cd coq
[ -f Makefile ] || coq_makefile -f _CoqProject -o Makefile >/dev/null
timeout 3000 make -j16 2>&1 | grep -v '^WARNING conda' > "$V/coq/build.log" || { cat "$V/coq/build.log"; exit 2; }
cd "$V"
mkdir -p ocaml/_build
if [ ! -x ocaml/_build/dsgm ] || [ coq/dsgm_model.ml -nt ocaml/_build/dsgm ] || [ -n "$(find ocaml -maxdepth 1 -name '*.ml' -newer ocaml/_build/dsgm)" ]; then
  cp coq/dsgm_model.ml coq/dsgm_model.mli ocaml/*.ml ocaml/_build/
  # link under another name and rename: a check that is running keeps the binary it started with
  rm -f ocaml/_build/dsgm.new
  (cd ocaml/_build && ocamlfind ocamlopt -O2 -w -a -package str dsgm_model.mli dsgm_model.ml sx.ml dispatch2.ml dsgm.ml -o dsgm.new 2>&1 | grep -v 'WARNING conda' || true)
  [ -x ocaml/_build/dsgm.new ] || { echo "dsgm build failed"; exit 3; }
  mv -f ocaml/_build/dsgm.new ocaml/_build/dsgm
fi
