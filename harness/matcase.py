"""matcase.py — connector settings cases (MatrixGenSettings + existence patterns): generator, builder, model printer."""
import itertools
from common import sx, rng_for

# node spec alphabet: ('list', [..], rep) | ('min', lo, rep)
ALPHABET = [('list', [1], True), ('list', [0, 1], True), ('list', [1, 2], True), ('min', 0, True), ('min', 1, True),
            ('list', [2], True), ('list', [0, 2], True), ('list', [1, 3], True), ('list', [0, 1, 2], True),
            ('list', [1], False), ('list', [0, 1], False), ('min', 0, False), ('min', 1, False), ('list', [1, 2], False),
            ('min', 2, True), ('list', [0], True), ('list', [0, 1, 2, 3], False), ('list', [2, 3], True),
            ('list', [0, 1, 2, 3], True), ('list', [1, 2, 3], True), ('list', [0, 1, 2, 3, 4], True)]


def py_node(spec):
    from adsg_core.optimization.assign_enc.matrix import Node
    if spec[0] == 'list':
        return Node(list(spec[1]), repeated_allowed=bool(spec[2]))
    return Node(min_conn=spec[1], repeated_allowed=bool(spec[2]))


def sx_node(spec):
    if spec[0] == 'list':
        # the allowed numbers are a set: a value written twice means nothing more
        return [['some', sorted(set(spec[1]))], 0, bool(spec[2])]
    return ['none', spec[1], bool(spec[2])]


def build(case):
    """case: {'src': [spec], 'tgt': [spec], 'excl': [[i,j]], 'par': None|int,
              'patterns': [{'src': [ov], 'tgt': [ov]}]} with ov = None | list of allowed degrees ([0] = absent)"""
    from adsg_core.optimization.assign_enc.matrix import (MatrixGenSettings, NodeExistence, NodeExistencePatterns,
                                                           AggregateAssignmentMatrixGenerator)
    src = [py_node(s) for s in case['src']]
    tgt = [py_node(s) for s in case['tgt']]
    pats = []
    how = case.get('_build')
    only_absent = all(o in (None, [0]) for p in case['patterns'] for o in p['src'] + p['tgt'])
    shared_s, shared_t = {}, {}
    for p in case['patterns']:
        if how == 'exists-shared' and only_absent:
            # the other public way to write the same patterns: existence flags, with ONE override dictionary object handed to
            # every pattern (the constructor must not write into it)
            pats.append(NodeExistence(src_exists=[o != [0] for o in p['src']], tgt_exists=[o != [0] for o in p['tgt']],
                                      src_n_conn_override=shared_s, tgt_n_conn_override=shared_t))
            continue
        rev = how == 'reversed-keys'
        so = {i: list(o) for i, o in sorted(enumerate(p['src']), reverse=rev) if o is not None}
        to = {i: list(o) for i, o in sorted(enumerate(p['tgt']), reverse=rev) if o is not None}
        pats.append(NodeExistence(src_n_conn_override=so or None, tgt_n_conn_override=to or None))
    settings = MatrixGenSettings(src, tgt, excluded=[tuple(e) for e in case['excl']] or None,
                                 existence=NodeExistencePatterns(pats), max_conn_parallel=case['par'])
    return settings, pats


def sx_settings(case):
    return [[sx_node(s) for s in case['src']], [sx_node(s) for s in case['tgt']], [list(e) for e in case['excl']],
            'none' if case['par'] is None else ['some', case['par']]]


def sx_pattern(p):
    def ov(o):
        return 'none' if o is None else ['some', list(o)]
    return [[ov(o) for o in p['src']], [ov(o) for o in p['tgt']]]


def gen(rng, max_src=2, max_tgt=3, alphabet=None, overrides=True):
    alphabet = alphabet or ALPHABET
    ns, nt = rng.randint(1, max_src), rng.randint(1, max_tgt)
    src = [list(rng.choice(alphabet)) for _ in range(ns)]
    tgt = [list(rng.choice(alphabet)) for _ in range(nt)]
    excl = []
    if rng.random() < 0.3:
        for _ in range(rng.randint(1, 2)):
            e = [rng.randrange(ns), rng.randrange(nt)]
            if e not in excl:
                excl.append(e)
    par = rng.choice([None, None, None, 1, 2, 3])
    pats = [{'src': [None] * ns, 'tgt': [None] * nt}]
    seen = {sx(sx_pattern(pats[0]))}
    for _ in range(rng.randint(0, 3)):
        p = {'src': [], 'tgt': []}
        for side, n in (('src', ns), ('tgt', nt)):
            for i in range(n):
                r = rng.random()
                if r < 0.3:
                    p[side].append([0])
                elif overrides and r < 0.4:
                    p[side].append(sorted(rng.sample(range(0, 4), rng.randint(1, 3))))
                else:
                    p[side].append(None)
        k = sx(sx_pattern(p))
        if k not in seen:
            seen.add(k)
            pats.append(p)
    if rng.random() < 0.25 and (nt >= 2 or ns >= 2):
        # a symmetric family: each node of one side absent in turn (patterns with the same variable layout)
        side, n = ('tgt', nt) if (nt >= 2 and (ns < 2 or rng.random() < 0.7)) else ('src', ns)
        for i in range(n):
            p = {'src': [None] * ns, 'tgt': [None] * nt}
            p[side][i] = [0]
            k = sx(sx_pattern(p))
            if k not in seen:
                seen.add(k)
                pats.append(p)
    return {'src': src, 'tgt': tgt, 'excl': excl, 'par': par, 'patterns': pats}


def shrink(case):
    if len(case['patterns']) > 1:
        for k in range(len(case['patterns'])):
            yield dict(case, patterns=case['patterns'][:k] + case['patterns'][k + 1:])
    for k in range(len(case['excl'])):
        yield dict(case, excl=case['excl'][:k] + case['excl'][k + 1:])
    if case['par'] is not None:
        yield dict(case, par=None)
    for side in ('src', 'tgt'):
        if len(case[side]) > 1:
            for k in range(len(case[side])):
                c = dict(case)
                c[side] = case[side][:k] + case[side][k + 1:]
                other = 0 if side == 'src' else 1
                c['excl'] = [e for e in case['excl'] if e[other] != k]
                c['excl'] = [[e[0] - (1 if side == 'src' and e[0] > k else 0), e[1] - (1 if side == 'tgt' and e[1] > k else 0)] for e in c['excl']]
                c['patterns'] = [dict(p, **{side: p[side][:k] + p[side][k + 1:]}) for p in case['patterns']]
                # de-duplicate patterns
                seen, pats = set(), []
                for p in c['patterns']:
                    kk = sx(sx_pattern(p))
                    if kk not in seen:
                        seen.add(kk)
                        pats.append(p)
                c['patterns'] = pats
                yield c
    for side in ('src', 'tgt'):
        for k, spec in enumerate(case[side]):
            for simpler in (['list', [1], True], ['min', 0, True]):
                if list(spec) != simpler:
                    c = dict(case)
                    c[side] = case[side][:k] + [simpler] + case[side][k + 1:]
                    yield c
