"""Shared plumbing of the correspondence harness (trusted glue): s-expressions, dsgm runner, PRNG, pools."""
import os, sys, json, subprocess, random, hashlib, time, itertools, math

VERIF = os.path.dirname(os.path.dirname(os.path.abspath(__file__)))
DSGM = os.path.join(VERIF, 'ocaml', '_build', 'dsgm')
NPROC = int(os.environ.get('VERIF_NPROC', '16'))


# ---------------------------------------------------------------- s-expressions
def sx(x):
    """Python value -> s-expression text. bool -> 1/0, int -> decimal, str -> atom, None -> none, seq -> list."""
    if x is True:
        return '1'
    if x is False:
        return '0'
    if x is None:
        return 'none'
    if isinstance(x, int):
        return str(x)
    if isinstance(x, str):
        return x
    if isinstance(x, (list, tuple)):
        return '(' + ' '.join(sx(i) for i in x) + ')'
    if hasattr(x, '__int__') and not isinstance(x, float):
        return str(int(x))
    raise TypeError('sx: %r' % (x,))


def some(x):
    return ['some', x]


def sx_parse(s):
    """s-expression text -> nested lists; atoms that look like ints become ints."""
    toks = s.replace('(', ' ( ').replace(')', ' ) ').split()
    pos = 0

    def item():
        nonlocal pos
        t = toks[pos]
        pos += 1
        if t == '(':
            out = []
            while toks[pos] != ')':
                out.append(item())
            pos += 1
            return out
        try:
            return int(t)
        except ValueError:
            return t
    v = item()
    return v


def run_dsgm(lines, timeout=300):
    """Feed query lines to the extracted model, return the parsed result per line."""
    if not lines:
        return []
    inp = '\n'.join(lines) + '\n'
    try:
        p = subprocess.run(['bash', '-c', 'ulimit -s unlimited 2>/dev/null; exec "%s"' % DSGM], input=inp.encode(),
                           stdout=subprocess.PIPE, stderr=subprocess.PIPE, timeout=timeout)
    except subprocess.TimeoutExpired:
        return [['error', 'model-timeout']] * len(lines)
    out = p.stdout.decode().split('\n')
    if out and out[-1] == '':
        out.pop()
    if len(out) != len(lines):
        raise RuntimeError('dsgm returned %d lines for %d queries (rc=%s, stderr=%s)' %
                           (len(out), len(lines), p.returncode, p.stderr.decode()[-400:]))
    return [sx_parse(o) for o in out]


def run_dsgm_parallel(lines, nproc=None):
    nproc = nproc or NPROC
    if len(lines) < 64:
        return run_dsgm(lines)
    import concurrent.futures as cf
    chunks = [lines[i::nproc] for i in range(nproc)]
    with cf.ThreadPoolExecutor(nproc) as ex:
        res = list(ex.map(run_dsgm, chunks))
    out = [None] * len(lines)
    for k, r in enumerate(res):
        out[k::nproc] = r
    return out


# ---------------------------------------------------------------- randomness
def subseed(seed, *parts):
    h = hashlib.sha256(repr((seed,) + parts).encode()).digest()
    return int.from_bytes(h[:8], 'big')


def rng_for(seed, *parts):
    return random.Random(subseed(seed, *parts))


def case_hash(case):
    return hashlib.sha256(json.dumps(case, sort_keys=True, default=str).encode()).hexdigest()[:12]


# ---------------------------------------------------------------- misc
def is_model_error(m):
    return isinstance(m, list) and len(m) >= 1 and m[0] == 'error'


class Stats:
    """Counts of named buckets (the measured input distribution that goes into the evidence)."""

    def __init__(self):
        self.d = {}

    def add(self, key, n=1):
        self.d[key] = self.d.get(key, 0) + n

    def merge(self, other):
        for k, v in (other.d if isinstance(other, Stats) else other).items():
            self.add(k, v)

    def as_dict(self):
        return dict(sorted(self.d.items()))
