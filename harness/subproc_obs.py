"""subproc_obs.py — run in a separate interpreter (other PYTHONHASHSEED): build the graph of a case and print, as JSON, its
design variables and decode results in identity-free form (names / integer ids)."""
import sys, json, os
sys.path.insert(0, os.path.dirname(os.path.abspath(__file__)))
import dsgcase, procdrive


def observe(case, kind, vectors):
    from adsg_core.optimization.graph_processor import GraphProcessor
    from adsg_core.optimization.hierarchy import SelChoiceEncoderType
    b = dsgcase.build(case)
    et = SelChoiceEncoderType.COMPLETE if kind == 'complete' else SelChoiceEncoderType.FAST
    gp = GraphProcessor(b.dsg, encoder_type=et)
    import pickle, base64
    out = {'graph_pickle': base64.b64encode(pickle.dumps(b.dsg)).decode(),
           'processor_pickle': base64.b64encode(pickle.dumps(gp)).decode(), 'des_vars': [[dv.name, dv.n_opts, None if dv.bounds is None else [float(x) for x in dv.bounds]] for dv in gp.des_vars],
           'fingerprint_stable': b.dsg.copy().is_same(b.dsg), 'decodes': []}
    for x in vectors:
        inst, x2, act = gp.get_graph(list(x))
        nodes, dvv = procdrive.observe_instance(b, inst)
        out['decodes'].append([[float(v) for v in x2], [bool(a) for a in act], nodes, [[n, float(v)] for n, v in dvv]])
    return out


if __name__ == '__main__':
    req = json.load(sys.stdin)
    print('RESULT ' + json.dumps(observe(req['case'], req['kind'], req['vectors'])))
