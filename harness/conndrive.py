"""conndrive.py — connection choices at graph level: generator G-conn, and the driver comparing iter_conn_edges /
validate_conn_edges / get_for_apply_connection_choice with the model's conn_sets / edges_valid."""
from common import sx, run_dsgm, rng_for, is_model_error
import dsgcase

SPECS = [['list', [1]], ['list', [0, 1]], ['range', 1, 2], ['min', 0], ['min', 1], ['list', [2]], ['list', [0, 2]],
         ['range', 0, 2], ['list', [1, 3]]]


def spec_sx(d, rep):
    if d[0] == 'list':
        return [['some', list(d[1])], 0, bool(rep)]
    if d[0] == 'range':
        return [['some', list(range(d[1], d[2] + 1))], 0, bool(rep)]
    return ['none', d[1], bool(rep)]


def permanent_hosts(case):
    """nodes derived from the start nodes without passing a choice (present in every architecture, incompatibilities aside)"""
    seen = list(case['start'])
    todo = list(case['start'])
    while todo:
        x = todo.pop()
        for s_, t_ in case['edges']:
            if s_ == x and t_ not in seen:
                seen.append(t_)
                todo.append(t_)
    bad = {n for pair in case.get('incompat', []) for n in pair}
    return [n for n in seen if n not in bad] or list(case['start'])


SMALL_SPECS = [['list', [0, 1]], ['list', [0, 1]], ['range', 0, 1], ['list', [1]], ['range', 0, 2]]


def add_connection(rng, case, n_choices=1, group_prob=0.25, permanent_only=False, small=False):
    """append connector / grouping nodes and connection choices to a selection-choice case (ids are renumbered so that
    plain nodes stay 0..n-1 and choices follow)"""
    case = dict(case)
    n0 = case['n']
    hosts = permanent_hosts(case) if permanent_only else list(range(n0))
    new_nodes = []          # (kind entry)
    kinds = dict(case.get('kinds', {}))
    edges = [list(e) for e in case['edges']]
    conn = []

    def new_connector():
        i = n0 + len(new_nodes)
        new_nodes.append(i)
        # small: degree lists that leave each connection choice a handful of valid sets, so that several connection choices
        # with more than one valid set each stay within the row limit
        kinds[str(i)] = ['conn', rng.choice(SMALL_SPECS), False] if small else ['conn', rng.choice(SPECS), rng.random() < 0.35]
        edges.append([rng.choice(hosts), i])
        return i

    def entries(k):
        out = []
        for _ in range(k):
            if rng.random() < group_prob:
                g = n0 + len(new_nodes)
                new_nodes.append(g)
                kinds[str(g)] = ['group']
                ms = [new_connector() for _ in range(rng.randint(2, 3))]
                out.append([g, ms])
            else:
                out.append(new_connector())
        return out
    for _ in range(n_choices):
        src = entries(1 if small else rng.randint(1, 2))
        tgt = entries(2 if small else rng.randint(1, 3))
        tops_s = [e if isinstance(e, int) else e[0] for e in src]
        tops_t = [e if isinstance(e, int) else e[0] for e in tgt]
        excl = []
        if rng.random() < 0.3:
            excl.append([rng.choice(tops_s), rng.choice(tops_t)])
        conn.append({'src': src, 'tgt': tgt, 'excl': excl})
    k = len(new_nodes)
    # renumber the selection choices behind the new plain nodes
    remap = {sc['id']: sc['id'] + k for sc in case['sel']}
    case['sel'] = [dict(sc, id=remap[sc['id']]) for sc in case['sel']]
    case['cons'] = [dict(c, choices=[remap[x] for x in c['choices']]) for c in case.get('cons', [])]
    case['n'] = n0 + k
    case['edges'] = edges
    case['kinds'] = kinds
    nxt = case['n'] + len(case['sel'])
    for cc in conn:
        cc['id'] = nxt
        nxt += 1
    case['conn'] = conn
    return case


def specs_sx(case):
    out = []
    for k, v in case.get('kinds', {}).items():
        if v[0] == 'conn':
            out.append([int(k), spec_sx(v[1], v[2])])
    return out


def cc_sx(cc):
    def ent(e):
        return ['single', e] if isinstance(e, int) else ['group', e[0], list(e[1])]
    return [cc['id'], [ent(e) for e in cc['src']], [ent(e) for e in cc['tgt']], [list(p) for p in cc.get('excl', [])]]


def explore(case, seed=0, max_sigma=8):
    rng = rng_for(seed, 'conn', sx([case['n'], case['edges']]))
    try:
        b = dsgcase.build(case)
    except Exception as e:
        return {'skip': 'build:%s' % type(e).__name__}
    from adsg_core.graph.graph_edges import EdgeType, get_edge_type
    g0 = b.dsg
    mg = dsgcase.model_dsg(case, b.opt_order, getattr(b, 'cons_opts', None))
    res = run_dsgm([sx(['enum_adm', mg])])[0]
    if is_model_error(res) or res == 'none':
        return {'fail': {'clause': 'model-error', 'detail': sx(res), 'no_input': True}}
    adm = [({c: o for c, o in s}, sorted(inst[1])) for s, inst in res[1]]
    sel_ids = {sc['id'] for sc in case['sel']}
    tags = ['adm=%d' % min(len(adm), 9), 'conn=%d' % len(case['conn'])]
    specs = specs_sx(case)
    n_sets_total = 0
    nt = False
    live = []          # (sigma, graph, feasible, {choice id: offered sets}) of every scenario, re-observed at the end
    for sigma, inst in adm[:max_sigma]:
        g = g0
        ok = True
        while True:
            off = [c for c in g.get_ordered_next_choice_nodes() if b.ident[c] in sel_ids and c in g.graph.nodes]
            if not off:
                break
            c = off[0]
            if b.ident[c] not in sigma:
                ok = False
                break
            try:
                g = g.get_for_apply_selection_choice(c, b.node[sigma[b.ident[c]]])
            except Exception:
                ok = False
                break
        if not ok:
            tags.append('resolution-diverged')     # C02's business, not this check's
            continue
        nodes = sorted(b.ident[n] for n in g.graph.nodes if b.ident[n] not in sel_ids and b.ident[n] not in {cc['id'] for cc in case['conn']})
        if nodes != inst:
            tags.append('instance-differs')        # C02's business
            continue
        # a scenario is connectable when every connection choice (present or not) has at least one valid connection set
        all_sets = run_dsgm([sx(['conn_sets', specs, inst, cc_sx(cc)]) for cc in case['conn']])
        scenario_ok = all((not is_model_error(m)) and len(m) > 0 for m in all_sets)
        feasible_i = bool(g.feasible)
        if scenario_ok and not feasible_i:
            return {'fail': {'clause': 'connectable-scenario-reported-infeasible', 'detail': 'sigma %s nodes %s' % (sigma, inst)}, 'tags': tags}
        tags.append('scenario:%s/%s' % ('ok' if scenario_ok else 'unconnectable', 'feasible' if feasible_i else 'infeasible'))
        first_obs = {}
        live.append((sigma, g, feasible_i, first_obs))
        for cc in case['conn']:
            node = b.node[cc['id']]
            present = node in g.graph.nodes
            tops_s = [e if isinstance(e, int) else e[0] for e in cc['src']]
            model_present = any(t in inst for t in tops_s)
            if present != model_present:
                return {'fail': {'clause': 'connection-choice-existence-differs', 'detail': 'sigma %s choice %d impl %s model %s' % (sigma, cc['id'], present, model_present)}, 'tags': tags}
            if not present:
                continue
            try:
                impl_sets = sorted(sorted((b.ident[s], b.ident[t]) for s, t in es) for es in node.iter_conn_edges(g))
            except Exception as e:
                return {'fail': {'clause': 'iter-conn-edges-raises:%s' % type(e).__name__, 'detail': 'sigma %s choice %d: %s: %s' % (sigma, cc['id'], type(e).__name__, e)}, 'tags': tags}
            m = run_dsgm([sx(['conn_sets', specs, inst, cc_sx(cc)])])[0]
            if is_model_error(m):
                return {'fail': {'clause': 'model-error', 'detail': sx(m), 'no_input': True}}
            model_sets = sorted(sorted(tuple(p) for p in es) for es in m)
            first_obs[cc['id']] = impl_sets
            n_sets_total += len(model_sets)
            nt = nt or len(model_sets) >= 2
            if impl_sets != model_sets:
                miss = [s for s in model_sets if s not in impl_sets][:3]
                extra = [s for s in impl_sets if s not in model_sets][:3]
                return {'fail': {'clause': 'offered-connection-sets-differ', 'detail': 'sigma %s choice %d present %s: missing %s extra %s (impl %d model %d)' % (
                    sigma, cc['id'], [n for n in inst if str(n) in case['kinds']], miss, extra, len(impl_sets), len(model_sets))}, 'tags': tags}
            # validation of edge lists: every offered set, and perturbed ones
            cands = [list(s) for s in model_sets[:4]]
            allowed_s = [t for t in tops_s if t in inst]
            allowed_t = [t for t in (e if isinstance(e, int) else e[0] for e in cc['tgt']) if t in inst]
            for _ in range(4):
                if allowed_s and allowed_t:
                    cands.append(sorted((rng.choice(allowed_s), rng.choice(allowed_t)) for _ in range(rng.randint(0, 3))))
            for es in cands:
                try:
                    vi = bool(node.validate_conn_edges(g, [(b.node[s], b.node[t]) for s, t in es]))
                except Exception as e:
                    return {'fail': {'clause': 'validate-conn-edges-raises:%s' % type(e).__name__, 'detail': '%s: %s' % (type(e).__name__, e)}, 'tags': tags}
                vm = run_dsgm([sx(['edges_valid', specs, inst, cc_sx(cc), [list(p) for p in es]])])[0]
                if bool(vm) != vi:
                    return {'fail': {'clause': 'validate-conn-edges-differs', 'detail': 'sigma %s choice %d edges %s impl %s model %s' % (sigma, cc['id'], es, vi, bool(vm))}, 'tags': tags}
            # applying a set yields an instance with precisely those connection edges, without the choice node
            if model_sets and feasible_i:
                es = rng.choice(model_sets)
                try:
                    g2 = g.get_for_apply_connection_choice(node, [(b.node[s], b.node[t]) for s, t in es])
                except Exception as e:
                    return {'fail': {'clause': 'apply-connection-raises:%s' % type(e).__name__, 'detail': 'edges %s: %s: %s' % (es, type(e).__name__, e)}, 'tags': tags}
                got = sorted((b.ident[e[0]], b.ident[e[1]]) for e in g2.graph.edges(keys=True, data=True)
                             if get_edge_type(e) == EdgeType.CONNECTS and b.ident[e[0]] in allowed_s and b.ident[e[1]] in allowed_t)
                if got != sorted(es) or node in g2.graph.nodes:
                    return {'fail': {'clause': 'applied-connection-edges-differ', 'detail': 'applied %s instance has %s choice node left: %s' % (es, got, node in g2.graph.nodes)}, 'tags': tags}
                if len(case['conn']) == 1 and not g2.final:
                    return {'fail': {'clause': 'instance-not-final-after-connection', 'detail': 'sigma %s' % (sigma,)}, 'tags': tags}
    # second pass: the graphs of all scenarios are alive together (node objects are shared between them); what each one
    # reports must still be what it reported -- and what the model said -- when it was the most recently derived graph
    for sigma, g, feasible_i, first_obs in live:
        for cid, sets1 in first_obs.items():
            node = b.node[cid]
            try:
                sets2 = sorted(sorted((b.ident[s], b.ident[t]) for s, t in es) for es in node.iter_conn_edges(g))
            except Exception as e:
                return {'fail': {'clause': 'earlier-graph-iter-conn-edges-raises:%s' % type(e).__name__, 'detail': 'sigma %s choice %d: %s' % (sigma, cid, e)}, 'tags': tags}
            if sets2 != sets1:
                return {'fail': {'clause': 'earlier-graph-connection-sets-changed', 'detail': 'sigma %s choice %d: %d sets when derived, %d sets after %d other scenario graphs were derived' % (sigma, cid, len(sets1), len(sets2), len(live) - 1)}, 'tags': tags}
    for sigma, g, feasible_i, first_obs in reversed(live):
        try:
            f2 = bool(g.feasible)
        except Exception as e:
            return {'fail': {'clause': 'earlier-graph-feasible-raises:%s' % type(e).__name__, 'detail': 'sigma %s: %s' % (sigma, e)}, 'tags': tags}
        if f2 != feasible_i:
            return {'fail': {'clause': 'earlier-graph-feasibility-changed', 'detail': 'sigma %s: feasible was %s, is %s after %d other scenario graphs were derived' % (sigma, feasible_i, f2, len(live) - 1)}, 'tags': tags}
    if len(live) >= 2:
        tags.append('second-pass=%d' % min(len(live), 9))
    tags.append('sets=%d' % min(n_sets_total, 20))
    return {'impl': {'admissible': len(adm), 'connection_sets': n_sets_total}, 'nontrivial': nt, 'tags': tags, 'queries': []}


def explore_processor(case, seed=0, max_rows=400, focus=None):
    """processor level: the architectures reachable through get_all_discrete_x + get_graph = the model's architectures
    (admissible assignment x one valid connection set per connection choice), one row each"""
    import itertools
    from adsg_core.optimization.graph_processor import GraphProcessor
    from adsg_core.optimization.hierarchy import SelChoiceEncoderType
    from adsg_core.graph.graph_edges import EdgeType, get_edge_type
    try:
        b = dsgcase.build(case)
    except Exception as e:
        return {'skip': 'build:%s' % type(e).__name__}
    mg = dsgcase.model_dsg(case, b.opt_order, getattr(b, 'cons_opts', None))
    res = run_dsgm([sx(['enum_adm', mg])])[0]
    if is_model_error(res) or res == 'none':
        return {'fail': {'clause': 'model-error', 'detail': sx(res), 'no_input': True}}
    specs = specs_sx(case)
    want = set()
    want_n = {}            # architecture -> number of admissible assignments that give it (options that are present anyway)
    for s, inst in res[1]:
        inst = sorted(inst[1])
        per_cc = run_dsgm([sx(['conn_sets', specs, inst, cc_sx(cc)]) for cc in case['conn']])
        if any(is_model_error(m) for m in per_cc):
            return {'fail': {'clause': 'model-error', 'detail': sx(per_cc), 'no_input': True}}
        for combo in itertools.product(*[[tuple(sorted(tuple(p) for p in es)) for es in m] for m in per_cc]):
            edges = tuple(sorted(e for es in combo for e in es))
            want.add((tuple(inst), edges))
            want_n[(tuple(inst), edges)] = want_n.get((tuple(inst), edges), 0) + 1
    tags = ['proc', 'archs=%d' % min(len(want), 50), 'conn=%d' % len(case['conn'])]
    if sum(want_n.values()) > max_rows:
        return {'skip': 'too-many-architectures', 'tags': tags}
    conn_ids = {int(k) for k, v in case['kinds'].items() if v[0] in ('conn', 'group')}
    all_insts = [set(inst[1]) for s, inst in res[1]]
    conditional = any(c not in I for I in all_insts for c in conn_ids)
    tags.append('connectors:%s' % ('conditional' if conditional else 'permanent'))
    rng = rng_for(seed, 'connproc', sx([case['n'], case['edges']]))

    def fail(clause, detail):
        return {'fail': {'clause': clause, 'detail': '%s [connectors=%s]' % (detail, 'conditional' if conditional else 'permanent')}, 'tags': tags}

    def arch_of(inst):
        nodes = tuple(sorted(b.ident[n] for n in inst.graph.nodes))
        edges = tuple(sorted((b.ident[e[0]], b.ident[e[1]]) for e in inst.graph.edges(keys=True, data=True)
                             if get_edge_type(e) == EdgeType.CONNECTS and b.ident[e[0]] in conn_ids and b.ident[e[1]] in conn_ids))
        return nodes, edges
    try:
        gp = GraphProcessor(b.dsg, encoder_type=SelChoiceEncoderType.COMPLETE)
        X, A = gp.get_all_discrete_x()
    except Exception as e:
        if not want and isinstance(e, (ValueError, RuntimeError)):
            return {'impl': {'error': type(e).__name__}, 'nontrivial': False, 'tags': tags + ['empty-space'], 'queries': []}
        return fail('processor-raises:%s' % type(e).__name__, '%s: %s (model has %d architectures)' % (type(e).__name__, e, len(want)))
    got = []
    rows = X.tolist()
    first = {}
    handed_out = []
    for xr in rows:
        try:
            inst, x2, act = gp.get_graph(xr)
        except Exception as e:
            return fail('decode-raises:%s' % type(e).__name__, 'row %s: %s: %s' % (xr, type(e).__name__, e))
        if [float(v) for v in x2] != [float(v) for v in xr]:
            return fail('enumerated-row-does-not-decode-to-itself', 'row %s -> %s' % (xr, list(x2)))
        if not inst.final or not inst.feasible:
            return fail('decoded-instance-not-final-or-infeasible', 'row %s final %s feasible %s' % (xr, inst.final, inst.feasible))
        a = arch_of(inst)
        first[tuple(xr)] = a
        got.append(a)
        # the caller owns the instance: what is stored on it must not come back with a later decode
        try:
            inst.set_metric_value(b.node[case['start'][0]], 7.0)
        except Exception:
            pass
        handed_out.append(inst)
    if focus == 'history':
        # what this long-lived processor returned must be what a processor that decodes nothing else returns
        sample = list(rows)
        rng_for(seed, 'connproc-fresh').shuffle(sample)
        for xr in sample[:8]:
            try:
                inst_f, _x, _a = GraphProcessor(b.dsg, encoder_type=SelChoiceEncoderType.COMPLETE).get_graph(xr)
            except Exception as e:
                return fail('decode-raises:%s' % type(e).__name__, 'row %s (fresh processor): %s: %s' % (xr, type(e).__name__, e))
            if arch_of(inst_f) != first[tuple(xr)]:
                return fail('decode-differs-from-fresh-processor', 'row %s: after decoding the rows before it %s, on a fresh processor %s' % (
                    xr, first[tuple(xr)], arch_of(inst_f)))
    dup = [g for g in set(got) if got.count(g) > want_n.get(g, 1)][:2]
    if dup:
        return fail('two-rows-one-architecture', str(dup))
    if set(got) != want:
        return fail('architectures-differ', 'missing %s extra %s (impl %d model %d)' % (
            sorted(want - set(got))[:2], sorted(set(got) - want)[:2], len(got), len(want)))
    if gp.get_n_valid_designs() != sum(want_n.values()):
        return fail('n-valid-designs-differs', 'impl %d model %d' % (gp.get_n_valid_designs(), sum(want_n.values())))
    # the processor lives on: the same rows in another order must give the same architectures again
    again = list(rows)
    rng.shuffle(again)
    for xr in again[:60]:
        try:
            inst, x2, act = gp.get_graph(xr)
        except Exception as e:
            return fail('decode-raises:%s' % type(e).__name__, 'row %s (second pass): %s: %s' % (xr, type(e).__name__, e))
        if arch_of(inst) != first[tuple(xr)]:
            return fail('second-decode-gives-another-architecture', 'row %s: first %s, then %s' % (xr, first[tuple(xr)], arch_of(inst)))
        if any(inst is h for h in handed_out) or inst.metric_values:
            return fail('returned-instance-not-pristine', 'row %s: the second decode returned %s' % (
                xr, 'an object that was handed out before' if any(inst is h for h in handed_out) else 'an instance carrying values %s stored on an earlier one' % list(inst.metric_values.values())))
    # any vector of the declared space (valid or not), with both encoders: a final feasible architecture of the model, and the
    # corrected vector decodes to the same architecture
    if want:
        for et, label in ((SelChoiceEncoderType.COMPLETE, 'complete'), (SelChoiceEncoderType.FAST, 'fast')):
            try:
                gq = gp if label == 'complete' else GraphProcessor(b.dsg, encoder_type=et)
                dvs = gq.des_vars
            except Exception as e:
                return fail('processor-raises:%s' % type(e).__name__, '%s encoder: %s: %s' % (label, type(e).__name__, e))
            for _ in range(25):
                x = [rng.randrange(dv.n_opts) if dv.is_discrete else dv.bounds[0] for dv in dvs]
                try:
                    inst, x2, act = gq.get_graph(x)
                except Exception as e:
                    return fail('decode-raises:%s' % type(e).__name__, '%s encoder, vector %s: %s: %s' % (label, x, type(e).__name__, e))
                a = arch_of(inst)
                if not inst.final or not inst.feasible:
                    return fail('decoded-instance-not-final-or-infeasible', '%s encoder, vector %s final %s feasible %s' % (label, x, inst.final, inst.feasible))
                if a not in want:
                    return fail('decoded-architecture-not-in-model', '%s encoder, vector %s -> %s: %s' % (label, x, list(x2), a))
                try:
                    inst2, x3, _ = gq.get_graph(list(x2))
                except Exception as e:
                    return fail('decode-raises:%s' % type(e).__name__, '%s encoder, corrected vector %s: %s: %s' % (label, list(x2), type(e).__name__, e))
                if [float(v) for v in x3] != [float(v) for v in x2] or arch_of(inst2) != a:
                    return fail('corrected-vector-not-a-fixed-point', '%s encoder, %s -> %s -> %s' % (label, x, list(x2), list(x3)))
    # fixing a variable restricts, freeing restores: with one discrete variable fixed every decode must still be an
    # architecture of the model (an explicit RuntimeError is tolerated: the restricted space may be empty for that vector's
    # scenario); after freeing, the rows decode to what they decoded to before
    if want and rows:
        for et, label in ((SelChoiceEncoderType.COMPLETE, 'complete'), (SelChoiceEncoderType.FAST, 'fast')):
            try:
                gq = gp if label == 'complete' else GraphProcessor(b.dsg, encoder_type=et)
                from adsg_core.graph.adsg_nodes import ConnectionChoiceNode as _CCN
                # fixing is documented as not supported for connection-choice variables
                cands = [dv for dv in gq.all_des_vars if dv.is_discrete and dv.n_opts >= 2 and not isinstance(dv.node, _CCN)]
            except Exception as e:
                return fail('processor-raises:%s' % type(e).__name__, '%s encoder: %s: %s' % (label, type(e).__name__, e))
            # a rejected fix (connection-choice variables cannot be fixed) must leave the problem as it was
            conn_dvs = [dv for dv in gq.all_des_vars if dv.is_discrete and isinstance(dv.node, _CCN)]
            if conn_dvs:
                before = ([dv.name for dv in gq.des_vars], dict(gq.fixed_values))
                dvc = rng.choice(conn_dvs)
                try:
                    gq.fix_des_var(dvc, 0)
                    rejected = False
                except RuntimeError:
                    rejected = True
                except Exception as e:
                    return fail('fix-or-free-raises:%s' % type(e).__name__, '%s encoder, connection variable %s: %s' % (label, dvc.name, e))
                after = ([dv.name for dv in gq.des_vars], dict(gq.fixed_values))
                if rejected and after != before:
                    return fail('rejected-fix-changes-the-problem', '%s encoder: fix_des_var(%s) raised, but the free variables went from %s to %s and fixed_values from %s to %s' % (
                        label, dvc.name, before[0], after[0], before[1], after[1]))
                if not rejected:
                    gq.free_des_var(dvc)
            if not cands:
                continue
            combos = [(dv, v) for dv in cands for v in range(dv.n_opts)]
            rng.shuffle(combos)
            for dvf, val in combos[:5]:
                try:
                    gq.fix_des_var(dvf, val)
                    free_vars = gq.des_vars
                    for _ in range(8):
                        x = [rng.randrange(dv.n_opts) if dv.is_discrete else dv.bounds[0] for dv in free_vars]
                        try:
                            inst, x2, act = gq.get_graph(x)
                        except RuntimeError:
                            tags.append('fixed-decode-runtime-error')
                            continue
                        except Exception as e:
                            return fail('decode-raises:%s' % type(e).__name__, '%s encoder, %s fixed to %d, vector %s: %s: %s' % (label, dvf.name, val, x, type(e).__name__, e))
                        if arch_of(inst) not in want:
                            return fail('decoded-architecture-not-in-model', '%s encoder, %s fixed to %d, vector %s -> %s' % (label, dvf.name, val, x, arch_of(inst)))
                    gq.free_des_var(dvf)
                except Exception as e:
                    return fail('fix-or-free-raises:%s' % type(e).__name__, '%s encoder, %s: %s' % (label, dvf.name, e))
            if label == 'complete':
                for xr in again[:20]:
                    try:
                        inst, x2, act = gq.get_graph(xr)
                    except Exception as e:
                        return fail('decode-raises:%s' % type(e).__name__, 'row %s after fix/free: %s: %s' % (xr, type(e).__name__, e))
                    if arch_of(inst) != first[tuple(xr)]:
                        return fail('decode-after-free-gives-another-architecture', 'row %s: first %s, after fix/free %s' % (xr, first[tuple(xr)], arch_of(inst)))
            tags.append('fix-free:' + label)
    return {'impl': {'architectures': len(want)}, 'nontrivial': len(want) >= 2, 'tags': tags, 'queries': []}
