"""C05 — decoding is a pure function of graph, fixed values and vector (operation histories vs a fresh processor)."""
from props import _ops, _proc
import dsgcase

ID = 'C05'
CLAUSES = {'fast-decode-differs-from-model', 'fixed-value-not-respected', 'corrected-vector-out-of-range', 'decode-differs-from-fresh-processor', 'returned-instance-not-pristine', 'create-flag-changes-result',
           'enumeration-differs-from-fresh-processor', 'statistics-differ-from-fresh-processor', 'operation-raises'}
RULE = ('G-sel graphs with 0-2 design-variable nodes (90% outside the known-finding classes) x {complete, complete, fast} x a random '
        'history of 6-12 operations over {decode(x, create), enumerate, statistics, fix, free, mutate the last returned instance, '
        'pickle round trip}; after every operation the output is compared with a freshly built processor carrying the same fixed '
        'values; returned instances must carry no stored values; non-trivial = history of at least 2 executed operations; '
        'distinct = graph + encoder + history; second batch: processors over graphs with 1-3 connection choices: every enumerated row decoded on one long-lived processor (in enumeration order, then shuffled) must give the architecture a fresh processor gives for that row alone, and never an instance handed out before')
TRUSTED = ['the oracle of this check is the implementation itself on a fresh processor (metamorphic); the Coq side proves the '
           'mask/cache protocol pure for any correction search that is a consistent choice function',
           'after a pickle round trip nodes are recognised by their string']
PARTIAL = ['another process with another hash seed: exercised under C18 machinery (subprocess runs), not here',
           'the hypothesis that the implementation\'s correction search is a consistent choice function is not proved']
CONN_CLAUSES = ('decode-differs-from-fresh-processor', 'second-decode-gives-another-architecture', 'returned-instance-not-pristine')
batches = _proc.add_conn_batch(_ops.make_batches('C05', 600, 6000), 'C05', n_quick=48, n_thorough=600)
run_case = _proc.wrap_run_case(_ops.make_run_case(CLAUSES), CONN_CLAUSES, focus='history')
compare = _ops.compare
shrink_candidates = _proc.wrap_shrink(_ops.shrink_candidates)
match_known = _proc.wrap_match_known(dsgcase.match_known)
