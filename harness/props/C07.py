"""C07 — activeness and imputation follow one contract on every path."""
from props import _proc
import dsgcase

ID = 'C07'
CLAUSES = {'enumerated-inactive-value-not-canonical', 'unflagged-variable-inactive-in-valid-design', 'corrected-vector-out-of-range',
           'create-flag-changes-result', 'corrected-vector-does-not-describe-the-instance',
           'decoded-vector-not-among-enumerated-rows'}
RULE = ('as C01: activeness of every decode must satisfy decode_witness(full): active => the choice / design-variable node '
        'exists in the instance, inactive => canonical value; the activeness of a valid design must be the same from '
        'get_all_discrete_x, get_graph(create=True), get_graph(create=False) and from decoding raw vectors corrected to it; a '
        'variable not flagged conditionally_active must be active in every row of the model; non-trivial = at least 2 rows')
TRUSTED = ['the encoding description E is read from GraphProcessor.all_des_vars']
PARTIAL = ['connection encoders: the direct-hit path of eager encoders is checked under C10']
batches = _proc.make_batches('C07', ['complete', 'fast'], 1200, 6000, cons_prob=0.25)
run_case = _proc.make_run_case(CLAUSES)
compare = _proc.compare
shrink_candidates = _proc.shrink_candidates
match_known = dsgcase.match_known
