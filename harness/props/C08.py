"""C08 — design space graphs behave as persistent values: every live graph object is re-observed after every derive / copy /
apply / constrain / decode / store-value operation and must report what it reported when it was created (stored values: what it
reported after the last value stored on that very object).  The history is also run through the extracted heap model
(persist_run) on interned observations."""
import json, random
from common import sx, rng_for
import dsgcase, procdrive, conndrive

ID = 'C08'
RULE = ('design spaces: G-sel (gen_sel / layered graphs with nested choices, design-variable and metric leaves) and G-conn '
        '(1-2 connection choices, grouping nodes over 2-3 connectors in 45% of the entries, members hung below permanent or '
        'conditional nodes); histories of 6-14 operations drawn from copy, apply-selection-choice (any live graph, any offered '
        'option), apply-connection-choice (a random offered edge set), constrain-choices on a copy or on a graph derived with get_for_kept_edges, add_edge on a copy, decode through a '
        'GraphProcessor of the initial graph (random vectors, create=True), store a design-variable / metric value on a live '
        'graph; after every operation all live graphs are observed -- nodes, edges, feasible, final, next choice nodes, option '
        'lists, choice constraints, the record of automatically taken single-option choices, offered connection sets and the connector degree settings per connection choice, stored values -- in an order '
        'that alternates between oldest-first and newest-first; non-trivial = a history with at least 3 live graphs of which one '
        'differs from its parent; distinct = graph + operation list')
TRUSTED = ['observations are canonical JSON strings interned to integers before they are handed to the model',
           'the connector degree settings of a graph are read through ConnectionChoiceNode._get_matrix_gen(dsg).settings']
PARTIAL = ['whether each first observation is the right one is the business of C02/C06/C11 (model of selection and connection '
           'resolution); this check decides that it never changes',
           'node attributes read directly from a shared node object (e.g. ConnectorDegreeGroupingNode.deg_list) are not per-graph '
           'observations and are not compared: the degree constraints are read through the graph (see TRUSTED)']

OPS = ['copy', 'sel', 'sel', 'sel', 'conn', 'conn', 'constrain', 'decode', 'decode', 'store', 'store', 'kept', 'grow']


def batches(tier, seed):
    rng = rng_for(seed, 'C08')
    n = 240 if tier == 'quick' else 3000
    cases = []
    for i in range(n):
        kind = i % 3
        for _try in range(60):
            if kind == 0:
                c = dsgcase.gen_layered(rng, cons_prob=0.5)
            else:
                c = dsgcase.gen_sel(rng, max_nodes=9, max_choices=3, n_incompat=rng.choice([0, 0, 1]), cons_prob=0.1)
            if not dsgcase.guards(c):
                break
        if kind == 2 or (kind == 0 and rng.random() < 0.4):
            c['cons'] = []
            c = conndrive.add_connection(rng, c, n_choices=1 if rng.random() < 0.75 else 2, group_prob=0.45)
        else:
            c = procdrive.decorate(rng, c, n_dv=(0, 2), n_metric=(0, 1))
        c['_i'] = i
        c['_nops'] = rng.randint(6, 14)
        cases.append(c)
    yield 'g-histories', cases


def observe(b, g, conn_ids, reverse=False):
    """canonical observation of one graph object"""
    from adsg_core.graph.adsg_nodes import SelectionChoiceNode, ConnectionChoiceNode
    from adsg_core.graph.graph_edges import get_edge_type
    o = {}
    ident = b.ident

    def nid(n):
        return ident.get(n, str(n))
    parts = ['feasible', 'conn', 'rest'] if not reverse else ['conn', 'rest', 'feasible']
    for part in parts:
        if part == 'feasible':
            try:
                o['feasible'] = bool(g.feasible)
            except Exception as e:
                o['feasible'] = 'exc:' + type(e).__name__
        elif part == 'conn':
            cs = {}
            for c in sorted((n for n in g.graph.nodes if isinstance(n, ConnectionChoiceNode)), key=nid):
                try:
                    sets = sorted(sorted((nid(s), nid(t)) for s, t in es) for es in c.iter_conn_edges(g))
                    entry = {'n': len(sets), 'sets': sets[:60]}
                except Exception as e:
                    entry = {'exc': type(e).__name__}
                try:
                    st = c._get_matrix_gen(g)[0].settings
                    entry['deg'] = [[repr(x) for x in st.src], [repr(x) for x in st.tgt], sorted(map(list, st.get_excluded_indices()))]
                except Exception as e:
                    entry['deg'] = 'exc:' + type(e).__name__
                cs[str(nid(c))] = entry
            o['conn'] = cs
        else:
            o['nodes'] = sorted(str(nid(n)) for n in g.graph.nodes)
            o['edges'] = sorted([str(nid(e[0])), str(nid(e[1])), str(get_edge_type(e))] for e in g.graph.edges(keys=True, data=True))
            o['final'] = bool(g.final)
            try:
                nxt = [n for n in g.get_ordered_next_choice_nodes()]
                o['next'] = [str(nid(n)) for n in nxt]
            except Exception as e:
                o['next'] = 'exc:' + type(e).__name__
            opts = {}
            for c in sorted((n for n in g.graph.nodes if isinstance(n, SelectionChoiceNode)), key=nid):
                try:
                    opts[str(nid(c))] = [str(nid(x)) for x in g.get_option_nodes(c)]
                except Exception as e:
                    opts[str(nid(c))] = 'exc:' + type(e).__name__
            o['options'] = opts
            try:
                o['cons'] = sorted([str(cc_.type), [str(nid(n)) for n in cc_.nodes]] for cc_ in g.get_choice_constraints())
            except Exception as e:
                o['cons'] = 'exc:' + type(e).__name__
            try:
                o['taken'] = [[str(nid(cn)), str(nid(on)) if on is not None else None] for cn, on in g.get_taken_single_selection_choices()]
            except Exception as e:
                o['taken'] = 'exc:' + type(e).__name__
            o['dv'] = sorted([str(nid(k)), repr(float(v))] for k, v in g.des_var_values.items())
            o['metric'] = sorted([str(nid(k)), repr(float(v))] for k, v in g.metric_values.items())
    return json.dumps(o, sort_keys=True)


def run_case(case):
    from adsg_core.graph.adsg_nodes import SelectionChoiceNode, ConnectionChoiceNode, DesignVariableNode, MetricNode
    from adsg_core.graph.choice_constraints import ChoiceConstraintType as T
    c = {k: v for k, v in case.items() if not k.startswith('_')}
    rng = random.Random(case.get('_i', 0) * 7919 + 13)
    tags = ['kind:' + ('conn' if c.get('conn') else 'sel')]
    try:
        b = dsgcase.build(c)
    except Exception as e:
        return {'skip': 'build:%s' % type(e).__name__, 'tags': tags}
    conn_ids = {cc['id'] for cc in c.get('conn', [])}
    live = [b.dsg]
    parent = [None]
    expected = [observe(b, b.dsg, conn_ids)]
    first = list(expected)
    ops_done = []
    model_ops = []
    intern = {}

    def iid(s):
        return intern.setdefault(s, len(intern) + 1)
    h0 = [iid(expected[0])]
    proc = [None]
    ops = case.get('_ops')
    n_ops = case.get('_nops', 8)
    step = 0
    while step < (len(ops) if ops is not None else n_ops):
        if ops is not None:
            op = list(ops[step])
        else:
            op = [rng.choice(OPS), rng.randrange(len(live)), rng.randrange(1 << 16)]
        step += 1
        kind, i, r = op[0], op[1] % len(live), op[2]
        g = live[i]
        new, upd = None, False
        try:
            if kind == 'copy':
                new = g.copy()
            elif kind == 'sel':
                nxt = [n for n in g.get_ordered_next_choice_nodes() if isinstance(n, SelectionChoiceNode) and n in g.graph.nodes]
                if not nxt:
                    continue
                ch = nxt[0]
                opts = g.get_option_nodes(ch)
                if not opts:
                    continue
                new = g.get_for_apply_selection_choice(ch, opts[r % len(opts)])
            elif kind == 'conn':
                nxt = [n for n in g.get_ordered_next_choice_nodes() if n in g.graph.nodes]
                if not nxt or not isinstance(nxt[0], ConnectionChoiceNode):
                    continue
                ch = nxt[0]
                sets = list(ch.iter_conn_edges(g))
                if not sets:
                    continue
                new = g.get_for_apply_connection_choice(ch, sets[r % len(sets)])
            elif kind == 'constrain':
                sels = sorted((n for n in g.graph.nodes if isinstance(n, SelectionChoiceNode) and g.is_constrained_choice(n) is None), key=lambda n: b.ident[n])
                if len(sels) < 2 or g.final:
                    continue
                pick = [sels[r % len(sels)], sels[(r // 7 + 1) % len(sels)]]
                if pick[0] is pick[1]:
                    continue
                gc = g.copy()
                try:
                    new = gc.constrain_choices([T.LINKED, T.PERMUTATION, T.UNORDERED, T.UNORDERED_NOREPL][r % 4], pick)
                except Exception as e:
                    # a constraint that cannot be made (unequal option counts, an infeasible initial graph, ...) is no operation
                    tags.append('constrain-raises:%s' % type(e).__name__)
                    continue
            elif kind == 'kept':
                # derive through get_for_kept_edges (all edges kept), then constrain choices on the derived graph
                new = g.get_for_kept_edges(list(g.graph.edges(keys=True, data=True)))
                sels = sorted((n for n in new.graph.nodes if isinstance(n, SelectionChoiceNode) and new.is_constrained_choice(n) is None), key=lambda n: b.ident[n])
                if len(sels) >= 2 and not new.final:
                    pick = [sels[r % len(sels)], sels[(r // 7 + 1) % len(sels)]]
                    if pick[0] is not pick[1]:
                        try:
                            new = new.constrain_choices([T.LINKED, T.PERMUTATION, T.UNORDERED, T.UNORDERED_NOREPL][r % 4], pick)
                        except Exception as e:
                            tags.append('constrain-raises:%s' % type(e).__name__)
            elif kind == 'grow':
                # the in-place builder API used on a copy: the copy grows, the graph it was copied from does not
                from adsg_core.graph.adsg_nodes import NamedNode
                hosts = sorted((n for n in g.graph.nodes if type(n) is NamedNode and n in b.ident), key=lambda n: b.ident[n])
                if not hosts:
                    continue
                new = g.copy()
                new.add_edge(hosts[r % len(hosts)], NamedNode('GROW%d' % (r % 1000)))
            elif kind == 'decode':
                if proc[0] is None:
                    from adsg_core.optimization.graph_processor import GraphProcessor
                    try:
                        proc[0] = GraphProcessor(b.dsg)
                        proc[0].des_vars        # the encoding is built lazily
                    except Exception as e:
                        # a processor that cannot be built is the business of C01/C11/C12 (known findings K5, K26)
                        proc[0] = 'failed'
                        tags.append('processor-construction:%s' % type(e).__name__)
                if proc[0] == 'failed':
                    continue
                gp = proc[0]
                rr = random.Random(r)
                x = []
                for dv in gp.des_vars:
                    x.append(rr.randrange(dv.n_opts) if dv.is_discrete else dv.bounds[0] + rr.random() * (dv.bounds[1] - dv.bounds[0]))
                try:
                    new = gp.get_graph(x, create=True)[0]
                except RuntimeError:
                    continue
                except Exception as e:
                    # a decode that fails is the business of C01/C11 (e.g. the known finding K26); here it is no operation
                    tags.append('decode-raises:%s' % type(e).__name__)
                    continue
                if new is None:
                    continue
            elif kind == 'store':
                dvs = sorted((n for n in g.graph.nodes if isinstance(n, DesignVariableNode)), key=lambda n: b.ident[n])
                mts = sorted((n for n in g.graph.nodes if isinstance(n, MetricNode)), key=lambda n: b.ident[n])
                if dvs and (r % 2 == 0 or not mts):
                    nd = dvs[r % len(dvs)]
                    val = (r // 3) % max(1, len(nd.options)) if nd.is_discrete else nd.bounds[0] + ((r % 97) / 97.0) * (nd.bounds[1] - nd.bounds[0])
                    g.set_des_var_value(nd, val)
                elif mts:
                    g.set_metric_value(mts[r % len(mts)], float(r % 50) / 4.0)
                else:
                    continue
                upd = True
        except Exception as e:
            import traceback
            return {'fail': {'clause': 'operation-raises:%s' % type(e).__name__, 'detail': 'op %s on object %d after %s: %s | %s' % (kind, i, ops_done, e, traceback.format_exc()[-400:]),
                             'ops': ops_done + [[kind, i, r]]}, 'tags': tags}
        ops_done.append([kind, i, r])
        tags.append('op:' + kind)
        if kind == 'kept':
            # the graph made from kept edges is not used further (it keeps the parent's influence matrix while nodes
            # without a kept edge are gone): what counts is that its parent and all other graphs are unchanged
            pass
        elif upd:
            expected[i] = observe(b, g, conn_ids)
            model_ops.append([True, [i, iid(expected[i])]])
        else:
            live.append(new)
            parent.append(i)
            ob = observe(b, new, conn_ids)
            expected.append(ob)
            first.append(ob)
            model_ops.append([False, [i, iid(ob)]])
        # re-observe every live object, alternating the order
        order = list(range(len(live)))
        rev = (len(ops_done) % 2) == 1
        if rev:
            order.reverse()
        for k in order:
            ob = observe(b, live[k], conn_ids, reverse=rev)
            if ob != expected[k]:
                d1, d2 = json.loads(expected[k]), json.loads(ob)
                keys = [kk for kk in d1 if d1[kk] != d2.get(kk)]
                det = {kk: [str(d1[kk])[:300], str(d2.get(kk))[:300]] for kk in keys[:3]}
                return {'fail': {'clause': 'existing-graph-changed:%s' % '+'.join(sorted(keys)),
                                 'detail': 'object %d (parent %s) after operations %s: %s' % (k, parent[k], ops_done, det), 'ops': ops_done},
                        'tags': tags}
    if not ops_done:
        return {'skip': 'no-operation-applicable', 'tags': tags}
    nt = len(live) >= 3 and any(first[k] != first[parent[k]] for k in range(1, len(live)))
    tags.append('live=%d' % min(len(live), 9))
    return {'queries': [sx(['persist_run', h0, model_ops])], 'impl': {'final': [iid(e) for e in expected], 'ops': ops_done},
            'nontrivial': nt, 'tags': tags, 'ops': ops_done}


def compare(case, r, ms):
    if list(ms[0]) != list(r['impl']['final']):
        return {'clause': 'heap-differs-from-model', 'detail': 'model %s implementation %s' % (ms[0], r['impl']['final'])}
    return None


def match_known(case, fail, known):
    return None


def shrink_candidates(case):
    ops = case.get('_ops')
    if ops:
        for k in range(len(ops)):
            yield dict(case, _ops=ops[:k] + ops[k + 1:])
    for c in dsgcase.shrink_graph(case):
        yield c
