"""C10 — every registered connection encoder x imputer is a faithful, total, onto coding (decode tables vs coding_verdict)."""
import itertools
from common import sx, rng_for
import matcase

ID = 'C10'
RULE = ('all factories of EAGER_ENCODERS, LAZY_ENCODERS, EAGER_ENUM_ENCODERS, PATTERN_ENCODERS x default and alternative '
        'imputers (the constraint-violation imputers, whose contract is to return an invalid marker, are left out) x generated '
        'connector settings (random G-settings up to 2x3 and a sub-generator per pattern encoder family) x every existence '
        'pattern with at least one valid matrix: the decode table over the declared space (<= 300 vectors, else 200 samples plus '
        'every listed design vector) extended with out-of-range and over-long vectors is submitted to the extracted '
        'coding_verdict (valid matrix, range, idempotent, onto, injective); get_all_design_vectors must equal the corrected '
        'vectors with their activeness; every declared variable must have at least 2 used values over the patterns; '
        'non-trivial = a pattern with at least 2 matrices and at least one variable; distinct = settings + encoder + imputer')
TRUSTED = ['encoder factories are taken from encoder_registry; managers are built directly (AssignmentManager / '
           'LazyAssignmentManager), bypassing the timed selector (that is C12)']
PARTIAL = ['onto-ness is decided per instance by the checker on the observed table (it is a theorem about that table), not proved '
           'once and for all for each encoder family',
           'when the declared space is sampled the table-level onto check relies on get_all_design_vectors being decoded too']
VERDICT = {1: 'decoded-matrix-invalid', 2: 'corrected-vector-out-of-range', 3: 'decode-not-idempotent',
           4: 'valid-matrix-not-reachable', 5: 'equal-corrected-vectors-different-matrices'}


def _registry():
    from adsg_core.optimization.assign_enc import encoder_registry as R
    eager_imps = [('first', R.EAGER_IMPUTERS[0]), ('automod', R.EAGER_IMPUTERS[1]), ('automod-rev', R.EAGER_IMPUTERS[2]),
                  ('delta', R.EAGER_IMPUTERS[3]), ('closest', R.EAGER_IMPUTERS[4]), ('closest-manh', R.EAGER_IMPUTERS[5])]
    lazy_imps = [('first', R.LAZY_IMPUTERS[0]), ('delta', R.LAZY_IMPUTERS[1]), ('closest', R.LAZY_IMPUTERS[2]),
                 ('closest-manh', R.LAZY_IMPUTERS[3])]
    fam = []
    for i, f in enumerate(R.EAGER_ENCODERS):
        fam.append(('eager%d' % i, f, eager_imps, 'eager'))
    for i, f in enumerate(R.LAZY_ENCODERS):
        fam.append(('lazy%d' % i, f, lazy_imps, 'lazy'))
    for i, f in enumerate(R.EAGER_ENUM_ENCODERS):
        fam.append(('enum%d' % i, f, lazy_imps, 'lazy'))
    for i, f in enumerate(R.PATTERN_ENCODERS):
        fam.append(('pattern%d' % i, f, lazy_imps, 'lazy'))
    return fam


PATTERN_CLASS = {'combining': 'CombiningPatternEncoder', 'assigning': 'AssigningPatternEncoder',
                 'partitioning': 'PartitioningPatternEncoder', 'connecting': 'ConnectingPatternEncoder',
                 'permuting': 'PermutingPatternEncoder', 'unordered': 'UnorderedCombiningPatternEncoder'}
N_FAMILIES = 40   # upper bound used to spread cases; the real number is read at run time


def gen_pattern_settings(rng):
    """settings that match one of the pattern encoders, possibly with absent nodes"""
    kind = rng.choice(['combining', 'collapsed', 'assigning', 'partitioning', 'connecting', 'permuting', 'unordered'])
    excl = []
    if kind == 'combining':
        src = [['list', [1], True]]
        tgt = [['list', [0, 1], True] for _ in range(rng.randint(2, 4))]
    elif kind == 'collapsed':
        src = [rng.choice([['min', 0, True], ['min', 1, True], ['list', [1, 2], True], ['list', [0, 1, 2], True]])]
        tgt = [rng.choice([['min', 0, True], ['min', 1, True], ['list', [1, 2, 3], True]])]
    elif kind == 'assigning':
        rep = rng.random() < 0.5
        k = rng.choice([0, 0, 1])
        src = [['min', k, rep] for _ in range(rng.randint(1, 2))]
        m = rng.choice([0, 1])
        tgt = [['min', m, rep] for _ in range(rng.randint(1, 3))]
    elif kind == 'partitioning':
        k = rng.choice([0, 0, 1])
        src = [['min', k, True] for _ in range(rng.randint(1, 3))]
        t = rng.choice([[1], [0, 1]])
        tgt = [['list', list(t), True] for _ in range(rng.randint(1, 3))]
        if rng.random() < 0.3:
            tgt = [['list', list(rng.choice([[1], [0, 1]])), True] for _ in tgt]      # mixed kinds of targets
    elif kind == 'connecting':
        n = rng.randint(2, 3)
        src = [['min', 0, False] for _ in range(n)]
        tgt = [['min', 0, False] for _ in range(n)]
        excl = [[i, i] for i in range(n)]
        r_ = rng.random()
        if r_ < 0.4:
            excl += [[i, j] for i in range(n) for j in range(n) if i > j]
        elif r_ < 0.7:
            excl += [[i, j] for i in range(n) for j in range(n) if i > j and rng.random() < 0.5]     # part of the lower triangle
    elif kind == 'permuting':
        n = rng.randint(2, 3)
        src = [['list', [1], True] for _ in range(n)]
        tgt = [['list', [1], True] for _ in range(n)]
    else:
        n = rng.randint(2, 4)
        if rng.random() < 0.5:
            src = [['list', [rng.randint(1, n)], True]]
            tgt = [['list', [0, 1], True] for _ in range(n)]
        else:
            src = [['list', [rng.randint(1, 3)], True]]
            tgt = [['min', 0, True] for _ in range(n)]
    pats = [{'src': [None] * len(src), 'tgt': [None] * len(tgt)}]
    if rng.random() < 0.4:
        p = {'src': [None] * len(src), 'tgt': [[0] if rng.random() < 0.4 else None for _ in tgt]}
        if sx(matcase.sx_pattern(p)) != sx(matcase.sx_pattern(pats[0])):
            pats.append(p)
    if rng.random() < 0.2:
        j = rng.randrange(len(tgt))
        tgt[j] = list(rng.choice(matcase.ALPHABET))       # perturb one spec: the encoder must reject or still be exact
    return {'src': src, 'tgt': tgt, 'excl': excl, 'par': None, 'patterns': pats, 'family': kind}


def batches(tier, seed):
    rng = rng_for(seed, 'C10')
    n = 420 if tier == 'quick' else 3000
    cases = []
    for i in range(n):
        r_ = rng.random()
        # a seventh of the cases has three sources (amount-first encoders group the matrices by connection amounts, and the
        # groups only differ in size with enough nodes)
        c = (matcase.gen(rng, max_src=3, max_tgt=2, overrides=False) if r_ < 0.14 else
             matcase.gen(rng, max_src=2, max_tgt=3, overrides=False) if r_ < 0.55 else gen_pattern_settings(rng))
        c['_fam'] = rng.randrange(N_FAMILIES)
        # settings made for a pattern meet the pattern encoder written for it in half of the cases (the selector tries the
        # pattern encoders first, so this pairing is the one users get)
        if c.get('family') in PATTERN_CLASS and rng.random() < 0.5:
            c['_fam_class'] = PATTERN_CLASS[c['family']]
        c['_imp'] = rng.randrange(6)
        c['_i'] = i
        cases.append(c)
    yield 'g-settings-x-encoders', cases
    # matrix counts that are exact powers (4, 8, 9, 16, 27, 81: k open-ended sources, m targets of degree 1 give k^m) with the
    # enumeration encoders, whose variable counts are digit counts of the last matrix index
    pw = []
    shapes = [(2, 2), (2, 3), (3, 2), (3, 3), (4, 2), (3, 4)] if tier != 'quick' else [(2, 2), (2, 3), (3, 2), (3, 3), (3, 4)]
    for j, (ns, nt) in enumerate(shapes):
        for e in range(4):
            pw.append({'src': [['min', 0, True]] * ns, 'tgt': [['list', [1], True]] * nt, 'excl': [], 'par': None,
                       'patterns': [{'src': [None] * ns, 'tgt': [None] * nt}], '_fam_name': 'enum%d' % e,
                       '_fam': 0, '_imp': (j + e) % 4, '_i': 5000 + 4 * j + e})
    yield 'power-counts-x-enumeration-encoders', pw
    # the amount-first encoders (connection amounts first, then a pattern index within the group): groups of unequal size
    # need three nodes on a side
    af = []
    for i in range(30 if tier == 'quick' else 400):
        c = matcase.gen(rng, max_src=3, max_tgt=3, overrides=False)
        while len(c['src']) < 3 and len(c['tgt']) < 3:
            c = matcase.gen(rng, max_src=3, max_tgt=3, overrides=False)
        c.update({'_fam_name': 'lazy%d' % (1 + i % 2), '_fam': 0, '_imp': rng.randrange(4), '_i': 7000 + i})
        af.append(c)
    yield 'three-nodes-x-amount-first-encoders', af


def _mk_manager(settings, fam, imp):
    from adsg_core.optimization.assign_enc.lazy_encoding import LazyEncoder
    from adsg_core.optimization.assign_enc.assignment_manager import AssignmentManager, LazyAssignmentManager
    enc = fam[1](imp[1]())
    if isinstance(enc, LazyEncoder):
        return LazyAssignmentManager(settings, enc)
    return AssignmentManager(settings, enc, cache=False)


def run_case(case):
    import numpy as np
    from adsg_core.optimization.assign_enc.patterns.encoder import InvalidPatternEncoder
    c = {k: v for k, v in case.items() if not k.startswith('_') and k != 'family'}
    rng = rng_for(case.get('_i', 0), 'C10case')
    fams = _registry()
    fam = fams[case['_fam'] % len(fams)]
    if case.get('_fam_name'):
        fam = [f_ for f_ in fams if f_[0] == case['_fam_name']][0]
    if case.get('_fam_class'):
        for f_ in fams:
            if f_[0].startswith('pattern') and type(f_[1](f_[2][0][1]())).__name__ == case['_fam_class']:
                fam = f_
                break
    imp = fam[2][case['_imp'] % len(fam[2])]
    tags = ['enc:' + fam[0], 'imp:' + imp[0], 'family:' + case.get('family', 'random')]
    settings, pats = matcase.build(c)
    try:
        mgr = _mk_manager(settings, fam, imp)
    except InvalidPatternEncoder:
        return {'skip': 'invalid-pattern-encoder', 'tags': tags}
    except Exception as e:
        return {'fail': {'clause': 'manager-construction-raises:%s' % type(e).__name__, 'detail': '%s %s: %s: %s' % (fam[0], imp[0], type(e).__name__, e)}, 'tags': tags}
    return check_manager(mgr, c, pats, rng, tags, fam[0], imp[0], fam[3], converse=bool(case.get('_converse')))


def check_manager(mgr, c, pats, rng, tags, enc_label, imp_label, kind, converse=False):
    """decode tables of one manager for every pattern -> the run_case result (queries for coding_verdict + impl facts)"""
    import numpy as np
    fam = (enc_label, None, None, kind)
    imp = (imp_label,)
    dvs = mgr.design_vars
    nopts = [int(dv.n_opts) for dv in dvs]
    ssx = matcase.sx_settings(c)
    try:
        all_dv = mgr.get_all_design_vectors()
    except Exception as e:
        return {'fail': {'clause': 'get-all-design-vectors-raises:%s' % type(e).__name__, 'detail': '%s %s: %s: %s' % (fam[0], imp[0], type(e).__name__, e)}, 'tags': tags}
    agg = mgr.matrix_gen.get_agg_matrix(cache=False)
    queries, impl = [], []
    used = [set() for _ in nopts]
    nt = False
    for k, ex in enumerate(pats):
        n_mat = int(agg[ex].shape[0]) if ex in agg else 0
        listed = all_dv.get(ex)
        if listed is not None:
            for row in np.array(listed).reshape(-1, len(nopts)).tolist() if len(nopts) else []:
                for j, v in enumerate(row):
                    if v != -1:
                        used[j].add(int(v))
        if n_mat == 0:
            tags.append('pattern-empty')
            continue
        size = 1
        for n_ in nopts:
            size *= n_
        if size <= 300:
            vecs = [list(v) for v in itertools.product(*[range(n_) for n_ in nopts])]
            exhaustive = True
        else:
            vecs = [[rng.randrange(n_) for n_ in nopts] for _ in range(200)]
            exhaustive = False
        listed_rows = [] if listed is None else [[int(v) for v in r] for r in np.array(listed).reshape(-1, len(nopts)).tolist()] if len(nopts) else [[]]
        vecs += [[max(v, 0) for v in r] for r in listed_rows]
        # malformed stream: out-of-range and over-long vectors
        for _ in range(4):
            v = [rng.choice([-1, -3, n_, n_ + 2, rng.randrange(n_)]) for n_ in nopts]
            vecs.append(v)
            vecs.append(v + [rng.randint(0, 3)])
        table, seen_in = [], set()
        outs = set()
        todo = list(vecs)
        while todo:
            x = todo.pop()
            if tuple(x) in seen_in:
                continue
            seen_in.add(tuple(x))
            try:
                x2, act, M = mgr.get_matrix(list(x), existence=ex)
            except Exception as e:
                return {'fail': {'clause': 'decode-raises:%s' % type(e).__name__, 'detail': '%s %s pattern %d x=%s: %s: %s' % (fam[0], imp[0], k, x, type(e).__name__, e)}, 'tags': tags}
            x2 = [int(v) for v in x2]
            act = [bool(a) for a in act]
            M = [[int(v) for v in row] for row in np.array(M).tolist()]
            if len(x2) != len(x):
                return {'fail': {'clause': 'corrected-vector-length-differs', 'detail': 'x=%s x\'=%s' % (x, x2)}, 'tags': tags}
            # only the declared part is the coding; extra entries must come back inactive
            nd = len(nopts)
            if any(a for a in act[nd:]) or any(v != 0 for v in x2[nd:]):
                return {'fail': {'clause': 'extra-entries-not-inactive', 'detail': 'x=%s x\'=%s act=%s' % (x, x2, act)}, 'tags': tags}
            if len(x) == nd:
                table.append([list(x), x2, act, M])
                outs.add((tuple(x2), tuple(act)))
                if tuple(x2) not in seen_in:
                    todo.append(x2)
        # known finding K16 (F7): an eager encoder reports a stored vector all-active on a direct hit but with its inactive
        # markers when the same vector is reached through imputation -- same vector, same matrix, different activeness
        by_in = {tuple(t[0]): t for t in table}
        for t in table:
            t2 = by_in.get(tuple(t[1]))
            if t2 is not None and t2[1] == t[1] and t2[3] == t[3] and t2[2] != t[2]:
                return {'fail': {'clause': 'activeness-depends-on-decode-path', 'detail': '%s %s pattern %d: x=%s -> %s act %s, but decoding %s gives act %s' % (fam[0], imp[0], k, t[0], t[1], t[2], t[1], t2[2])}, 'tags': tags + ['kind:' + fam[3]]}
        # (converse=True, used by C03) C03's last clause at the level of one connection choice: two different corrected vectors
        # never denote the same matrix
        # (checked on fixed points only: out == in, so that the activeness is the direct-hit one)
        fixed_pts = {}
        for t in (table if converse else []):
            if t[0] == t[1]:
                key = sx(t[3])
                other = fixed_pts.setdefault(key, t)
                if other[1] != t[1]:
                    return {'fail': {'clause': 'two-corrected-vectors-one-matrix', 'detail': '%s %s pattern %d: %s and %s are both fixed points and decode to %s' % (
                        fam[0], imp[0], k, other[1], t[1], t[3])}, 'tags': tags + ['kind:' + fam[3]]}
        queries.append(sx(['coding_verdict', ssx, matcase.sx_pattern(c['patterns'][k]), nopts, table]))
        lst = None if listed is None else {(tuple(max(v, 0) for v in r), tuple(v != -1 for v in r)) for r in listed_rows}
        impl.append({'pattern': k, 'n_mat': n_mat, 'table_size': len(table), 'exhaustive': exhaustive,
                     'listed_ok': None if lst is None else (lst == outs if exhaustive else lst <= outs),
                     'listed_diff': None if lst is None else [sorted(lst - outs)[:3], sorted(o for o in outs - lst if exhaustive or o[0] in {l[0] for l in lst})[:3]]})
        nt = nt or (n_mat >= 2 and len(nopts) >= 1)
        tags.append('table=%s' % ('exhaustive' if exhaustive else 'sampled'))
    two_values = [len(u) >= 2 for u in used]
    return {'queries': queries, 'impl': {'patterns': impl, 'nopts': nopts, 'two_values': two_values, 'enc': fam[0], 'imp': imp[0]},
            'nontrivial': nt, 'tags': tags}


def compare(case, r, ms):
    im = r['impl']
    for p, v in zip(im['patterns'], ms):
        if v != 0:
            return {'clause': VERDICT.get(v, 'verdict-%s' % v), 'detail': '%s %s pattern %d (%d matrices, table %d rows)' % (im['enc'], im['imp'], p['pattern'], p['n_mat'], p['table_size'])}
        if p['listed_ok'] is False:
            only_act = {a[0] for a in p['listed_diff'][0]} == {a[0] for a in p['listed_diff'][1]} if p['listed_diff'][1] else False
            if only_act:
                return {'clause': 'activeness-depends-on-decode-path', 'detail': '%s %s pattern %d: get_all_design_vectors lists %s, decoding the same vector reports %s' % (im['enc'], im['imp'], p['pattern'], p['listed_diff'][0], p['listed_diff'][1])}
            return {'clause': 'listed-design-vectors-differ-from-corrected-vectors', 'detail': '%s %s pattern %d: listed-not-decoded %s decoded-not-listed %s' % (im['enc'], im['imp'], p['pattern'], p['listed_diff'][0], p['listed_diff'][1])}
    if im['patterns'] and not all(im['two_values']):
        return {'clause': 'declared-variable-with-fewer-than-two-used-values', 'detail': '%s %s nopts %s used>=2: %s' % (im['enc'], im['imp'], im['nopts'], im['two_values'])}
    return None


def match_known(case, fail, known):
    for k in known:
        if k.get('id') == 'K16' and fail.get('clause') == 'activeness-depends-on-decode-path' and 'eager' in (fail.get('detail') or '').split(' ')[0]:
            return k
        if k.get('id') == 'K6' and fail.get('clause') == 'activeness-depends-on-decode-path' and 'enum' in (fail.get('detail') or '').split(' ')[0]:
            return k
        if k.get('id') == 'K17' and fail.get('clause') == 'declared-variable-with-fewer-than-two-used-values':
            return k
        if k.get('id') == 'K18' and fail.get('clause') == 'decode-raises:ValueError' and 'closest' in (fail.get('detail') or '') and 'broadcast' in (fail.get('detail') or ''):
            return k
        if k.get('id') == 'K5' and (fail.get('clause') or '').startswith('manager-construction-raises:RuntimeError') and 'at least 2 options' in (fail.get('detail') or ''):
            return k
        if k.get('id') == 'K21' and fail.get('clause') == 'decoded-matrix-invalid' and ' delta ' in (fail.get('detail') or '') and 'eager' in (fail.get('detail') or '').split(' ')[0]:
            return k
        if k.get('id') == 'K22' and fail.get('clause') == 'decode-raises:RuntimeError' and 'should never (automatically) impute' in (fail.get('detail') or ''):
            return k
        if k.get('id') == 'K19' and (fail.get('clause') or '').startswith('get-all-design-vectors-raises:TypeError'):
            return k
    return None


def shrink_candidates(case):
    for c in matcase.shrink({k: v for k, v in case.items() if not k.startswith('_') and k != 'family'}):
        c = dict(c)
        for k in ('_fam', '_imp', '_i', 'family', '_fam_class'):
            if k in case:
                c[k] = case[k]
        yield c
