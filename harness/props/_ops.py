"""shared scaffolding of the history properties C05 and C15"""
from common import rng_for
import dsgcase, procdrive, opsdrive


def make_batches(pid, n_quick, n_thorough, n_ops=(6, 12)):
    def batches(tier, seed):
        rng = rng_for(seed, pid)
        n = n_quick if tier == 'quick' else n_thorough
        cases = []
        for i in range(n):
            want_clean = rng.random() < 0.9
            fixsel = (i % 8) == 5        # FAST encoder, a choice constraint, a selection variable fixed from the start
            for _try in range(60):
                c = (dsgcase.gen_flat_cons(rng) if fixsel and (i % 16) == 5 else
                     dsgcase.gen_layered(rng, cons_prob=1.0 if fixsel else 0.4) if (i % 3) == 2 else
                     dsgcase.gen_sel(rng, max_nodes=10, max_choices=3, cons_prob=1.0 if fixsel else 0.1))
                if (not want_clean or not dsgcase.guards(c)) and len(c['sel']) >= 1:
                    break
            c = procdrive.decorate(rng, c, n_dv=(0, 2))
            c['_i'] = i
            c['_kind'] = ['complete', 'complete', 'fast', 'complete'][i % 4]
            c['_nops'] = rng.randint(*n_ops)
            if fixsel:
                c['_kind'], c['_profile'] = 'fast', 'fixsel'
            cases.append(c)
        yield 'g-ops', cases
    return batches


def make_run_case(clauses):
    def run_case(case):
        c = {k: v for k, v in case.items() if not k.startswith('_')}
        r = opsdrive.run(c, case.get('_kind', 'complete'), seed=case.get('_i', 0), n_ops=case.get('_nops', 8),
                         ops=case.get('_ops'), profile=case.get('_profile'))
        if r.get('skip'):
            return r
        r.setdefault('tags', []).append('guard:%s' % ('+'.join(sorted(dsgcase.guards(c))) or 'none'))
        mine = [f for f in r.get('fails', []) if f['clause'].split(':')[0] in clauses or f['clause'] == 'model-error']
        for f in r.get('fails', []):
            if f not in mine:
                r['tags'].append('other-property-clause:' + f['clause'])
        r['queries'] = []
        if mine:
            r['fail'] = dict(mine[0], all_clauses=[f['clause'] for f in mine], ops=r.get('ops'))
        return r
    return run_case


def compare(case, r, ms):
    return None


def shrink_candidates(case):
    # shorter histories first (the recorded op list is replayed verbatim), then smaller graphs
    ops = case.get('_ops')
    if ops:
        for k in range(len(ops)):
            yield dict(case, _ops=ops[:k] + ops[k + 1:])
    for c in dsgcase.shrink_graph(case):
        yield c
