"""C12 — automatic encoder selection always succeeds, degenerate settings get no variables, and the disk caches are
transparent.  Four kinds of case:
  select  the real EncoderSelector on generated settings under a deterministic schedule of time-outs (run_timeout is replaced
          by a function that raises TimeoutError for the scheduled calls), the scores of every constructed candidate are
          logged and the extracted `select` must name the same stage / family / candidate; the returned manager must be a
          working coding (C10's coding_verdict) and have no variables when no pattern has more than one matrix;
  tiny    the same with the real run_timeout and a tiny encoding_timeout (real threads; property-level checks only);
  best    EncoderSelector._get_best on synthetic score tables against the extracted get_best;
  cache   cold / warm / other-process / no-cache results of the matrix cache and the selection cache for one settings object
          and for pairs of settings (equal keys <-> extracted key_eq; a shared key with different matrices is the violation).
"""
import os, sys, json, math, random, shutil, subprocess, tempfile
from fractions import Fraction
from common import sx, rng_for
import matcase
from props import C10

ID = 'C12'
RULE = ('select: settings = matcase.gen (<=2x3, existence patterns) or a pattern-encoder family; schedule = per call of run_timeout '
        '(matrix counting, each candidate construction, each distance-correlation) an independent time-out with probability drawn '
        'from {0,0,.15,.5,.9,1}, per encoder family optionally overridden by 0, .5 or 1; observables: stage + family + index of the returned manager, set of families constructed, exception '
        'type; the extracted select() is run on the logged scores (exact rationals of the doubles); cases with a non-finite score or a '
        'mean within 1e-7 of a rounding boundary are compared at property level only.  Property level: no exception when some '
        'pattern has a valid matrix; the returned manager passes coding_verdict for every pattern; no variables when every pattern has '
        '<= 1 matrix.  cache: each settings object is asked cold, warm, with cache=False, after reset and after another process '
        '(other hash seed) wrote the entries; every answer is compared with a fresh computation (matrices as sets per pattern, also '
        'against the extracted enum_M; managers read from the selection cache must pass coding_verdict for the settings asked); pairs = a settings object and a '
        'one-field mutation or a semantics-preserving rewrite of it.  non-trivial = a selection that constructed >= 2 candidates, a '
        'cache case with >= 2 matrices, a pair that differs; distinct = case content')
TRUSTED = ['the harness replaces selector.run_timeout by a scheduler that raises TimeoutError without starting the function (select '
           'mode); the real thread-based run_timeout is exercised in tiny mode and by C19',
           'scores are read through EncoderSelector._get_imp_ratio/_get_dist_corr overrides and encoder.get_information_index()',
           'md5 and Python\'s tuple hash are taken to be collision free: the model key is the structured value they digest',
           'encoder factories are tagged with their family by wrapping the registry lists inside the selector module']
PARTIAL = ['library versions of the numeric stack: only the installed numpy/pandas/numba are exercised (the pandas read-only array '
           'defect F1 was found and fixed this way); other versions are not reachable offline',
           'partial writes / crashes while a cache file is being written are not modelled (the store model is atomic)',
           'the early stop after a perfect encoder and the distance-correlation budget are observed, not modelled: the model takes '
           'the candidates that were constructed as its input']

STAGES = ['0_pattern', '1_init_all', '1_init_lazy', '2_init_inf_idx', '3_all', '4_all_enum', '4_all_inf_idx']


# ------------------------------------------------------------------ generators
def gen_best_table(rng):
    n = rng.choice([1, 1, 2, 3, 4, 6])
    imps = [1, 1, 2, 4, 5, 10, 20, 40, 80, 100, 200, 400]
    dcs = [None, None, -0.25, 0.0, 0.2, 0.35, 0.5, 0.7, 0.9, 1.0]
    infs = [0.0, 0.0, 0.1, 0.35, 0.5, 0.7, 1.0]
    rows = [[float(rng.choice(imps)), rng.choice(infs), rng.choice(dcs)] for _ in range(n)]
    if rng.random() < 0.25:
        for r in rows:
            r[2] = None
    return {'rows': rows, 'knows': rng.random() < 0.6, 'np': rng.choice([None, None, 4, 5, 1, 9]), 'by_inf': rng.random() < 0.4}


def mutate_settings(rng, c):
    """-> (c2, kind); kind 'same' = a rewrite that must not change the meaning, 'diff' = a one-field change"""
    c2 = json.loads(json.dumps(c))
    choices = ['perm-excl', 'perm-conns', 'none-vs-empty', 'node', 'rep', 'excl', 'par', 'par-default', 'par-default', 'pattern',
               'pattern-order', 'swap-side']
    k = rng.choice(choices)
    if k == 'par-default' and c2['par'] is None:
        # the explicit value that equals the limit derived when none is given: not the same settings (with existence patterns the
        # derived limit follows the nodes that are present, an explicit one does not)
        finite = [max(spec[1]) for side in ('src', 'tgt') for spec in c2[side] if spec[0] == 'list' and spec[1]]
        c2['par'] = max([2] + finite)
        return c2, 'diff'
    if k == 'perm-excl' and len(c2['excl']) >= 2:
        c2['excl'] = list(reversed(c2['excl']))
        return c2, 'same'
    if k == 'perm-conns':
        for side in ('src', 'tgt'):
            for spec in c2[side]:
                if spec[0] == 'list' and len(spec[1]) >= 2:
                    spec[1] = list(reversed(spec[1]))
                    return c2, 'same'
    if k == 'node':
        side = rng.choice(['src', 'tgt'])
        i = rng.randrange(len(c2[side]))
        new = list(rng.choice(matcase.ALPHABET))
        if [new[0], new[1], bool(new[2])] != [c2[side][i][0], c2[side][i][1], bool(c2[side][i][2])]:
            c2[side][i] = new
            return c2, 'diff'
    if k == 'rep':
        side = rng.choice(['src', 'tgt'])
        i = rng.randrange(len(c2[side]))
        c2[side][i][2] = not c2[side][i][2]
        return c2, 'diff'
    if k == 'excl':
        e = [rng.randrange(len(c2['src'])), rng.randrange(len(c2['tgt']))]
        if e in c2['excl']:
            c2['excl'].remove(e)
        else:
            c2['excl'].append(e)
        return c2, 'diff'
    if k == 'par':
        c2['par'] = rng.choice([p for p in [None, 1, 2, 3, 4] if p != c2['par']])
        return c2, 'diff'
    if k == 'pattern':
        p = {'src': [[0] if rng.random() < 0.4 else None for _ in c2['src']], 'tgt': [[0] if rng.random() < 0.4 else None for _ in c2['tgt']]}
        if sx(matcase.sx_pattern(p)) not in {sx(matcase.sx_pattern(q)) for q in c2['patterns']}:
            c2['patterns'].append(p)
            return c2, 'diff'
    if k == 'pattern-order' and len(c2['patterns']) >= 2:
        c2['patterns'] = list(reversed(c2['patterns']))
        return c2, 'diff'
    if k == 'swap-side' and len(c2['src']) == len(c2['tgt']) and c2['src'] != c2['tgt']:
        c2['src'], c2['tgt'] = c2['tgt'], c2['src']
        c2['excl'] = [[e[1], e[0]] for e in c2['excl']]
        c2['patterns'] = [{'src': p['tgt'], 'tgt': p['src']} for p in c2['patterns']]
        return c2, 'diff'
    return c2, 'same'


def batches(tier, seed):
    rng = rng_for(seed, 'C12')
    n_sel, n_tiny, n_best, n_cache = (70, 6, 40, 80) if tier == 'quick' else (900, 60, 400, 900)
    cases = []
    for i in range(n_sel):
        c = matcase.gen(rng, max_src=2, max_tgt=3, overrides=rng.random() < 0.3) if rng.random() < 0.7 else C10.gen_pattern_settings(rng)
        c.pop('family', None)
        c.update({'_mode': 'select', '_i': i, '_p': [rng.choice([0, 0, .15, .5, .9, 1]) for _ in range(3)],
                  '_pf': {f: rng.choice([None, None, 0, 1, .5]) for f in ('pattern', 'eager', 'lazy', 'enum')}, '_s': rng.randrange(1 << 30),
                  '_limit_time': rng.random() < 0.8})
        cases.append(c)
    yield 'select-under-timeout-schedules', cases
    cases = []
    for i in range(n_tiny):
        c = matcase.gen(rng, max_src=2, max_tgt=3, overrides=False)
        c.update({'_mode': 'tiny', '_i': i, '_timeout': rng.choice([1e-7, 1e-5, 1e-4, 1e-3])})
        cases.append(c)
    yield 'select-with-tiny-real-time-limits', cases
    cases = []
    for i in range(n_best):
        cases.append({'_mode': 'best', '_i': i, 'tables': [gen_best_table(rng) for _ in range(25)]})
    yield 'get-best-on-score-tables', cases
    cases = []
    for i in range(n_cache):
        c = matcase.gen(rng, max_src=2, max_tgt=3, overrides=rng.random() < 0.3) if rng.random() < 0.8 else C10.gen_pattern_settings(rng)
        c.pop('family', None)
        c2, kind = mutate_settings(rng, c)
        c.update({'_mode': 'cache', '_i': i, '_other': c2, '_kind': kind, '_xproc': (i % (4 if tier == 'quick' else 6)) == 0,
                  '_s': rng.randrange(1 << 30)})
        cases.append(c)
    yield 'cache-histories-and-key-pairs', cases
    cases = []
    for i in range(n_cache // 2):
        c = matcase.gen(rng, max_src=2, max_tgt=3, overrides=rng.random() < 0.3)
        c.pop('family', None)
        c.update({'_mode': 'interrupt', '_i': i, '_s': rng.randrange(1 << 30)})
        cases.append(c)
    yield 'interrupted-and-abandoned-iterations', cases


# ------------------------------------------------------------------ helpers
def qsx(x):
    if x is None or (isinstance(x, float) and not math.isfinite(x)):
        return 'nan'
    fr = Fraction(float(x))
    return [fr.numerator, fr.denominator]


def _core(case):
    return {k: v for k, v in case.items() if not k.startswith('_')}


def _n_mats(c, settings, pats):
    from adsg_core.optimization.assign_enc.matrix import AggregateAssignmentMatrixGenerator
    agg = AggregateAssignmentMatrixGenerator(settings).get_agg_matrix(cache=False)
    return [int(agg[ex].shape[0]) if ex in agg else 0 for ex in pats]


class _Patched:
    """tags the registry factories with their family and replaces run_timeout inside the selector module"""

    def __init__(self, schedule=None):
        self.schedule = schedule        # None = real run_timeout
        self.log = []                   # (family, index, outcome)
        self.created = []               # managers in creation order
        self.dc = {}
        self.n_mat = 'unset'

    def __enter__(self):
        import adsg_core.optimization.assign_enc.selector as SM
        self.SM = SM
        self.saved = {k: getattr(SM, k) for k in ('PATTERN_ENCODERS', 'EAGER_ENCODERS', 'LAZY_ENCODERS', 'EAGER_ENUM_ENCODERS', 'run_timeout')}

        def wrap(f, fam, i):
            def g(imp):
                enc = f(imp)
                enc._verif_fam = (fam, i)
                return enc
            return g
        for name, fam in (('PATTERN_ENCODERS', 'pattern'), ('EAGER_ENCODERS', 'eager'), ('LAZY_ENCODERS', 'lazy'), ('EAGER_ENUM_ENCODERS', 'enum')):
            setattr(SM, name, [wrap(f, fam, i) for i, f in enumerate(self.saved[name])])
        real_rt = self.saved['run_timeout']
        me = self

        def rt(timeout, func, *args, **kw):
            name = getattr(func, '__name__', '')
            kind = 'inst' if name == '_instantiate_manager' else 'dc' if name == '_get_dist_corr' else 'count'
            fam = getattr(args[0], '_verif_fam', None) if kind == 'inst' else None
            if me.schedule is not None and me.schedule(kind, fam[0] if fam else None):
                if kind == 'inst':
                    me.log.append((fam[0], fam[1], 'timeout'))
                raise TimeoutError
            try:
                res = func(*args, **kw) if me.schedule is not None else real_rt(timeout, func, *args, **kw)
            except BaseException as e:
                if kind == 'inst':
                    me.log.append((fam[0], fam[1], type(e).__name__))
                raise
            if kind == 'inst':
                me.log.append((fam[0], fam[1], 'created'))
            return res
        SM.run_timeout = rt
        return self

    def __exit__(self, *a):
        for k, v in self.saved.items():
            setattr(self.SM, k, v)


def _selector_class(P):
    from adsg_core.optimization.assign_enc.selector import EncoderSelector

    class Sel(EncoderSelector):
        def _get_imp_ratio(self, n_design_points, n_mat=None, n_exist=None, assignment_manager=None):
            v = super()._get_imp_ratio(n_design_points, n_mat, n_exist, assignment_manager=assignment_manager)
            if assignment_manager is not None:
                P.created.append((assignment_manager, float(v)))
            return v

        def _get_dist_corr(self, assignment_manager):
            v = super()._get_dist_corr(assignment_manager)
            P.dc[id(assignment_manager)] = float(v)
            return v

        def _get_n_mat(self):
            r = super()._get_n_mat()
            P.n_mat = r[0]
            return r
    return Sel


def _label(am):
    fam = getattr(am.encoder, '_verif_fam', None)
    if fam is None:
        return 'default', 'eager'
    from adsg_core.optimization.assign_enc.lazy_encoding import LazyEncoder
    return '%s%d' % (fam[0], fam[1]), ('lazy' if isinstance(am.encoder, LazyEncoder) else 'eager')


def _near_boundary(P):
    """a group mean whose hundredths are within 1e-7 of a rounding boundary, or a non-finite score"""
    rows = [(imp, float(am.encoder.get_information_index()), P.dc.get(id(am), float('nan'))) for am, imp in P.created]
    for imp, inf, dc in rows:
        if not math.isfinite(imp) or not math.isfinite(inf) or math.isinf(dc):
            return 'non-finite-score'
    for imp, inf, dc in rows:
        grp = [d for (a, b, d) in rows if a == imp and b == inf and not math.isnan(d)]
        if grp:
            m = sum(grp) / len(grp) * 100
            if abs((m - math.floor(m)) - 0.5) < 1e-7:
                return 'mean-on-rounding-boundary'
    imps = [r[0] for r in rows]
    if imps and min(imps) > 0:
        for v in imps:
            for lim in (1, 10, 40, 100):
                if v / min(imps) != lim and abs(v / min(imps) - lim) < 1e-9:
                    return 'ratio-on-band-boundary'
    return None


# ------------------------------------------------------------------ run_case
def run_case(case):
    mode = case['_mode']
    if mode == 'best':
        return _run_best(case)
    if mode == 'cache':
        return _run_cache(case)
    if mode == 'interrupt':
        return run_interrupted(case)
    return _run_select(case)


def _run_select(case):
    c = _core(case)
    tags = ['mode:' + case['_mode']]
    settings, pats = matcase.build(c)
    n_mats = _n_mats(c, settings, pats)
    admits = any(n >= 1 for n in n_mats)
    degenerate = all(n <= 1 for n in n_mats)
    tags.append('matrices:%s' % ('none' if not admits else 'at-most-one' if degenerate else 'several'))
    srng = random.Random(case.get('_s', 0))
    if case['_mode'] == 'select':
        p = {'count': case['_p'][0], 'inst': case['_p'][1], 'dc': case['_p'][2]}
        pf = case.get('_pf') or {}
        schedule = lambda kind, fam=None: srng.random() < (pf[fam] if (kind == 'inst' and pf.get(fam) is not None) else p[kind])
        tags.append('p-inst:%s' % p['inst'])
    else:
        schedule = None
    from adsg_core.optimization.assign_enc.selector import EncoderSelector
    EncoderSelector(settings).initialize_numba()
    exc = None
    mgr = None
    with _Patched(schedule) as P:
        Sel = _selector_class(P)
        sel = Sel(settings)
        if case['_mode'] == 'tiny':
            sel.encoding_timeout = case['_timeout']
        try:
            mgr = sel.get_best_assignment_manager(cache=False, limit_time=case.get('_limit_time', True))
        except Exception as e:
            exc = e
        stage = sel._last_selection_stage
        nmax = 1e3 if case.get('_limit_time', True) else 1e5
    n_created = len(P.created)
    none_constructed = n_created == 0 and (any(o in ('timeout', 'TimeoutError') for _, _, o in P.log) or P.n_mat is None)
    tags.append('created:%s' % ('0' if n_created == 0 else '1' if n_created == 1 else '2-5' if n_created <= 5 else '6+'))
    detail_log = ' '.join('%s%d:%s' % l for l in P.log[:40])
    # ---- property level
    if exc is not None:
        cls = '%s:%s' % (type(exc).__name__, str(exc)[:60])
        tags.append('raises:' + type(exc).__name__)
        if True:
            kind = ('no-candidate-constructed-under-time-limits' if (none_constructed and 'Cannot find best encoder' in str(exc))
                    else 'non-finite-imputation-ratio' if (isinstance(exc, ValueError) and not admits and P.n_mat is None) else 'other')
            fail = {'clause': 'selection-raises:%s:%s' % (type(exc).__name__, kind),
                    'detail': '%s; matrices per pattern %s; n_mat=%s; candidates: %s' % (cls, n_mats, P.n_mat, detail_log)}
    else:
        fail = None
        tags.append('stage:%s' % stage)
    # ---- model query
    queries, impl = [], {'mode': case['_mode'], 'n_mats': n_mats, 'n_created': n_created}
    skip_model = _near_boundary(P) if exc is None or isinstance(exc, RuntimeError) else 'impl-raised-' + type(exc).__name__
    if case['_mode'] == 'tiny':
        skip_model = skip_model or None
    if skip_model:
        tags.append('model-skipped:' + skip_model)
    fam_rows = {'pattern': [], 'eager': [], 'lazy': [], 'enum': []}
    chosen = None
    for am, imp in P.created:
        f = am.encoder._verif_fam[0]
        if mgr is am:
            chosen = (f, len(fam_rows[f]))
        fam_rows[f].append([qsx(imp), qsx(float(am.encoder.get_information_index())), qsx(P.dc.get(id(am)))])
    fams_tried = []
    for f, _, _ in P.log:
        if f not in fams_tried:
            fams_tried.append(f)
    if not skip_model and P.n_mat != 'unset':
        queries.append(sx(['select', False, 'none' if P.n_mat is None else ['some', int(P.n_mat)], int(nmax),
                           fam_rows['pattern'], fam_rows['eager'], fam_rows['lazy'], fam_rows['enum']]))
        if exc is None:
            obs = ['default'] if (stage is None and chosen is None) else ['chosen', stage, chosen[0] if chosen else '?', chosen[1] if chosen else -1]
        elif isinstance(exc, RuntimeError) and 'Cannot find best encoder' in str(exc):
            obs = ['raise']
        else:
            obs = ['exception', type(exc).__name__]
        impl['select'] = {'outcome': obs, 'fams': fams_tried}
    if fail is not None:
        return {'queries': queries, 'impl': impl, 'fail_after': fail, 'nontrivial': n_created >= 2, 'tags': tags}
    # ---- the returned manager is a working coding
    if degenerate and len(mgr.design_vars) > 0:
        lab = _label(mgr)
        return {'queries': queries, 'impl': impl, 'nontrivial': True, 'tags': tags,
                'fail_after': {'clause': 'variables-for-at-most-one-connection-set', 'detail': '%s declares %d variables; matrices per pattern %s' % (lab[0], len(mgr.design_vars), n_mats)}}
    lab = _label(mgr)
    r = C10.check_manager(mgr, c, pats, rng_for(case.get('_i', 0), 'C12case'), tags, lab[0], 'selected', lab[1])
    if 'fail' in r:
        return {'queries': queries, 'impl': impl, 'fail_after': r['fail'], 'nontrivial': True, 'tags': tags}
    impl['coding'] = r['impl']
    impl['n_select_q'] = len(queries)
    queries += r['queries']
    return {'queries': queries, 'impl': impl, 'nontrivial': n_created >= 2 or r['nontrivial'], 'tags': tags}


def _run_best(case):
    import numpy as np
    import pandas as pd
    from adsg_core.optimization.assign_enc.selector import EncoderSelector
    from adsg_core.optimization.assign_enc.matrix import MatrixGenSettings, Node
    sel = EncoderSelector(MatrixGenSettings(src=[Node([1])], tgt=[Node([1])]))
    queries, outs = [], []
    tags = ['mode:best']
    for t in case['tables']:
        rows = t['rows']
        df = pd.DataFrame({'n_des_pts': [1.] * len(rows), 'imp_ratio': [r[0] for r in rows], 'inf_idx': [r[1] for r in rows],
                           'dist_corr': [np.nan if r[2] is None else r[2] for r in rows]})
        try:
            import warnings
            with warnings.catch_warnings():
                warnings.simplefilter('ignore')
                i = sel._get_best(df, t['knows'], n_priority=t['np'], by_inf_idx=t['by_inf'])
            outs.append('none' if i is None else ['idx', int(i)])
        except Exception as e:
            outs.append(['exception', type(e).__name__])
        queries.append(sx(['get_best', bool(t['knows']), 'none' if t['np'] is None else ['some', t['np']], bool(t['by_inf']),
                           [[qsx(r[0]), qsx(r[1]), qsx(r[2])] for r in rows]]))
    tags.append('best:' + ('some-none' if 'none' in outs else 'all-idx'))
    return {'queries': queries, 'impl': {'mode': 'best', 'outs': outs}, 'nontrivial': True, 'tags': tags}


def _mgr_obs(mgr, pats, seed):
    """observable behaviour of a manager: encoder / imputer class, declared variables, a decode table per pattern"""
    import numpy as np
    rng = random.Random(seed)
    nopts = [int(dv.n_opts) for dv in mgr.design_vars]
    enc = mgr.encoder
    out = [type(enc).__name__, type(getattr(enc, '_imputer', None)).__name__, nopts]
    vecs = [[rng.randrange(n) for n in nopts] for _ in range(12)] + [[0] * len(nopts), [n - 1 for n in nopts]]
    for ex in pats:
        for x in vecs:
            try:
                x2, act, M = mgr.get_matrix(list(x), existence=ex)
                out.append([[int(v) for v in x2], [bool(a) for a in act], None if M is None else np.array(M).astype(int).tolist()])
            except Exception as e:
                out.append(['exc', type(e).__name__])
    return out


def _agg_obs(agg, pats):
    import numpy as np
    out = []
    for ex in pats:
        a = agg.get(ex)
        out.append(None if a is None else sorted(tuple(map(tuple, np.array(m).astype(int).tolist())) for m in a))
    return out


XPROC = r'''
import sys, json
sys.path.insert(0, %(harness)r)
import matcase
from adsg_core.optimization.assign_enc.selector import EncoderSelector
from adsg_core.optimization.assign_enc.matrix import AggregateAssignmentMatrixGenerator
c = json.loads(sys.argv[1])
settings, pats = matcase.build(c)
AggregateAssignmentMatrixGenerator(settings).get_agg_matrix(cache=True)
from props import C12
try:
    EncoderSelector(settings).initialize_numba()
    with C12._Patched(lambda *a, **k: False):       # no time-outs: the selection is deterministic
        EncoderSelector(settings).get_best_assignment_manager(cache=True)
    print('ok', settings.get_cache_key())
except Exception as e:
    print('exc', type(e).__name__)
'''


def run_interrupted(case):
    """an iteration over the connection-count tuples that is interrupted (the exception the time limiter injects is thrown into
    the generator) or abandoned by its consumer after k elements must leave nothing behind that changes what later calls with
    the same settings -- from new objects, with the cache enabled -- return"""
    import numpy as np
    from adsg_core.optimization.assign_enc.matrix import AggregateAssignmentMatrixGenerator as Gen
    c = _core(case)
    tags = ['mode:interrupt']
    tmp = tempfile.mkdtemp(prefix='c12intr', dir=os.environ.get('VERIF_SCRATCH') or None)
    old = os.environ.get('XDG_CACHE_HOME')
    os.environ['XDG_CACHE_HOME'] = tmp
    rng = random.Random(case.get('_s', 0))

    def canon(it):
        return [(tuple(int(v) for v in a), tuple(int(v) for v in b), hash(e)) for a, b, e in it]
    try:
        s, pats = matcase.build(c)
        ref = canon(Gen(s).iter_n_sources_targets(cache=False))
        try:
            ref_n = int(Gen(s).count_all_matrices())
        except ValueError:          # no tuple at all: nothing to count
            ref_n = None
        Gen(s).reset_agg_matrix_cache()
        for f in os.listdir(tmp):
            shutil.rmtree(os.path.join(tmp, f), ignore_errors=True)
        if len(ref) < 2:
            return {'impl': {'mode': 'interrupt'}, 'nontrivial': False, 'tags': tags + ['tuples:<2'], 'queries': []}
        how = rng.choice(['throw', 'throw', 'close', 'break'])
        k = rng.randrange(1, len(ref))
        tags += ['how:' + how, 'tuples:%s' % ('2-5' if len(ref) <= 5 else '6+')]
        g = Gen(s).iter_n_sources_targets(cache=False)
        for _ in range(k):
            next(g)
        if how == 'throw':
            try:
                g.throw(KeyboardInterrupt)
                return {'fail': {'clause': 'interrupt-swallowed-by-iteration', 'detail': 'the generator went on after KeyboardInterrupt'}, 'tags': tags}
            except KeyboardInterrupt:
                pass
            except StopIteration:
                return {'fail': {'clause': 'interrupt-swallowed-by-iteration', 'detail': 'the generator ended normally after KeyboardInterrupt'}, 'tags': tags}
        else:
            g.close()
        s2, _ = matcase.build(c)
        later = canon(Gen(s2).iter_n_sources_targets())
        if later != ref:
            return {'fail': {'clause': 'later-result-changed-by-interrupted-run', 'detail': 'after %s at element %d of %d: a new generator lists %d tuples (first difference at %s)' % (
                how, k, len(ref), len(later), next((i for i, (x, y) in enumerate(zip(later, ref)) if x != y), min(len(later), len(ref))))}, 'tags': tags}
        n2 = int(Gen(matcase.build(c)[0]).count_all_matrices()) if ref_n is not None else None
        if n2 != ref_n:
            return {'fail': {'clause': 'later-result-changed-by-interrupted-run', 'detail': 'count_all_matrices %d, before the interrupted run %d' % (n2, ref_n)}, 'tags': tags}
        return {'impl': {'mode': 'interrupt'}, 'nontrivial': True, 'tags': tags, 'queries': []}
    finally:
        if old is None:
            os.environ.pop('XDG_CACHE_HOME', None)
        else:
            os.environ['XDG_CACHE_HOME'] = old
        shutil.rmtree(tmp, ignore_errors=True)


def _run_cache(case):
    # time limits are switched off here (run_timeout replaced by a direct call): with binding limits a fresh selection is not a
    # function of the settings, so "equals a fresh computation" could not be decided
    with _Patched(lambda *a, **k: False):
        return _run_cache_inner(case)


def _run_cache_inner(case):
    import numpy as np
    from adsg_core.optimization.assign_enc.selector import EncoderSelector
    from adsg_core.optimization.assign_enc.matrix import AggregateAssignmentMatrixGenerator as Gen
    a, b = _core(case), case['_other']
    tags = ['mode:cache', 'pair:' + case['_kind']]
    old = os.environ.get('XDG_CACHE_HOME')
    tmp = tempfile.mkdtemp(prefix='c12cache', dir=os.environ.get('VERIF_SCRATCH') or None)
    os.environ['XDG_CACHE_HOME'] = tmp
    try:
        sa, pa = matcase.build(a)
        sb, pb = matcase.build(b)
        EncoderSelector(sa).initialize_numba()
        steps = []          # (what, settings-name, observed, expected)

        def fresh_agg(c):
            s, p = matcase.build(c)
            return _agg_obs(Gen(s)._agg_matrices(Gen(s), ensure_all_existence=True), p)

        def fresh_mgr(c):
            s, p = matcase.build(c)
            old2 = os.environ['XDG_CACHE_HOME']
            t2 = tempfile.mkdtemp(prefix='c12fresh', dir=os.environ.get('VERIF_SCRATCH') or None)
            os.environ['XDG_CACHE_HOME'] = t2
            try:
                return _mgr_obs(EncoderSelector(s).get_best_assignment_manager(cache=False), p, case['_s'])
            finally:
                os.environ['XDG_CACHE_HOME'] = old2
                shutil.rmtree(t2, ignore_errors=True)
        exp = {'a': (fresh_agg(a), None), 'b': (fresh_agg(b), None)}
        last_mgr = {}
        n_max = max([len(m) for m in exp['a'][0] if m is not None] + [0])
        hist_rng = random.Random(case['_s'])
        if case['_xproc']:
            env = dict(os.environ, PYTHONHASHSEED=str(hist_rng.randrange(1, 1000)), XDG_CACHE_HOME=tmp)
            out = subprocess.run([sys.executable, '-c', XPROC % {'harness': os.path.dirname(os.path.dirname(os.path.abspath(__file__)))}, json.dumps(a)],
                                 env=env, capture_output=True, text=True, timeout=300)
            tags.append('xproc:' + (out.stdout.split()[0] if out.stdout.split() else 'failed'))
            if out.stdout.startswith('ok'):
                key_other = out.stdout.split()[1]
                if key_other != sa.get_cache_key():
                    tags.append('xproc-key-differs')
        ops = ['get-cache', 'get-cache', 'get-nocache', 'reset', 'get-cache', 'iter-one-pattern']
        hist = [(hist_rng.choice(['a', 'b']), hist_rng.choice(ops)) for _ in range(7)]
        hist = [('a', 'get-cache'), ('b', 'get-cache'), ('a', 'get-cache')] + hist
        if hist_rng.random() < 0.5:
            hist = [('a', 'iter-one-pattern')] + hist          # a filtered iteration on cold caches comes first
        shared_sel = [None]
        for who, op in hist:
            c = a if who == 'a' else b
            s, p = matcase.build(c)
            if op == 'reset':
                EncoderSelector(s).reset_cache()
                Gen(s).reset_agg_matrix_cache()
                continue
            if op == 'iter-one-pattern':
                ex = p[hist_rng.randrange(len(p))]
                try:
                    got = sorted(tuple(map(tuple, np.array(m).astype(int).tolist())) for m, _ in Gen(s).iter_matrices(existence=ex))
                except Exception as e:
                    return {'fail': {'clause': 'cached-call-raises:%s' % type(e).__name__, 'detail': '%s %s: %s' % (who, op, e)}, 'tags': tags}
                want = exp[who][0][p.index(ex)] or []
                if got != want:
                    return {'fail': {'clause': 'matrix-cache-not-transparent', 'detail': 'history %s; iterating one pattern gave %d matrices, a fresh computation %d' % (hist, len(got), len(want))}, 'tags': tags}
                continue
            use = op == 'get-cache'
            try:
                agg = _agg_obs(Gen(s).get_agg_matrix(cache=use), p)
                its = sorted((tuple(int(v) for v in x), tuple(int(v) for v in y), p.index(ex)) for x, y, ex in Gen(s).iter_n_sources_targets())
                its_fresh = sorted((tuple(int(v) for v in x), tuple(int(v) for v in y), p.index(ex)) for x, y, ex in Gen(s).iter_n_sources_targets(cache=False))
                if use and case.get('_i', 0) % 2 == 1:
                    # one selector object for the whole history, its (public) settings replaced before each use
                    if shared_sel[0] is None:
                        shared_sel[0] = EncoderSelector(s)
                        tags.append('shared-selector')
                    shared_sel[0].settings = s
                    mgr = shared_sel[0].get_best_assignment_manager(cache=True)
                else:
                    mgr = EncoderSelector(s).get_best_assignment_manager(cache=use)
                if use:
                    last_mgr[who] = (mgr, c, p)
            except Exception as e:
                if isinstance(e, RuntimeError) and 'at least 2 options' in str(e):
                    return {'skip': 'selection-raises-K5', 'tags': tags}
                return {'fail': {'clause': 'cached-call-raises:%s' % type(e).__name__, 'detail': '%s %s: %s' % (who, op, e)}, 'tags': tags}
            if agg != exp[who][0]:
                return {'fail': {'clause': 'matrix-cache-not-transparent', 'detail': 'history %s; at (%s,%s) the matrices differ from a fresh computation' % (hist, who, op)}, 'tags': tags}
            if its != its_fresh:
                return {'fail': {'clause': 'degree-tuple-cache-not-transparent', 'detail': 'history %s; at (%s,%s)' % (hist, who, op)}, 'tags': tags}
        same_key = sa.get_cache_key() == sb.get_cache_key()
        same_mats = exp['a'][0] == exp['b'][0]
        tags.append('keys:' + ('equal' if same_key else 'differ'))
        ssa, ssb = matcase.sx_settings(a), matcase.sx_settings(b)
        queries = [sx(['key_eq', ssa, ['some', [matcase.sx_pattern(p) for p in a['patterns']]], ssb, ['some', [matcase.sx_pattern(p) for p in b['patterns']]]])]
        # the matrices the caches deliver are the model's (per pattern of a)
        for k, p in enumerate(a['patterns']):
            queries.append(sx(['enum_M', ssa, matcase.sx_pattern(p)]))
        impl = {'mode': 'cache', 'same_key': same_key, 'same_mats': same_mats, 'kind': case['_kind'], 'agg_a': [None if m is None else [list(map(list, x)) for x in m] for m in exp['a'][0]],
                'n_fixed_q': len(queries), 'coding': []}
        # a manager delivered by the selection cache must be a working coding of the settings it was asked for (a selection is
        # not a function of the settings -- lazy encoders estimate their distance correlation from random samples -- so equality
        # with a fresh selection is not required)
        for who in sorted(last_mgr):
            mgr, c, p = last_mgr[who]
            lab = _label(mgr)
            r = C10.check_manager(mgr, c, p, rng_for(case.get('_i', 0), 'C12cache' + who), tags, lab[0], 'cached', lab[1])
            if 'fail' in r:
                f = dict(r['fail'])
                f['detail'] = '%s [manager from the selection cache for settings %s]' % (f.get('detail'), who)
                return {'queries': queries, 'impl': impl, 'fail_after': f, 'nontrivial': True, 'tags': tags}
            impl['coding'].append({'who': who, 'n_q': len(r['queries']), 'impl': r['impl']})
            queries += r['queries']
        return {'queries': queries, 'impl': impl, 'nontrivial': n_max >= 2 or not same_key, 'tags': tags}
    finally:
        if old is None:
            os.environ.pop('XDG_CACHE_HOME', None)
        else:
            os.environ['XDG_CACHE_HOME'] = old
        shutil.rmtree(tmp, ignore_errors=True)


# ------------------------------------------------------------------ compare
def compare(case, r, ms):
    im = r['impl']
    if im['mode'] == 'interrupt':
        return None
    if im['mode'] == 'best':
        for k, (o, m) in enumerate(zip(im['outs'], ms)):
            if o != m:
                return {'clause': 'get-best-differs-from-model', 'detail': 'table %d: %s: implementation %s, model %s' % (k, case['tables'][k], o, m)}
        return None
    if im['mode'] == 'cache':
        if im['same_key'] != (ms[0] == 1):
            if im['same_key'] and not im['same_mats']:
                return {'clause': 'different-settings-share-a-cache-entry', 'detail': 'keys equal, matrices differ: %s vs %s' % (_core(case), case['_other'])}
            return {'clause': 'cache-key-equality-differs-from-model', 'detail': 'implementation %s, model %s (%s pair): %s vs %s' % (im['same_key'], ms[0], im['kind'], _core(case), case['_other'])}
        if im['same_key'] and not im['same_mats']:
            return {'clause': 'different-settings-share-a-cache-entry', 'detail': 'keys equal, matrices differ: %s vs %s' % (_core(case), case['_other'])}
        if 'fail_after' in r:
            return r['fail_after']
        for k, m in enumerate(ms[1:im['n_fixed_q']]):
            want = sorted(tuple(map(tuple, x)) for x in m)
            got = None if im['agg_a'][k] is None else sorted(tuple(map(tuple, x)) for x in im['agg_a'][k])
            if (got or []) != want:
                return {'clause': 'cached-matrices-differ-from-model', 'detail': 'pattern %d: %d vs model %d matrices' % (k, len(got or []), len(want))}
        k0 = im['n_fixed_q']
        for cd in im['coding']:
            f = C10.compare(case, {'impl': cd['impl']}, ms[k0:k0 + cd['n_q']])
            k0 += cd['n_q']
            if f is not None:
                f = dict(f)
                f['detail'] = '%s [manager from the selection cache for settings %s]' % (f.get('detail'), cd['who'])
                return f
        return None
    # select / tiny
    k0 = 0
    if 'select' in im:
        m = ms[0]
        k0 = 1
        out, fams = m[0], m[1]
        obs = im['select']['outcome']
        mo = [out] if isinstance(out, str) else list(out)
        if obs[0] == 'exception':
            pass            # reported below through fail_after
        elif mo != obs:
            return {'clause': 'selection-differs-from-model', 'detail': 'implementation %s (families %s), model %s (families %s)' % (obs, im['select']['fams'], mo, fams)}
        elif obs[0] != 'default' and list(im['select']['fams']) != list(fams):
            return {'clause': 'families-constructed-differ-from-model', 'detail': 'implementation %s, model %s' % (im['select']['fams'], fams)}
    if 'fail_after' in r:
        return r['fail_after']
    if 'coding' in im:
        return C10.compare(case, {'impl': im['coding']}, ms[k0:])
    return None


def match_known(case, fail, known):
    cl = fail.get('clause') or ''
    det = fail.get('detail') or ''
    for k in known:
        if k.get('id') == 'K28' and cl.startswith('selection-raises:RuntimeError:no-candidate-constructed-under-time-limits'):
            return k
        if k.get('id') == 'K29' and cl.startswith('selection-raises:ValueError:non-finite-imputation-ratio'):
            return k
        if k.get('id') == 'K30' and cl == 'variables-for-at-most-one-connection-set':
            return k
        if k.get('id') == 'K5' and cl.startswith('selection-raises:RuntimeError:other') and 'at least 2 options' in det:
            return k
    f2 = dict(fail)
    if cl.startswith('selection-raises:RuntimeError') and 'at least 2 options' in det:
        return None
    return C10.match_known(case, f2, known)


def shrink_candidates(case):
    if case.get('_mode') == 'best':
        for k in range(len(case['tables'])):
            yield dict(case, tables=[case['tables'][k]])
        if len(case['tables']) == 1:
            t = case['tables'][0]
            for j in range(len(t['rows'])):
                if len(t['rows']) > 1:
                    yield dict(case, tables=[dict(t, rows=t['rows'][:j] + t['rows'][j + 1:])])
        return
    extra = {k: v for k, v in case.items() if k.startswith('_')}
    if case.get('_mode') == 'cache':
        return
    for c in matcase.shrink(_core(case)):
        c = dict(c)
        c.update(extra)
        yield c
