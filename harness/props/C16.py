"""C16 — design-variable values: correct_value, set_des_var_value with LINKED propagation (= model), in-domain relation."""
from fractions import Fraction
from common import sx, rng_for, some

ID = 'C16'
ALLOWED_AXIOMS = ['sub', 'mul', 'ltb', 'leb', 'float', 'div', 'add']  # PrimFloat kernel primitives under the refutation witness
RULE = ('DesignVariableNode.correct_value and DSG.set_des_var_value/des_var_value on generated discrete/continuous nodes, '
        'alone and in LINKED groups of 2-3 (incl. unequal option counts and mixed kinds), for values inside, on and far '
        'outside the bounds, negative indices; floats are passed to the model as exact rationals (as_integer_ratio); '
        'equality where IEEE arithmetic is exact (dyadic bounds with power-of-two span), otherwise the stored value is '
        'checked with the model\'s in_dom; non-trivial = value outside the domain or a linked group; distinct = distinct case')
TRUSTED = ['C16: floats are compared as exact rationals; the linked relative-position formula is compared with = only on '
           'dyadic inputs where double arithmetic is exact, otherwise only membership in the domain is decided by the model']
PARTIAL = []


def q(x):
    fr = Fraction(x)
    return [str(fr.numerator), str(fr.denominator)]


def dom_sx(d):
    return ['disc', d[1]] if d[0] == 'disc' else ['cont', q(d[1]), q(d[2])]


def _rand_dom(rng, kind=None, exact=False):
    kind = kind or rng.choice(['disc', 'cont'])
    if kind == 'disc':
        return ['disc', rng.randint(1, 5)]
    if exact:
        lo = rng.randint(-64, 64) / 8.0
        return ['cont', lo, lo + 2.0 ** rng.randint(-2, 4)]
    lo = rng.choice([rng.uniform(-1, 1), rng.uniform(-1e6, 1e6), -0.5189292690574687, 0.0, rng.uniform(-1e-3, 1e-3)])
    hi = rng.choice([lo + abs(rng.gauss(0, 1)) + 1e-9, lo + rng.uniform(1e-6, 1e3), -0.0008689422815203738 if lo < -0.001 else lo + 1.0])
    if not lo < hi:
        hi = lo + 1.0
    return ['cont', lo, hi]


def _rand_val(rng, d):
    if d[0] == 'disc':
        return rng.choice([rng.randint(0, d[1] - 1), -1, -7, d[1], d[1] + 5, d[1] - 1, 0])
    lo, hi = d[1], d[2]
    return rng.choice([lo, hi, (lo + hi) / 2, rng.uniform(lo, hi), lo - abs(rng.gauss(0, 1)), hi + abs(rng.gauss(0, 10)),
                       lo - 1e9, hi + 1e9, lo + (hi - lo) * rng.choice([0.25, 0.5, 0.75, 1.0, 0.0])])


def _node_batches(tier, seed):
    rng = rng_for(seed, 'C16')
    n = 600 if tier == 'quick' else 8000
    cases = []
    for i in range(n):
        d = _rand_dom(rng)
        cases.append({'kind': 'correct', 'dom': d, 'v': _rand_val(rng, d)})
    yield 'correct', cases
    cases = [{'kind': 'set', 'group': [['cont', 0.0, 1.0], ['cont', -0.5189292690574687, -0.0008689422815203738]], 'i': 0,
              'v': 1.0, 'exact': False},
             {'kind': 'set', 'group': [['disc', 4], ['disc', 2]], 'i': 0, 'v': 3, 'exact': True}]
    for i in range(n):
        r = rng.random()
        exact = rng.random() < 0.5
        if r < 0.1:
            group = [_rand_dom(rng, exact=exact) for _ in range(rng.randint(2, 3))]   # possibly mixed kinds
        else:
            kind = rng.choice(['disc', 'cont'])
            group = [_rand_dom(rng, kind, exact=exact) for _ in range(rng.randint(1, 3))]
        i_set = rng.randrange(len(group))
        v = _rand_val(rng, group[i_set])
        if exact and group[i_set][0] == 'cont':
            lo, hi = group[i_set][1], group[i_set][2]
            v = rng.choice([lo + (hi - lo) * rng.randint(-4, 12) / 8.0, lo, hi])
        cases.append({'kind': 'set', 'group': group, 'i': i_set, 'v': v, 'exact': exact})
    yield 'set-value', cases


def _node(d, name):
    from adsg_core.graph.adsg_nodes import DesignVariableNode
    if d[0] == 'disc':
        return DesignVariableNode(name, options=list(range(10, 10 + d[1])))
    return DesignVariableNode(name, bounds=(d[1], d[2]))


def _node_run_case(case):
    if case['kind'] == 'correct':
        d = case['dom']
        node = _node(d, 'dv')
        val, frac = node.correct_value(case['v'])
        dom_lo_hi = (0, d[1] - 1) if d[0] == 'disc' else (d[1], d[2])
        return {'queries': [sx(['correct', dom_sx(d), q(case['v'])])], 'impl': q(val),
                'nontrivial': not (dom_lo_hi[0] <= case['v'] <= dom_lo_hi[1]), 'tags': ['correct:' + d[0]]}
    from adsg_core import BasicDSG
    from adsg_core.graph.adsg_nodes import NamedNode
    from adsg_core.graph.choice_constraints import ChoiceConstraintType
    group = case['group']
    g = BasicDSG()
    a = NamedNode('A')
    nodes = [_node(d, 'dv%d' % k) for k, d in enumerate(group)]
    g.add_edges([(a, n) for n in nodes])
    g = g.set_start_nodes({a})
    if len(nodes) > 1:
        g = g.constrain_choices(ChoiceConstraintType.LINKED, nodes)
        # constrain_choices orders the nodes; positions below follow the constraint's order
        nodes_c = list(g.get_choice_constraints()[0].nodes)
    else:
        nodes_c = nodes
    order = [nodes.index(n) for n in nodes_c]
    group_c = [group[k] for k in order]
    i_c = order.index(case['i'])
    try:
        g.set_des_var_value(nodes[case['i']], case['v'])
        impl = ['some', [[k, q(g.des_var_value(n))] for k, n in enumerate(nodes_c)]]
    except ValueError:
        impl = 'none'
    queries = [sx(['set_value', [dom_sx(d) for d in group_c], i_c, q(case['v'])])]
    if impl != 'none':
        queries += [sx(['in_dom', dom_sx(d), impl[1][k][1]]) for k, d in enumerate(group_c)]
    kinds = {d[0] for d in group}
    return {'queries': queries, 'impl': impl, 'nontrivial': len(group) > 1,
            'tags': ['set:%s:n=%d%s' % ('+'.join(sorted(kinds)), len(group), ':exact' if case['exact'] else ''),
                     'set:error' if impl == 'none' else 'set:ok'], 'i_c': i_c}


def _feq(a, b):
    return Fraction(int(a[0]), int(a[1])) == Fraction(int(b[0]), int(b[1]))


def _node_compare(case, r, ms):
    if case['kind'] == 'correct':
        if not _feq(ms[0], r['impl']):
            return {'clause': 'correct-value-differs', 'detail': 'impl %s model %s' % (r['impl'], ms[0])}
        return None
    m = ms[0]
    if (m == 'none') != (r['impl'] == 'none'):
        return {'clause': 'set-value-error-class', 'detail': 'impl %s model %s' % (r['impl'], m)}
    if m == 'none':
        return None
    for k, ok in enumerate(ms[1:]):
        if ok != 1:
            return {'clause': 'stored-value-outside-domain', 'detail': 'node %d stored %s' % (k, r['impl'][1][k])}
    mv = {p[0]: p[1] for p in m[1]}
    for k, v in r['impl'][1]:
        exact = case['exact'] or case['group'][0][0] == 'disc' or k == r['i_c']
        if exact:
            if not _feq(mv[k], v):
                return {'clause': 'stored-value-differs', 'detail': 'node %d impl %s model %s' % (k, v, mv[k])}
        else:
            a, b = Fraction(int(v[0]), int(v[1])), Fraction(int(mv[k][0]), int(mv[k][1]))
            scale = max(1, abs(a), abs(b))
            if abs(a - b) > scale * Fraction(1, 10 ** 9):
                return {'clause': 'stored-value-differs', 'detail': 'node %d impl %s model %s (inexact arithmetic, tolerance 1e-9)' % (k, float(a), float(b))}
    return None


# ---------------------------------------------------------------- decoded architectures
# second batch: graphs with 1-3 design-variable nodes (permanent and conditional, discrete and continuous) decoded through
# GraphProcessor with both encoders, vectors with values inside, on and far outside the bounds, negative and non-integer
# indices: every design-variable node of the instance carries a value of its domain (an integer index for a discrete one),
# nodes that are not in the instance carry none, and the values are those of the corrected vector (decode_witness)
from props import _proc as _p
import dsgcase as _dsgcase
PROC_CLAUSES = {'decode-result-is-not-an-admissible-architecture', 'corrected-vector-out-of-range',
                'corrected-vector-does-not-describe-the-instance'}
RULE += ('; second batch: G-sel graphs with 1-3 design-variable nodes x both encoders x vectors incl. out-of-range, negative and '
         'non-integer entries: decode_witness (proved sound) must accept the instance with the values stored on its '
         'design-variable nodes')
_proc_batches = _p.make_batches('C16', ['complete', 'fast'], 400, 4000, cons_prob=0.1, n_dv=(1, 3), out_of_range=True)
_proc_run = _p.make_run_case(PROC_CLAUSES)


def batches(tier, seed):
    for b_ in _node_batches(tier, seed):
        yield b_
    for name, cases in _proc_batches(tier, seed):
        for c in cases:
            c['_procbatch'] = True
        yield 'decoded-architectures', cases


def run_case(case):
    return _proc_run(case) if case.get('_procbatch') else _node_run_case(case)


def compare(case, r, ms):
    return _p.compare(case, r, ms) if case.get('_procbatch') else _node_compare(case, r, ms)


def shrink_candidates(case):
    if case.get('_procbatch'):
        for c in _p.shrink_candidates(case):
            yield c


def match_known(case, fail, known):
    if case.get('_procbatch'):
        return _dsgcase.match_known(case, fail, known)
    return None
