"""C14 — the fast selection-choice encoder is sound and covers the design space."""
from props import _proc
import dsgcase

ID = 'C14'
CLAUSES = {'construction-fails-on-feasible-space', 'decode-raises-on-feasible-space', 'instance-not-final', 'instance-not-feasible',
           'decode-result-is-not-an-admissible-architecture', 'architectures-unreachable-by-any-vector', 'decode-not-idempotent',
           'decodes-although-no-architecture-is-admissible'}
RULE = ('G-sel graphs (incl. zero choices, forced choices, incompatibilities) x fast encoder x the whole declared space '
        '(<= 200 vectors, else samples): every decode is an admissible architecture of the model, decoding a corrected vector '
        'returns it unchanged, and when the whole space was decoded the set of instances equals the enum_adm of the model; '
        'non-trivial = at least 2 valid rows; distinct = graph')
TRUSTED = ['the encoding description E is read from GraphProcessor.all_des_vars']
PARTIAL = []
batches = _proc.make_batches('C14', ['fast'], 500, 6000, cons_prob=0.25)
run_case = _proc.make_run_case(CLAUSES, vec_limit=200)
compare = _proc.compare
shrink_candidates = _proc.shrink_candidates
match_known = dsgcase.match_known
