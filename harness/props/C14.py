"""C14 — the fast selection-choice encoder is sound and covers the design space."""
from props import _proc
import dsgcase

ID = 'C14'
CLAUSES = {'construction-fails-on-feasible-space', 'decode-raises-on-feasible-space', 'instance-not-final', 'instance-not-feasible',
           'decode-result-is-not-an-admissible-architecture', 'architectures-unreachable-by-any-vector', 'decode-not-idempotent',
           'decodes-although-no-architecture-is-admissible', 'fast-decode-differs-from-model'}
RULE = ('G-sel graphs (incl. zero choices, forced choices, incompatibilities) x fast encoder x the whole declared space '
        '(<= 200 vectors, else samples): every decode is an admissible architecture of the model, decoding a corrected vector '
        'returns it unchanged, and when the whole space was decoded the set of instances equals the enum_adm of the model; '
        'non-trivial = at least 2 valid rows; distinct = graph')
TRUSTED = ['the encoding description E is read from GraphProcessor.all_des_vars']
PARTIAL = []
RULE += ('; second batch: FastHierarchyAnalyzer._iter_neighborhood on generated (option counts 1-5, requested values in and out of '
         'range, fixed flags, 0-4 variables) = the extracted neighborhood (same vectors in the same order)')
_sel_batches = _proc.make_batches('C14', ['fast'], 500, 6000, cons_prob=0.25)
_sel_run = _proc.make_run_case(CLAUSES, vec_limit=200)


def batches(tier, seed):
    for b_ in _sel_batches(tier, seed):
        yield b_
    from common import rng_for
    rng = rng_for(seed, 'C14-nb')
    cases = []
    for i in range(150 if tier == 'quick' else 2000):
        k = rng.choice([0, 1, 1, 2, 2, 3, 3, 4])
        vs = []
        for _ in range(k):
            n = rng.randint(1, 5)
            cur = rng.randrange(n) if rng.random() < 0.85 else rng.choice([-1, n, n + 1, -2])
            vs.append([n, cur, rng.random() < 0.25])
        cases.append({'_nb': True, 'vs': vs, '_i': i})
    yield 'neighbourhood-order', cases


def run_case(case):
    if not case.get('_nb'):
        return _sel_run(case)
    from common import sx
    from adsg_core.optimization.hierarchy.fast import FastHierarchyAnalyzer
    vs = case['vs']
    a = FastHierarchyAnalyzer.__new__(FastHierarchyAnalyzer)
    a.__dict__['n_opts'] = [v[0] for v in vs]
    try:
        got = [[int(x) for x in t] for t in a._iter_neighborhood([v[1] for v in vs], [bool(v[2]) for v in vs])]
    except Exception as e:
        return {'fail': {'clause': 'iter-neighborhood-raises:%s' % type(e).__name__, 'detail': '%s: %s' % (vs, e)}, 'tags': ['nb']}
    return {'queries': [sx(['neighborhood', [[v[0], v[1], bool(v[2])] for v in vs]])], 'impl': {'nb': got},
            'nontrivial': len(got) >= 2, 'tags': ['nb', 'nb-size=%d' % min(len(got), 50)]}


def compare(case, r, ms):
    if case.get('_nb'):
        want = [[int(x) for x in t] for t in ms[0]]
        if want != r['impl']['nb']:
            return {'clause': 'neighbourhood-order-differs-from-model', 'detail': '%s: implementation %s model %s' % (case['vs'], r['impl']['nb'][:12], want[:12])}
        return None
    return _proc.compare(case, r, ms)

def shrink_candidates(case):
    if case.get('_nb'):
        for k in range(len(case['vs'])):
            yield dict(case, vs=case['vs'][:k] + case['vs'][k + 1:])
        return
    for c in _proc.shrink_candidates(case):
        yield c


def match_known(case, fail, known):
    if case.get('_nb'):
        return None
    return dsgcase.match_known(case, fail, known)
