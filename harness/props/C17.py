"""C17 — metric classification and evaluation (GraphProcessor.objectives/constraints, DSGEvaluator.evaluate) = model."""
import math
from fractions import Fraction
from common import sx, rng_for, run_dsgm, is_model_error
import dsgcase, procdrive

ID = 'C17'
RULE = ('G-sel graphs decorated with 1-4 metric nodes of every direction / reference / declared-type combination on permanent '
        'and conditional leaves; objectives, constraints and the error for an undeclared ambiguous metric are compared with '
        'classify_all; DSGEvaluator.evaluate is run on every decodable architecture (<= 12 vectors) with complete, partial, '
        'NaN and all-design-space (values also for absent metric nodes) evaluator maps and compared with the model\'s evaluate (values as exact rationals, NaN by isnan); non-trivial = at '
        'least one metric with a direction; distinct = distinct graph')
TRUSTED = ['metric names are M<id> so that name order = id order (in 30% of the cases with two or more metrics two of them share one name and specification; their mutual order is then not compared); the evaluator stub returns the generated value map']
PARTIAL = []


def batches(tier, seed):
    rng = rng_for(seed, 'C17')
    n = 250 if tier == 'quick' else 4000
    cases = []
    for i in range(n):
        for _try in range(30):
            c = dsgcase.gen_sel(rng, max_nodes=9, max_choices=3, n_incompat=rng.choice([0, 0, 1]))
            if not dsgcase.guards(c):
                break
        c = procdrive.decorate(rng, c, n_dv=(0, 0), n_metric=(1, 4))
        if not c['kinds']:
            # no leaf available: hang a metric below a random node
            c['kinds'] = {}
        # two metric nodes with one specification (name, direction, reference, declared type) on different nodes: they are
        # different metrics all the same (one may be permanent, the other conditional)
        mk = sorted(k for k, v in c['kinds'].items() if v[0] == 'metric')
        if len(mk) >= 2 and rng.random() < 0.3:
            a_, b_ = rng.sample(mk, 2)
            c['kinds'][b_] = list(c['kinds'][a_][:4]) + [int(a_)]
        c['_i'] = i
        cases.append(c)
    yield 'g-metric', cases


def q(x):
    fr = Fraction(x)
    return [str(fr.numerator), str(fr.denominator)]


def mv(v):
    return 'nan' if (isinstance(v, float) and math.isnan(v)) else q(v)


def run_case(case):
    from adsg_core.optimization.evaluator import DSGEvaluator
    from adsg_core.optimization.hierarchy import SelChoiceEncoderType
    c = {k: v for k, v in case.items() if not k.startswith('_')}
    rng = rng_for(case.get('_i', 0), 'C17case')
    b = dsgcase.build(c)
    pot = dsgcase.potential_nodes(c)
    mids = sorted(int(k) for k, v in c.get('kinds', {}).items() if v[0] == 'metric' and int(k) in pot)
    kinds = {int(k): v for k, v in c['kinds'].items()}
    ms = [[i, kinds[i][1] is not None, 'none' if kinds[i][2] is None else ['some', q(kinds[i][2])],
           'none' if kinds[i][3] is None else ['some', kinds[i][3]]] for i in mids]
    mg = dsgcase.model_dsg(c, b.opt_order, getattr(b, 'cons_opts', None))
    res = run_dsgm([sx(['enum_adm', mg])])
    if any(is_model_error(r) or r == 'none' for r in res):
        return {'fail': {'clause': 'model-error', 'detail': sx(res), 'no_input': True}}
    adm = res[0][1]
    if not adm:
        return {'skip': 'no-architecture', 'tags': []}
    # a metric node that the initialisation removed from the graph must be in no architecture of the model
    in_some = set()
    for _s, inst in adm:
        in_some |= set(inst[1])
    dropped = [i for i in mids if b.node[i] not in b.dsg.graph.nodes]
    for i in dropped:
        if i in in_some:
            return {'fail': {'clause': 'metric-of-an-admissible-architecture-dropped', 'detail': 'metric node %d' % i}}
    mids = [i for i in mids if i not in dropped]
    ms = [m for m in ms if m[0] in mids]
    # permanence flags are the implementation's (it also follows automatically resolved choices); the model decides
    # whether each flag is sound (node in every admissible architecture) and classifies with them
    from adsg_core.optimization.graph_processor import GraphProcessor
    try:
        perm_nodes = GraphProcessor(b.dsg, encoder_type=SelChoiceEncoderType.COMPLETE).permanent_nodes
    except Exception as e:
        return {'fail': {'clause': 'classification-raises', 'detail': 'permanent_nodes: %s: %s' % (type(e).__name__, e)}}
    flags = [b.node[i] in perm_nodes for i in mids]
    res = run_dsgm([sx(['classify_flags', [[m, f] for m, f in zip(ms, flags)]])] +
                   [sx(['in_every_arch', mg, i]) for i in mids])
    if any(is_model_error(r) or r == 'none' for r in res):
        return {'fail': {'clause': 'model-error', 'detail': sx(res), 'no_input': True}}
    roles = res[0]
    for i, f, r in zip(mids, flags, res[1:]):
        if f and r[1] != 1:
            return {'fail': {'clause': 'permanent-node-missing-from-an-architecture', 'detail': 'node %d flagged permanent' % i}}
    tags = ['metrics=%d' % len(mids)] + ['role:%s' % r for _, r in roles]
    m_obj = [n for n, r in roles if r == 'obj']
    m_con = [n for n, r in roles if r == 'con']
    m_amb = any(r == 'ambiguous' for _, r in roles)
    valmap = {}
    # values stored on the design space graph itself are inherited by every instance: they must not leak into evaluate
    if rng.random() < 0.4:
        for i in mids:
            if rng.random() < 0.7:
                b.dsg.set_metric_value(b.node[i], 7.75 + i)
        tags.append('inherited-values')

    return_all = [False]

    class Ev(DSGEvaluator):
        def _evaluate(self, dsg, metric_nodes):
            # 'all': a table / surrogate evaluator that returns a value for every metric of the design space, also for those
            # absent from this architecture (an absent constraint is still reported at its reference value)
            return {b.node[k]: v for k, v in valmap.items() if return_all[0] or b.node[k] in metric_nodes}
    try:
        ev = Ev(b.dsg, encoder_type=SelChoiceEncoderType.COMPLETE)
        objs = [b.ident[o.node] for o in ev.objectives]
        cons = [b.ident[o.node] for o in ev.constraints]
        err = None
    except RuntimeError as e:
        err = e
    except Exception as e:
        return {'fail': {'clause': 'classification-raises', 'detail': '%s: %s' % (type(e).__name__, e)}, 'tags': tags}
    if m_amb:
        if err is None:
            return {'fail': {'clause': 'ambiguous-metric-not-rejected', 'detail': 'roles %s impl obj %s con %s' % (roles, objs, cons)}, 'tags': tags}
        return {'impl': {'error': 'RuntimeError'}, 'nontrivial': True, 'tags': tags + ['ambiguous-rejected'], 'queries': []}
    if err is not None:
        return {'fail': {'clause': 'classification-raises', 'detail': 'RuntimeError: %s; model roles %s' % (err, roles)}, 'tags': tags}
    if any(len(v) > 4 for v in kinds.values() if v[0] == 'metric'):
        # equal names: the order among them is not determined by the documented name ordering
        objs, cons, m_obj, m_con = sorted(objs), sorted(cons), sorted(m_obj), sorted(m_con)
        tags.append('same-name-metrics')
    if objs != m_obj or cons != m_con:
        return {'fail': {'clause': 'classification-differs', 'detail': 'impl obj %s con %s; model obj %s con %s' % (objs, cons, m_obj, m_con)}, 'tags': tags}
    # constraint reference values and directions
    for o in ev.constraints:
        k = kinds[b.ident[o.node]]
        if o.ref != k[2] or o.sign != (-1 if k[1] <= 0 else 1):
            return {'fail': {'clause': 'constraint-definition-differs', 'detail': '%r vs %s' % (o, k)}, 'tags': tags}
    for o in ev.objectives:
        k = kinds[b.ident[o.node]]
        if o.sign != (-1 if k[1] <= 0 else 1):
            return {'fail': {'clause': 'objective-definition-differs', 'detail': '%r vs %s' % (o, k)}, 'tags': tags}
    # evaluation on decodable architectures
    E, _ = procdrive.encoding_of(b, ev)
    vecs, _ = procdrive.vectors_for(rng, E, 12)
    queries, impls = [], []
    for x in vecs:
        try:
            inst, _, _ = ev.get_graph(list(x))
        except Exception as e:
            continue
        nodes = sorted(b.ident[n] for n in inst.graph.nodes)
        mode = rng.choice(['complete', 'partial', 'nan', 'all'])
        return_all[0] = mode == 'all'
        valmap.clear()
        for i in mids:
            if mode == 'partial' and rng.random() < 0.5:
                continue
            valmap[i] = float('nan') if (mode == 'nan' and rng.random() < 0.5) else rng.randint(-40, 40) / 4.0
        o_v, c_v = ev.evaluate(inst)
        stored = sorted((b.ident[n], v) for n, v in inst.metric_values.items() if n in inst.graph.nodes)
        queries.append(sx(['evaluate', ms, roles, nodes, [[k, mv(v)] for k, v in sorted(valmap.items())]]))
        impls.append([[mv(v) for v in o_v], [mv(v) for v in c_v], [[n, mv(v)] for n, v in stored]])
        tags.append('eval:' + mode)
    return {'queries': queries, 'impl': impls, 'nontrivial': any(k[1] is not None for k in kinds.values() if k[0] == 'metric'),
            'tags': tags}


def _eq(a, b):
    if a == 'nan' or b == 'nan':
        return a == b
    return Fraction(int(a[0]), int(a[1])) == Fraction(int(b[0]), int(b[1]))


def _key(v):
    return (1, 0) if v == 'nan' else (0, Fraction(int(v[0]), int(v[1])))


def compare(case, r, ms):
    same_names = any(len(v) > 4 for v in case.get('kinds', {}).values() if v[0] == 'metric')
    for impl, m in zip(r['impl'], ms):
        for k, name in ((0, 'objective'), (1, 'constraint')):
            a_, b_ = list(impl[k]), list(m[k])
            if same_names:          # the order among metrics with one name is not determined: compare as multisets
                a_, b_ = sorted(a_, key=_key), sorted(b_, key=_key)
            if len(a_) != len(b_) or not all(_eq(a, b) for a, b in zip(a_, b_)):
                return {'clause': 'evaluate-%s-values-differ' % name, 'detail': 'impl %s model %s' % (impl[k], m[k])}
        mvm = sorted((n, v if v == 'nan' else tuple(v)) for n, v in m[2])
        mvi = sorted((n, v if v == 'nan' else tuple(v)) for n, v in impl[2])
        if len(mvm) != len(mvi) or any(a[0] != c[0] or not _eq(a[1], c[1]) for a, c in zip(mvi, mvm)):
            return {'clause': 'stored-metric-values-differ', 'detail': 'impl %s model %s' % (impl[2], m[2])}
    return None


def shrink_candidates(case):
    yield from dsgcase.shrink_graph(case)
    kinds = case.get('kinds', {})
    for k in list(kinds):
        kk = dict(kinds)
        del kk[k]
        yield dict(case, kinds=kk)


match_known = dsgcase.match_known
