"""C13 — choice constraints: index-combination functions, option removal, pre-removal, counting  (= model)."""
import itertools
from common import sx, rng_for

ID = 'C13'
RULE = ('kernel functions of choice_constraints.py compared with the extracted Coq functions: get_valid_idx_combinations on '
        'complete index matrices (all rows over {-1..n-1}^k for k<=3 choices, n<=4 options, both permanence flags, plus '
        'shuffled sub-matrices), get_constraint_removed_options for every taken choice/option, '
        'get_constraint_pre_removed_options, count_n_combinations_max; non-trivial = at least 2 columns and 2 rows or at '
        'least one removed option; distinct = distinct case description')
TRUSTED = ['C13 kernels: option lists are represented by positions; node objects are mapped back to positions by the driver']
PARTIAL = []
TYPES = ['linked', 'permutation', 'unordered', 'norepl']


def _ctype(name):
    from adsg_core.graph.choice_constraints import ChoiceConstraintType as T
    return {'linked': T.LINKED, 'permutation': T.PERMUTATION, 'unordered': T.UNORDERED, 'norepl': T.UNORDERED_NOREPL}[name]


def batches(tier, seed):
    rng = rng_for(seed, 'C13')
    rows_cases = []
    for t in TYPES:
        for perm in (0, 1):
            for k in (1, 2, 3):
                for n in (1, 2, 3, 4):
                    if k == 3 and n == 4 and tier == 'quick':
                        continue
                    full = [list(r) for r in itertools.product(range(-1, n), repeat=k)]
                    rows_cases.append({'kind': 'rows', 't': t, 'perm': perm, 'rows': full})
                    for _ in range(3 if tier == 'quick' else 12):
                        sub = rng.sample(full, rng.randint(1, min(len(full), 12)))
                        rows_cases.append({'kind': 'rows', 't': t, 'perm': perm, 'rows': sub})
    # mixed option counts
    for _ in range(100 if tier == 'quick' else 1500):
        k = rng.randint(2, 4)
        ns = [rng.randint(1, 4) for _ in range(k)]
        rows = [[rng.randint(-1, n - 1) for n in ns] for _ in range(rng.randint(1, 10))]
        rows_cases.append({'kind': 'rows', 't': rng.choice(TYPES), 'perm': rng.randint(0, 1), 'rows': rows})
    yield 'idx-rows', rows_cases
    rem = []
    shapes = [list(s) for k in (2, 3) for s in itertools.product(range(0, 5), repeat=k)]
    if tier != 'quick':
        shapes += [[rng.randint(0, 5) for _ in range(4)] for _ in range(100)]
    for t in TYPES:
        for ns in shapes:
            for it in range(len(ns)):
                for kk in range(max(ns) + 1):
                    rem.append({'kind': 'removed', 't': t, 'ns': ns, 'it': it, 'k': kk})
    if tier == 'quick':
        rem = rng.sample(rem, 3000)
    yield 'removed', rem
    pre = [{'kind': 'pre', 't': t, 'ns': ns, 'perm': p} for t in TYPES for ns in shapes if min(ns) > 0 for p in (0, 1)]
    yield 'pre-removed', pre
    cnt = [{'kind': 'count', 't': t, 'ns': ns, 'perm': p} for t in TYPES for ns in shapes
           if min(ns) > 0 and (len(ns) == 2 or max(ns) <= 3 or tier != 'quick') for p in (0, 1)]
    yield 'count-max', cnt
    # graph level: architectures offered under a constraint = the model's admissible set (Adm includes the index rule)
    import dsgcase
    n = 150 if tier == 'quick' else 2500
    gcases = []
    for i in range(n):
        for _try in range(60):
            c = (dsgcase.gen_flat_cons(rng) if (i % 5) == 4 else
                 dsgcase.gen_sel(rng, max_nodes=10, max_choices=4, cons_prob=1.0, n_incompat=rng.choice([0, 0, 0, 1])))
            if c['cons'] and not dsgcase.guards(c):
                break
        c['kind'] = 'graph'
        c['_i'] = i
        gcases.append(c)
    yield 'g-sel-cons-graph', gcases
    pcases = []
    for i in range(n):
        for _try in range(60):
            c = (dsgcase.gen_flat_cons(rng) if (i % 5) == 4 else
                 dsgcase.gen_sel(rng, max_nodes=10, max_choices=4, cons_prob=1.0, n_incompat=rng.choice([0, 0, 0, 1])))
            if c['cons'] and not dsgcase.guards(c):
                break
        c['kind'] = 'proc'
        c['_i'] = i
        c['_kind'] = ['complete', 'fast'][i % 2]
        pcases.append(c)
    yield 'g-sel-cons-proc', pcases


def _constraint(t, ns):
    from adsg_core.graph.choice_constraints import ChoiceConstraint
    from adsg_core.graph.adsg_nodes import SelectionChoiceNode, NamedNode
    nodes = [SelectionChoiceNode('C%d' % i) for i in range(len(ns))]
    opts = [[NamedNode('O%d_%d' % (i, j)) for j in range(n)] for i, n in enumerate(ns)]
    return ChoiceConstraint(_ctype(t), nodes, opts), nodes, opts


def _positions(res, nodes, opts):
    out = []
    for node, removed in res:
        i = nodes.index(node)
        out.append([i, [opts[i].index(o) for o in removed]])
    return out


PROC_CLAUSES = {'construction-fails-on-feasible-space', 'decode-raises-on-feasible-space', 'instance-not-final',
                'instance-not-feasible', 'decode-result-is-not-an-admissible-architecture', 'architectures-unreachable-by-any-vector',
                'encoding-loses-or-merges-architectures', 'enumerated-vectors-differ', 'n-valid-designs-differs',
                'corrected-vector-does-not-describe-the-instance', 'decodes-although-no-architecture-is-admissible'}


def run_case(case):
    if case['kind'] == 'graph':
        import graphdrive
        c = {k: v for k, v in case.items() if not k.startswith('_') and k != 'kind'}
        r = graphdrive.explore(c, seed=case.get('_i', 0))
        r.setdefault('tags', []).append('cons-graph:%s' % c['cons'][0]['type'] if c.get('cons') else 'cons-graph:none')
        return r
    if case['kind'] == 'proc':
        import procdrive
        c = {k: v for k, v in case.items() if not k.startswith('_') and k != 'kind'}
        r = procdrive.run(c, case['_kind'], seed=case.get('_i', 0), vec_limit=120)
        if r.get('skip'):
            return r
        mine = [f for f in r.get('fails', []) if f['clause'].split(':')[0] in PROC_CLAUSES or f['clause'] == 'model-error']
        r['queries'] = []
        r.setdefault('tags', []).append('cons-proc:%s:%s' % (case['_kind'], c['cons'][0]['type'] if c.get('cons') else 'none'))
        if mine:
            r['fail'] = dict(mine[0], all_clauses=[f['clause'] for f in mine])
        return r
    import numpy as np
    from adsg_core.graph import choice_constraints as cc
    kind = case['kind']
    if kind == 'rows':
        rows = case['rows']
        arr = np.array(rows, dtype=int).reshape(len(rows), len(rows[0]))
        res = [int(i) for i in cc.get_valid_idx_combinations(arr, _ctype(case['t']), is_all_permanent=bool(case['perm']))]
        q = sx(['valid_idx_rows', case['t'], case['perm'], rows])
        nt = len(rows) >= 2 and len(rows[0]) >= 2
        tags = ['rows:%s:k=%d' % (case['t'], len(rows[0]))]
    elif kind == 'removed':
        con, nodes, opts = _constraint(case['t'], case['ns'])
        res = _positions(cc.get_constraint_removed_options(con, case['it'], case['k']), nodes, opts)
        q = sx(['removed_options', case['t'], case['ns'], case['it'], case['k']])
        nt = len(res) > 0
        tags = ['removed:%s' % case['t']]
    elif kind == 'pre':
        con, nodes, opts = _constraint(case['t'], case['ns'])
        res = _positions(cc.get_constraint_pre_removed_options(con, set(nodes) if case['perm'] else set()), nodes, opts)
        q = sx(['pre_removed', case['t'], case['ns'], case['perm']])
        nt = len(res) > 0
        tags = ['pre:%s' % case['t']]
    else:
        con, nodes, opts = _constraint(case['t'], case['ns'])
        res = int(cc.count_n_combinations_max(con, is_all_permanent=bool(case['perm'])))
        q = sx(['count_max', case['t'], case['ns'], case['perm']])
        nt = res > 1
        tags = ['count:%s' % case['t']]
    return {'queries': [q], 'impl': res, 'nontrivial': nt, 'tags': tags}


def compare(case, r, ms):
    if case['kind'] in ('graph', 'proc'):
        return None
    if ms[0] != r['impl']:
        return {'clause': case['kind'] + '-differs', 'detail': 'impl %s model %s' % (r['impl'], ms[0])}
    return None


def match_known(case, fail, known):
    if case.get('kind') in ('graph', 'proc'):
        import dsgcase
        return dsgcase.match_known({k: v for k, v in case.items() if k != 'kind'}, fail, known)
    return None


def shrink_candidates(case):
    if case['kind'] in ('graph', 'proc'):
        import dsgcase
        for c in dsgcase.shrink_graph(case):
            yield c
        return
    if case['kind'] == 'rows':
        rows = case['rows']
        for i in range(len(rows)):
            if len(rows) > 1:
                yield dict(case, rows=rows[:i] + rows[i + 1:])
    return
