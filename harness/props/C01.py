"""C01 — every design vector decodes to a valid architecture instance (GraphProcessor vs model)."""
from props import _proc, C02 as _c02

ID = 'C01'
CLAUSES = {'construction-fails-on-feasible-space', 'no-explicit-error-on-empty-space', 'decodes-although-no-architecture-is-admissible',
           'decode-raises-on-feasible-space', 'instance-not-final', 'instance-not-feasible',
           'decode-result-is-not-an-admissible-architecture'}
RULE = ('G-sel graphs decorated with 0-2 design-variable nodes x both selection-choice encoders x every vector of the declared '
        'space (<= 48, else 48 samples): get_graph must not raise unless the model admits no architecture, the instance must '
        'be final and feasible, and decode_witness (proved sound) must find an admissible assignment whose closure is the '
        'instance and whose variable values are the reported ones; non-trivial = at least 2 valid rows; distinct = graph+encoder')
TRUSTED = ['the encoding description E (variables, option lists) is read from GraphProcessor.all_des_vars',
           'which valid vector a corrector picks is abstracted: the model only decides membership (decode_witness)']
RULE += ('; second batch: graphs with 1-2 connection choices (half of them with every connector on a permanent node, a quarter with '
         'grouping nodes, exclusion edges in 30%) through GraphProcessor: every enumerated row and 25 random vectors per encoder '
         'must decode without an exception to a final, feasible architecture (node set + connection edges) of the model -- '
         'admissible assignment x one valid connection set per connection choice')
PARTIAL = ['for graphs with connection choices the instance is compared as node set + connection edges (no decode_witness)']
CONN_CLAUSES = ('processor-raises', 'decode-raises', 'decoded-instance-not-final-or-infeasible', 'decoded-architecture-not-in-model',
                'architectures-differ', 'two-rows-one-architecture', 'fix-or-free-raises')
batches = _proc.add_conn_batch(_proc.make_batches('C01', ['complete', 'fast'], 1200, 6000, cons_prob=0.25), 'C01')
run_case = _proc.wrap_run_case(_proc.make_run_case(CLAUSES), CONN_CLAUSES)
compare = _proc.compare
shrink_candidates = _proc.wrap_shrink(_proc.shrink_candidates)
known_guard = _c02.known_guard
match_known = _proc.wrap_match_known(_c02.match_known)
