"""C04 — the enumerated valid design vectors are exactly the architectures, one each (complete encoder)."""
from props import _proc
import dsgcase

ID = 'C04'
CLAUSES = {'encoding-loses-or-merges-architectures', 'enumerated-vectors-differ', 'n-valid-designs-differs',
           'n-design-space-differs', 'imputation-ratio-differs', 'statistics-differ', 'enumeration-raises',
           'decoded-vector-not-among-enumerated-rows', 'architectures-unreachable-by-any-vector'}
RULE = ('G-sel graphs with 0-2 design-variable nodes, complete encoder: get_all_discrete_x (inactive entries as -1) must '
        'correspond one-to-one to rows_of (proved exact and duplicate-free), get_n_valid_designs = number of rows, '
        'get_n_design_space = product of option counts, imputation ratio = quotient, statistics row total-design-space the '
        'same numbers, every enumerated row decodes to an enumerated row; non-trivial = at least 2 valid rows; distinct = graph')
TRUSTED = ['the encoding description E is read from GraphProcessor.all_des_vars',
           'a taken choice may be listed inactive by the implementation (auto-resolved choices): rows are matched one-to-one '
           'to architectures with that one relaxation']
PARTIAL = ['connection choices: C11 machinery']
batches = _proc.make_batches('C04', ['complete'], 1000, 6000, cons_prob=0.25)
run_case = _proc.make_run_case(CLAUSES)
compare = _proc.compare
shrink_candidates = _proc.shrink_candidates
match_known = dsgcase.match_known
