"""C02 — an instance is exactly the derivation closure of the choices made (graph API vs model)."""
from common import rng_for
import dsgcase, graphdrive

ID = 'C02'
RULE = ('G-sel graphs (3-11 nodes, 1-4 selection choices with 1-4 options, shared option nodes, several choices per node, '
        'derivation cycles, fan-out/fan-in diamonds, 1-2 start nodes, 0-3 incompatibilities, random insertion order of edges and choices, optional earlier derivation of the same object from another start set) built top-down, plus a G-diamond family and a G-cross family (options and intermediate nodes of different choices deriving each other, nested derivation cycles, nested choices below; fan-out/fan-in whose join and arms are options of other choices; rings with chords below an option; dense DAGs of shared components below the options); for every admissible assignment of the '
        'model (enum_adm, proved exact) the graph API is driven in up to 6 orders and must end final+feasible with exactly '
        'inst_nodes; every path the implementation offers is walked depth-first and every feasible final state must be an '
        'admissible instance; non-trivial = at least 2 admissible assignments or 2 choices; distinct = distinct graph')
TRUSTED = ['option order of each choice is read from the uninitialised implementation graph (labelling only)']
PARTIAL = ['intermediate graphs are not compared (the property does not determine them)']


def known_guard(case):
    return '+'.join(sorted(dsgcase.guards(case))) or 'none'


def batches(tier, seed):
    rng = rng_for(seed, 'C02')
    n = 1200 if tier == 'quick' else 8000
    cases = []
    for i in range(n):
        c = dsgcase.gen_sel(rng)
        c['_i'] = i
        cases.append(c)
    yield 'g-sel', cases
    adv = []
    for i in range(n // 5):
        c = dsgcase.gen_sel(rng, adversarial=True)
        c['_i'] = i
        adv.append(c)
    yield 'g-adv', adv
    dia = []
    for i in range(n // 4):
        c = dsgcase.gen_diamond(rng)
        c['_i'] = i
        dia.append(c)
    yield 'g-diamond', dia
    cro = []
    for i in range(n // 2):
        want_clean = rng.random() < 0.85
        for _try in range(80):
            c = [dsgcase.gen_cross, dsgcase.gen_fanin, dsgcase.gen_cycles, dsgcase.gen_shared_dag][i % 4](rng)
            if not want_clean or not dsgcase.guards(c):
                break
        c['_i'] = i
        cro.append(c)
    yield 'g-cross', cro


def run_case(case):
    c = {k: v for k, v in case.items() if not k.startswith('_')}
    r = graphdrive.explore(c, seed=case.get('_i', 0))
    r.setdefault('tags', []).append('guard:%s' % known_guard(c))
    return r


def compare(case, r, ms):
    return None


def shrink_candidates(case):
    yield from dsgcase.shrink_graph(case)


match_known = dsgcase.match_known
