"""C06 — incompatibility constraints are enforced and never over-prune (graph API vs model)."""
from common import rng_for
import dsgcase, graphdrive
from props import C02 as _c02

ID = 'C06'
RULE = ('G-sel graphs with 1-3 incompatibility constraints placed on start/option/derived/shared nodes, plus G-cross / G-fanin / G-cycles / layered graphs (options of different choices deriving each other) with 1-2 random incompatibility constraints; every admissible '
        'assignment of the model must stay reachable in every order tried (option offered at each step, end feasible, '
        'node set = closure); every path offered by the implementation that ends final+feasible must be admissible and '
        'contain no incompatible pair; an initially infeasible graph must have no admissible assignment; non-trivial = '
        'at least 2 admissible assignments or 2 choices; distinct = distinct graph')
TRUSTED = _c02.TRUSTED
PARTIAL = _c02.PARTIAL
known_guard = _c02.known_guard
match_known = _c02.match_known
shrink_candidates = _c02.shrink_candidates
compare = _c02.compare


def batches(tier, seed):
    rng = rng_for(seed, 'C06')
    n = 1200 if tier == 'quick' else 8000
    cases = []
    for i in range(n):
        c = dsgcase.gen_sel(rng, n_incompat=rng.choice([1, 1, 2, 3]))
        c['_i'] = i
        cases.append(c)
    yield 'g-sel-incompat', cases
    # options of different choices deriving each other (diamonds, fan-in, nested cycles), with 1-2 incompatibility
    # constraints between nodes that do not make an option self-conflicting
    cro = []
    for i in range(n // 4):
        want_clean = rng.random() < 0.8
        for _try in range(80):
            c = [dsgcase.gen_cross, dsgcase.gen_fanin, dsgcase.gen_cycles, dsgcase.gen_layered, dsgcase.gen_shared_dag][i % 5](rng)
            inc = list(c.get('incompat', []))
            for _ in range(rng.choice([1, 1, 2])):
                a, b = rng.sample(range(1, c['n']), 2)
                if [a, b] not in inc and [b, a] not in inc:
                    inc.append([a, b])
            c['incompat'] = inc
            if not want_clean or not dsgcase.guards(c):
                break
        c['_i'] = i
        cro.append(c)
    yield 'g-cross-incompat', cro


def run_case(case):
    c = {k: v for k, v in case.items() if not k.startswith('_')}
    r = graphdrive.explore(c, seed=case.get('_i', 0))
    r.setdefault('tags', []).append('guard:%s' % known_guard(c))
    return r
