"""shared scaffolding of the processor-level properties (C01, C03, C04, C07, C14)"""
from common import rng_for
import dsgcase, procdrive
from props import C02 as _c02


def make_batches(pid, kinds, n_quick, n_thorough, cons_prob=0.0, n_dv=(0, 2), out_of_range=False, doomed_prob=0.12):
    def batches(tier, seed):
        rng = rng_for(seed, pid)
        n = n_quick if tier == 'quick' else n_thorough
        cases = []
        for i in range(n):
            # three quarters of the graphs are drawn (by rejection) outside the known-finding classes, where any
            # mismatch is a new violation; the rest exercise the guarded classes too
            want_clean = rng.random() < 0.75
            doomed = rng.random() < doomed_prob
            layered = (i % 6) == 5            # hierarchical / merged design spaces with nested choices
            for _try in range(60):
                c = (dsgcase.gen_flat_cons(rng) if cons_prob and (i % 12) == 10 else       # two constraints at once
                     [dsgcase.gen_cross, dsgcase.gen_fanin, dsgcase.gen_cycles, dsgcase.gen_shared_dag][(i // 12) % 4](rng) if (i % 12) == 4 else
                     dsgcase.gen_shared_dag(rng) if (i % 12) == 8 else
                     dsgcase.gen_layered(rng, cons_prob=cons_prob) if layered else
                     dsgcase.gen_sel(rng, max_nodes=10, cons_prob=cons_prob))
                g = dsgcase.guards(c)
                if doomed:
                    if g:
                        continue
                    c2 = dsgcase.add_doomed_option(rng, c)
                    if c2 is not None and dsgcase.guards(c2) == {'K8'}:
                        c = c2
                        break
                elif not want_clean or not g:
                    break
            c = procdrive.decorate(rng, c, n_dv=n_dv)
            c['_i'] = i
            c['_kind'] = kinds[i % len(kinds)]
            if out_of_range:
                c['_oor'] = True
            cases.append(c)
        yield 'g-sel-dv', cases
    return batches


def make_run_case(clauses, vec_limit=48):
    def run_case(case):
        c = {k: v for k, v in case.items() if not k.startswith('_')}
        r = procdrive.run(c, case.get('_kind', 'complete'), seed=case.get('_i', 0), vec_limit=vec_limit,
                          out_of_range=bool(case.get('_oor')))
        if r.get('skip'):
            return r
        r.setdefault('tags', []).append('guard:%s' % _c02.known_guard(c))
        mine = [f for f in r.get('fails', []) if f['clause'].split(':')[0] in clauses or f['clause'] == 'model-error']
        other = [f for f in r.get('fails', []) if f not in mine]
        for f in other:
            r['tags'].append('other-property-clause:' + f['clause'])
        r['queries'] = []
        if mine:
            r['fail'] = dict(mine[0], all_clauses=[f['clause'] for f in mine])
        return r
    return run_case


def compare(case, r, ms):
    return None


def shrink_candidates(case):
    for c in dsgcase.shrink_graph(case):
        yield c
    kinds = case.get('kinds', {})
    for k in list(kinds):
        kk = dict(kinds)
        del kk[k]
        yield dict(case, kinds=kk)


# ---------------------------------------------------------------- processors over connection choices
def add_conn_batch(base_batches, pid, n_quick=60, n_thorough=900):
    """a second batch: graphs with 1-2 connection choices, decoded through GraphProcessor (conndrive.explore_processor)"""
    import conndrive

    def batches(tier, seed):
        for b_ in base_batches(tier, seed):
            yield b_
        rng = rng_for(seed, pid + '-conn')
        pc = []
        for i in range(n_quick if tier == 'quick' else n_thorough):
            for _try in range(60):
                c = dsgcase.gen_sel(rng, max_nodes=6, max_choices=2, n_incompat=0)
                if not dsgcase.guards(c):
                    break
            if i % 6 == 5:
                # two (sometimes three) connection choices with a few valid connection sets each, active together
                c = conndrive.add_connection(rng, c, n_choices=rng.choice([2, 2, 3]), group_prob=0.0,
                                             permanent_only=rng.random() < 0.7, small=True)
            else:
                c = conndrive.add_connection(rng, c, n_choices=2 if i % 3 == 2 else 1, group_prob=0.0 if i % 4 else 0.25,
                                             permanent_only=(i % 2 == 0))
            c['_i'] = i
            c['_proc'] = True
            pc.append(c)
        yield 'g-conn-processor', pc
    return batches


def wrap_run_case(run_case, conn_clauses, focus=None):
    import conndrive

    def run(case):
        if not case.get('_proc'):
            return run_case(case)
        c = {k: v for k, v in case.items() if not k.startswith('_')}
        r = conndrive.explore_processor(c, seed=case.get('_i', 0), focus=focus)
        f = r.get('fail')
        if f is not None and f.get('clause') != 'model-error' and not any(f['clause'].startswith(p) for p in conn_clauses):
            r = dict(r)
            del r['fail']
            r.setdefault('tags', []).append('other-property-clause:' + f['clause'])
            r.setdefault('queries', [])
            r.setdefault('nontrivial', False)
        return r
    return run


def wrap_match_known(match_known):
    def mk(case, fail, known):
        if case.get('_proc'):
            from props import C11
            return C11.match_known(case, fail, known)
        return match_known(case, fail, known)
    return mk


def wrap_shrink(shrink_candidates):
    def sc(case):
        if case.get('_proc'):
            from props import C11
            return C11.shrink_candidates(case)
        return shrink_candidates(case)
    return sc
