"""C19 — run_timeout returns, raises or times out, and leaves nothing running (real threads vs the outcomes the LTS allows)."""
import time, threading
from common import sx, rng_for

ID = 'C19'
RULE = ('run_timeout is called with generated worker functions: sleeping / busy-looping for a duration that sweeps across the limit '
        '(0.1x .. 3x, incl. equal), returning a value (7, None, 0, False, an empty string or list, 0.0) or raising one particular exception object (KeyError, MemoryError and a subclass, ValueError, RuntimeError, ArithmeticError, TimeoutError, multiprocessing.TimeoutError, SystemExit, GeneratorExit, KeyboardInterrupt: the caller must get that very object), guarding every step with a blanket except Exception (which must never see the interrupt), '
        'nested inside a run_timeout with a shorter limit, blocking in one native sleep, nested inside another run_timeout, and back-to-back after a timeout; the '
        'observed outcome class must be in the set the extracted `allowed` gives for (duration, limit, jitter tolerance); after '
        'the call returns the worker function must not be executing any more; the caller must see nothing but the result, the '
        'own exception of the function or TimeoutError; a later call must be unaffected; third batch: an iteration over connection-count tuples (what the selector runs under the limiter) is interrupted by throwing KeyboardInterrupt into it, or abandoned, after k elements: a new generator with the cache enabled must list and count what it did before; non-trivial = duration within 2x of the '
        'limit or a swallowing/native/nested program; distinct = program description')
TRUSTED = ['wall-clock durations are measured with a jitter tolerance of 60 ms + 50 % of the limit; within the tolerance both outcomes '
           'are accepted']
PARTIAL = ['GIL scheduling, delivery latency of PyThreadState_SetAsyncExc and native blocking are runtime behaviour the LTS does not '
           'exhibit; the theorems are about the protocol logic, the runs test the real threads']
KINDS = ['sleep', 'busy', 'raise', 'swallow', 'native', 'nested', 'backtoback', 'nested-short', 'raise']
# what the worker function returns / raises (index = the value / exception number of the model's program)
RET = [7, None, 0, False, '', [], 0.0]


class _OwnMemoryError(MemoryError):
    pass


import multiprocessing as _mp

# since 7c20c98 the function's own exception is re-raised whatever its type: also the ones the limiter uses internally or
# that are not Exception subclasses
EXC = [KeyError, MemoryError, _OwnMemoryError, ValueError, RuntimeError, ArithmeticError, TimeoutError, _mp.TimeoutError,
       SystemExit, GeneratorExit, KeyboardInterrupt]


def batches(tier, seed):
    rng = rng_for(seed, 'C19')
    n = 64 if tier == 'quick' else 600
    cases = []
    for i in range(n):
        kind = KINDS[i % len(KINDS)]
        limit = rng.choice([0.05, 0.08, 0.12, 0.2])
        factor = rng.choice([0.0, 0.1, 0.3, 0.6, 0.9, 1.0, 1.1, 1.5, 2.0, 3.0])
        cases.append({'kind': kind, 'limit_ms': int(limit * 1000), 'dur_ms': int(limit * 1000 * factor), '_i': i,
                      'ret': rng.randrange(len(RET)) if rng.random() < 0.6 else 0, 'exc': rng.randrange(len(EXC))})
    yield 'programs', cases
    # functions that finish at once under a generous limit: no timing ambiguity, the outcome must be the function's own for
    # every kind of return value and exception (also directly after a call that timed out)
    inst = []
    for j in range(len(RET)):
        inst.append({'kind': 'sleep', 'limit_ms': 1500, 'dur_ms': 0, 'ret': j, 'exc': 0, '_i': 1000 + j})
        inst.append({'kind': 'nested', 'limit_ms': 1500, 'dur_ms': 0, 'ret': j, 'exc': 0, '_i': 1100 + j})
    for j in range(len(EXC)):
        inst.append({'kind': 'raise', 'limit_ms': 1500, 'dur_ms': 0, 'ret': 0, 'exc': j, '_i': 1200 + j})
    for j in range(0, len(RET), 2):
        inst.append({'kind': 'sleep', 'limit_ms': 1500, 'dur_ms': 0, 'ret': j, 'exc': 0, '_after_timeout': True, '_i': 1300 + j})
    yield 'instant-programs', inst
    # "results of calls made afterwards are unaffected by an earlier timeout": what an interrupted computation leaves
    # behind. The selector counts matrices under the limiter; the interrupt is thrown into the iteration at a chosen element
    import matcase
    intr = []
    for i in range(16 if tier == 'quick' else 200):
        c = matcase.gen(rng, max_src=2, max_tgt=3, overrides=rng.random() < 0.3)
        c.pop('family', None)
        c.update({'_mode': 'interrupt', '_i': 2000 + i, '_s': rng.randrange(1 << 30)})
        intr.append(c)
    yield 'interrupted-computations', intr


def run_case(case):
    """timing-sensitive: an outcome outside the allowed set is re-tried twice before it counts (a loaded machine can delay a
    thread by more than the tolerance; a broken limiter fails every time)"""
    from common import run_dsgm
    if case.get('_mode') == 'interrupt':
        from props import C12
        return C12.run_interrupted(case)
    last = None
    for attempt in range(3):
        r = _run_once(case)
        if r.get('fail'):
            return r
        allowed = run_dsgm(r['queries'])[0]
        if r['impl'] in allowed:
            if attempt:
                r['tags'].append('retried:%d' % attempt)
            return r
        last = r
    return last


def _run_once(case):
    from adsg_core.optimization.assign_enc.time_limiter import run_timeout
    limit = case['limit_ms'] / 1000.0
    dur = case['dur_ms'] / 1000.0
    kind = case['kind']
    if kind == 'nested-short':
        # the function outlasts both limits: outer limit < inner limit (2x) < duration (at least 5x)
        dur = max(dur, 5 * limit)
        case = dict(case, dur_ms=int(dur * 1000))
    running = threading.Event()
    swallowed = []
    ret_i, exc_i = case.get('ret', 0) % len(RET), case.get('exc', 0) % len(EXC)
    ret_v = RET[ret_i]
    own_exc = EXC[exc_i]('own')

    def body():
        running.set()
        try:
            if kind == 'busy':
                t0 = time.perf_counter()
                x = 0
                while time.perf_counter() - t0 < dur:
                    x += 1
                return ret_v
            if kind == 'native':
                time.sleep(dur)
                return ret_v
            if kind == 'swallow':
                t0 = time.perf_counter()
                while time.perf_counter() - t0 < dur:
                    try:
                        time.sleep(0.005)
                    except Exception:
                        swallowed.append(1)
                return ret_v
            # sleep / raise / nested / backtoback: sleep in small steps so that an injected exception is seen promptly
            t0 = time.perf_counter()
            while time.perf_counter() - t0 < dur:
                time.sleep(0.003)
            if kind == 'raise':
                raise own_exc
            return ret_v
        finally:
            running.clear()

    if case.get('_after_timeout'):
        try:
            run_timeout(0.03, lambda: time.sleep(0.4))
        except TimeoutError:
            pass
        except BaseException as e:
            return {'fail': {'clause': 'caller-sees-foreign-exception:%s' % type(e).__name__, 'detail': 'warm-up call that times out: %s' % e}, 'tags': ['kind:' + kind]}

    def call():
        if kind == 'nested':
            return run_timeout(limit * 4 + 1.0, lambda: run_timeout(limit, body))
        if kind == 'nested-short':
            # the outer limit is the short one: its interrupt reaches the thread that waits for the inner result
            return run_timeout(limit, lambda: run_timeout(limit * 2, body))
        return run_timeout(limit, body)
    t0 = time.perf_counter()
    try:
        r = call()
        same = [j for j, v in enumerate(RET) if type(v) is type(r) and v == r]
        obs = ['value', same[0] if same else 99]
    except BaseException as e:
        if kind == 'raise' and e is own_exc:
            obs = ['raise', exc_i]
        elif type(e) is TimeoutError and e is not own_exc:
            obs = 'timeout'
        elif kind == 'raise' and type(e) is EXC[exc_i]:
            return {'fail': {'clause': 'own-exception-replaced', 'detail': 'the function raised %r, the caller got another %r' % (own_exc, e)}, 'tags': ['kind:' + kind]}
        else:
            return {'fail': {'clause': 'caller-sees-foreign-exception:%s' % type(e).__name__, 'detail': '%s: %s' % (type(e).__name__, e)}, 'tags': ['kind:' + kind]}
    wall = time.perf_counter() - t0
    tags = ['kind:' + kind, 'obs:%s' % (obs if isinstance(obs, str) else obs[0])]
    # nothing is running any more
    time.sleep(0.002)
    if running.is_set():
        time.sleep(0.05)
        if running.is_set():
            return {'fail': {'clause': 'worker-still-running-after-return', 'detail': 'kind %s dur %d ms limit %d ms, observed %s after %.0f ms' % (kind, case['dur_ms'], case['limit_ms'], obs, wall * 1000)}, 'tags': tags}
    if swallowed:
        return {'fail': {'clause': 'interrupt-arrives-as-ordinary-exception', 'detail': 'a blanket except Exception inside the function caught the interrupt %d time(s)' % len(swallowed)}, 'tags': tags}
    # a later call is unaffected
    if kind == 'backtoback' or obs == 'timeout':
        try:
            r2 = run_timeout(2.0, lambda: 5)
        except BaseException as e:
            return {'fail': {'clause': 'later-call-affected:%s' % type(e).__name__, 'detail': 'after %s' % (obs,)}, 'tags': tags}
        if r2 != 5:
            return {'fail': {'clause': 'later-call-affected', 'detail': 'returned %r' % (r2,)}, 'tags': tags}
    if kind == 'nested-short':
        # the nested-limits LTS (Timeout.nstep, fixed = true): over all schedules of 8 events of a function of 5 ticks the
        # caller's answer is in the listed set and no returned state has the function running (proved for every schedule:
        # C19_nested_nothing_running); the real threads just showed the same
        from common import run_dsgm
        outs, leak = run_dsgm([sx(['nested_summary', True, 5, 8])])[0]
        mine = 'timeout' if obs == 'timeout' else ['value', 0]
        if leak or mine not in outs:
            return {'fail': {'clause': 'nested-outcome-not-in-model', 'detail': 'observed %s; model outcomes %s leak %s' % (obs, outs, leak)}, 'tags': tags}
    res = ['raise', exc_i] if kind == 'raise' else ['value', ret_i]
    tol = 60 + case['limit_ms'] // 2
    # since 960afd7 the interrupt is a KeyboardInterrupt, which a blanket `except Exception` does not swallow
    q = sx(['timeout_allowed', res, False, max(1, case['dur_ms']), case['limit_ms'], tol])
    return {'queries': [q], 'impl': obs, 'nontrivial': kind in ('swallow', 'native', 'nested', 'nested-short') or 0.5 <= (case['dur_ms'] + 1) / case['limit_ms'] <= 2.0,
            'tags': tags, 'wall_ms': int(wall * 1000)}


def compare(case, r, ms):
    if case.get('_mode') == 'interrupt':
        return None
    allowed = ms[0]
    if r['impl'] not in allowed:
        return {'clause': 'outcome-not-allowed', 'detail': 'kind %s duration %d ms limit %d ms: observed %s after %d ms, allowed %s' % (
            case['kind'], case['dur_ms'], case['limit_ms'], r['impl'], r.get('wall_ms', -1), allowed)}
    return None
