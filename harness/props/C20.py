"""C20 — a supplementary graph resolves to the mapped option for each source architecture (SupDSG.resolve = model)."""
from common import sx, rng_for, run_dsgm, is_model_error
import dsgcase

ID = 'C20'
RULE = ('source graphs: G-sel outside the known-finding classes; every admissible architecture (<= 8) is resolved through the graph '
        'API; supplementary graphs: small G-sel graphs without incompatibilities built as SupDSG, every selection choice mapped by '
        'an option mapping (from a random source choice, None key present when the source choice is conditional, sometimes '
        'deliberately missing) or an existence mapping (priority list of random source nodes + default), plus malformed variants '
        '(unmapped choice, duplicate mapping, non-final source), mappings registered in a shuffled order in 60% of the cases; SupDSG.resolve(node set) or its error = the model\'s resolve; '
        'non-trivial = at least 2 source architectures and a supplementary choice with 2 options; distinct = (source, sup, mappings)')
TRUSTED = ['the source option order and the selected options of each source architecture come from the model\'s enum_adm; the '
           'implementation\'s source instance is produced by following that assignment through the graph API']
PARTIAL = []


def batches(tier, seed):
    rng = rng_for(seed, 'C20')
    n = 500 if tier == 'quick' else 5000
    cases = []
    for i in range(n):
        lay_src, lay_sup = rng.random() < 0.45, rng.random() < 0.45      # layered: nested choices under options
        for _try in range(60):
            src = dsgcase.gen_layered(rng) if lay_src else dsgcase.gen_sel(rng, max_nodes=8, max_choices=3, n_incompat=rng.choice([0, 0, 1]))
            if rng.random() < 0.4:
                # an option of a conditionally active choice that is also derived in another way (by an option of another choice
                # or by a permanent node): the node can exist while the choice is inactive
                opts_all = {o for sc in src['sel'] for o in sc['options']}
                cond = [sc for sc in src['sel'] if sc['origin'] in opts_all and len(set(sc['options'])) >= 2]
                if cond:
                    scb = rng.choice(cond)
                    ob = rng.choice(scb['options'])
                    others = [o for sc in src['sel'] if sc['id'] != scb['id'] for o in sc['options'] if o not in scb['options'] and o != scb['origin']]
                    others += [n_ for n_ in range(src['n']) if n_ in src['start']]
                    if others:
                        x = rng.choice(others)
                        if [x, ob] not in src['edges'] and x != ob:
                            src['edges'] = src['edges'] + [[x, ob]]
            if not dsgcase.guards(src) and 'prederive' not in src:
                break
        for _try in range(60):
            sup = dsgcase.gen_layered(rng) if lay_sup else dsgcase.gen_sel(rng, max_nodes=7, max_choices=3, n_incompat=0)
            sup['incompat'] = []
            if not dsgcase.guards(sup) and 'prederive' not in sup:
                break
        src.pop('prederive', None)
        sup.pop('prederive', None)
        maps = []
        src_plain = list(range(src['n']))
        for sc in sup['sel']:
            opts = dsgcase._default_order(sc['options'])
            if rng.random() < 0.6 and src['sel']:
                multi = [c_ for c_ in src['sel'] if len(set(c_['options'])) >= 2]
                ssc = rng.choice(multi) if multi and rng.random() < 0.97 else rng.choice(src['sel'])
                tbl = [[o, rng.choice(opts)] for o in dsgcase._default_order(ssc['options'])]
                r = rng.random()
                if r < 0.75:
                    tbl.append([None, rng.choice(opts)])
                if rng.random() < 0.06 and len(tbl) > 1:
                    tbl.pop(0)                       # an unmapped source option
                maps.append([sc['id'], ['opt', ssc['id'], ssc['origin'], tbl]])
            else:
                keys = rng.sample(src_plain, min(len(src_plain), rng.randint(1, 3)))
                tbl = [[k, rng.choice(opts)] for k in keys]
                dflt = rng.choice(opts) if rng.random() < 0.93 else None
                maps.append([sc['id'], ['exist', tbl, dflt]])
        variant = rng.random()
        if variant < 0.05 and maps:
            maps.pop(rng.randrange(len(maps)))        # unmapped supplementary choice
        elif variant < 0.1 and maps:
            maps.append(list(rng.choice(maps)))       # duplicate mapping
        # the order in which the mappings are registered is free (a nested choice may be registered before its parent)
        reg = list(range(len(maps)))
        if variant >= 0.1 and rng.random() < 0.6:
            rng.shuffle(reg)
        if rng.random() < 0.06:
            # two distinct source nodes with one name (known finding K35: mappings recognise source nodes by their name)
            pool = [o for m in maps if m[1][0] == 'opt' for o, _ in m[1][3] if o is not None] + \
                   [k_ for m in maps if m[1][0] == 'exist' for k_, _ in m[1][1]]
            if pool:
                a_ = rng.choice(pool)
                others_ = [n_ for n_ in range(src['n']) if n_ != a_]
                if others_:
                    b_ = rng.choice(others_)
                    src['names'] = {str(a_): 'SAME', str(b_): 'SAME'}
        cases.append({'src': src, 'sup': sup, 'maps': maps, 'reg': reg, 'nonfinal': rng.random() < 0.05, '_i': i})
    yield 'g-sup', cases


def run_case(case):
    from adsg_core.graph.sup import SupDSG, SupSelChoiceOptionMapping, SupExistenceMapping
    from adsg_core.graph.adsg_nodes import NamedNode
    src, sup, maps = case['src'], case['sup'], case['maps']
    try:
        bs = dsgcase.build(src)
    except Exception as e:
        return {'skip': 'build-src:%s' % type(e).__name__}
    mgs = dsgcase.model_dsg(src, bs.opt_order, getattr(bs, 'cons_opts', None))
    res = run_dsgm([sx(['enum_adm', mgs])])[0]
    if is_model_error(res) or res == 'none':
        return {'fail': {'clause': 'model-error', 'detail': sx(res), 'no_input': True}}
    adm = [({c: o for c, o in s}, sorted(i[1])) for s, i in res[1]]
    tags = ['src-adm=%d' % min(len(adm), 9), 'sup-choices=%d' % len(sup['sel'])]
    if not adm:
        return {'skip': 'no-source-architecture', 'tags': tags}
    # build the supplementary graph
    sg = SupDSG()
    if case.get('_i', 0) % 4 == 1:
        # SupNodes that share a name and differ in their reference only -- also only in the *type* of the reference (1 and '1'
        # are different nodes: identity is name + repr(ref))
        from adsg_core.graph.sup.nodes import SupNode
        refs = [1, '1', None, 'None', 1.5, '1.5', (1, 2), '(1, 2)', 2, '2', True, 'True', 0, '0', 'x', "'x'"]
        snode = {i: SupNode('P%d' % (i // len(refs)), ref=refs[i % len(refs)]) for i in range(sup['n'])}
        tags.append('sup-nodes-with-references')
    else:
        snode = {i: NamedNode('P%02d' % i) for i in range(sup['n'])}
    for i in range(sup['n']):
        sg.add_node(snode[i])
    sg.add_edges([(snode[a], snode[c]) for a, c in sup['edges']])
    for sc in sup['sel']:
        snode[sc['id']] = sg.add_selection_choice('T%02d' % sc['id'], snode[sc['origin']], [snode[o] for o in sc['options']])
    sident = {v: k for k, v in snode.items()}
    sup_order = {sc['id']: [sident[o] for o in sg.get_option_nodes(snode[sc['id']])] for sc in sup['sel']}
    msup = dsgcase.model_dsg(sup, sup_order, None)
    init_error = None
    for cid, m in maps:
        if m[0] == 'opt' and bs.node[m[1]] not in bs.dsg.graph.nodes:
            return {'skip': 'mapped-source-choice-was-resolved-at-initialisation', 'tags': tags}
        if m[0] == 'exist' and any(bs.node[k] not in bs.dsg.graph.nodes for k, _ in m[1]):
            return {'skip': 'mapped-source-node-was-pruned-at-initialisation', 'tags': tags}
    reg = case.get('reg')
    if not reg or sorted(reg) != list(range(len(maps))):
        reg = list(range(len(maps)))
    try:
        for cid, m in [maps[k] for k in reg]:
            if m[0] == 'opt':
                mp = {(None if k is None else bs.node[k]): snode[v] for k, v in m[3]}
                sg.add_mapping(snode[cid], bs.dsg, SupSelChoiceOptionMapping(bs.node[m[1]], mp))
            else:
                mp = {bs.node[k]: snode[v] for k, v in m[1]}
                if m[2] is not None:
                    mp[None] = snode[m[2]]
                sg.add_mapping(snode[cid], bs.dsg, SupExistenceMapping(mp))
        if maps and case.get('_i', 0) % 3 == 0:
            # a copy that is given one more (duplicate) mapping: the graph it was copied from keeps its own mappings
            n_before = len(sg.choice_mappings)
            sg_copy = sg.copy()
            cid0, m0 = maps[0]
            try:
                if m0[0] == 'opt':
                    sg_copy.add_mapping(snode[cid0], bs.dsg, SupSelChoiceOptionMapping(bs.node[m0[1]], {(None if k is None else bs.node[k]): snode[v] for k, v in m0[3]}))
                else:
                    mp0 = {bs.node[k]: snode[v] for k, v in m0[1]}
                    if m0[2] is not None:
                        mp0[None] = snode[m0[2]]
                    sg_copy.add_mapping(snode[cid0], bs.dsg, SupExistenceMapping(mp0))
            except Exception:
                pass
            tags.append('copy-with-extra-mapping')
            if len(sg.choice_mappings) != n_before:
                return {'fail': {'clause': 'mapping-added-to-a-copy-reaches-the-original', 'detail': 'the original had %d mappings, after add_mapping on its copy %d' % (n_before, len(sg.choice_mappings))}, 'tags': tags}
        sgi = sg.set_start_nodes({snode[s] for s in sup['start']})
    except RuntimeError as e:
        init_error = e
    except Exception as e:
        return {'fail': {'clause': 'sup-initialisation-raises:%s' % type(e).__name__, 'detail': '%s: %s' % (type(e).__name__, e)}, 'tags': tags}
    perm = run_dsgm([sx(['permanent', mgs])])[0]
    perm = set(perm[1]) if perm != 'none' and not is_model_error(perm) else set()

    def src_opts(cid):
        return [bs.ident[o] for o in bs.dsg.get_option_nodes(bs.node[cid])]
    # whether a source choice exists conditionally is the implementation's judgement (it also follows choices it resolves
    # automatically); the model decides its soundness: "unconditional" requires the choice node in every architecture
    cond = {}
    for cid, m in maps:
        if m[0] == 'opt':
            cond[m[1]] = bool(bs.dsg.has_conditional_existence(bs.node[m[1]]))
            if not cond[m[1]]:
                r_ = run_dsgm([sx(['in_every_arch', mgs, m[2]])])[0]
                if r_ != ['some', 1]:
                    return {'fail': {'clause': 'conditional-source-choice-judged-unconditional', 'detail': 'source choice %d' % m[1]}, 'tags': tags}
    msx = [[cid, (['opt', m[1], m[2], src_opts(m[1]), cond[m[1]], [['none' if k is None else ['some', k], v] for k, v in m[3]]] if m[0] == 'opt'
                  else ['exist', [[k, v] for k, v in m[1]], 'none' if m[2] is None else ['some', m[2]]])] for cid, m in maps]
    # when a source choice is pruned from the initialised source graph the mapping refers to a node that is not there:
    # outside the scope (the generator keeps to source choices; a pruned one is skipped)
    queries, impl = [], []
    nt = False
    for sigma, inst in adm[:8]:
        g = bs.dsg
        ok = True
        while True:
            off = [c for c in g.get_ordered_next_choice_nodes() if c in g.graph.nodes]
            if not off:
                break
            c = off[0]
            if bs.ident[c] not in sigma:
                ok = False
                break
            g = g.get_for_apply_selection_choice(c, bs.node[sigma[bs.ident[c]]])
        if not ok or sorted(bs.ident[n] for n in g.graph.nodes) != inst or not g.final or not g.feasible:
            tags.append('source-resolution-diverged')
            continue
        src_in = g
        if case.get('nonfinal'):
            src_in = bs.dsg
        if init_error is not None:
            out = 'none'
        else:
            try:
                r = sgi.resolve(src_in)
                out = ['some', sorted(sident[n] for n in r.graph.nodes), bool(r.final)]
            except RuntimeError:
                out = 'none'
            except Exception as e:
                return {'fail': {'clause': 'resolve-raises:%s' % type(e).__name__, 'detail': 'sigma %s: %s: %s' % (sigma, type(e).__name__, e)}, 'tags': tags}
        if case.get('nonfinal') and not bs.dsg.final:
            if out != 'none':
                return {'fail': {'clause': 'non-final-source-accepted', 'detail': 'sigma %s' % (sigma,)}, 'tags': tags}
            tags.append('nonfinal-rejected')
            continue
        queries.append(sx(['sup_resolve', msup, msx, inst, [[c, o] for c, o in sorted(sigma.items())]]))
        impl.append({'sigma': sorted(sigma.items()), 'out': out})
        nt = nt or (len(adm) >= 2 and any(len(sc['options']) >= 2 for sc in sup['sel']))
    tags.append('init-error' if init_error is not None else 'init-ok')
    return {'queries': queries, 'impl': impl, 'nontrivial': nt, 'tags': tags}


def compare(case, r, ms):
    for im, m in zip(r['impl'], ms):
        if m == 'none':
            if im['out'] != 'none':
                return {'clause': 'rejected-by-model-but-resolved', 'detail': 'sigma %s impl %s' % (im['sigma'], im['out'])}
            continue
        if im['out'] == 'none':
            return {'clause': 'resolve-fails-on-complete-mapping', 'detail': 'sigma %s model %s' % (im['sigma'], m)}
        want = sorted(m[1][1])
        if im['out'][1] != want or not im['out'][2]:
            return {'clause': 'resolved-instance-differs', 'detail': 'sigma %s impl %s final %s model %s (taken %s)' % (im['sigma'], im['out'][1], im['out'][2], want, m[1][0])}
    return None


def _origin_also_derives_option(case):
    src = case['src']
    edges = {tuple(e) for e in src['edges']}
    sel = {sc['id']: sc for sc in src['sel']}
    for cid, m in case['maps']:
        if m[0] == 'opt' and m[1] in sel:
            sc = sel[m[1]]
            if any((sc['origin'], o) in edges for o in sc['options']):
                return True
    return False


K35_CLAUSES = ('resolved-instance-differs', 'resolve-fails-on-complete-mapping', 'rejected-by-model-but-resolved', 'sup-initialisation-raises:KeyError', 'resolve-raises:KeyError', 'resolve-raises:NetworkXError')


def match_known(case, fail, known):
    for k in known:
        if k.get('id') == 'K35' and case['src'].get('names') and fail.get('clause') in K35_CLAUSES:
            return k
        if k.get('id') == 'K27' and fail.get('clause') == 'resolve-fails-on-complete-mapping' and _origin_also_derives_option(case):
            return k
    return None
