"""C11 — connection choices respect connectors in every existence scenario (graph API vs conn_sets / edges_valid)."""
from common import rng_for
import dsgcase, conndrive

ID = 'C11'
RULE = ('G-conn: selection-choice graphs (outside the known-finding classes) with 1-2 connection choices over 1-2 source and 1-3 '
        'target entries, each a connector hung below a permanent or conditional node or a grouping node over 2-3 such connectors, '
        'degree specs from a 9-spec alphabet with/without repeated connections, 0-1 exclusion edges; for every admissible '
        'assignment (<= 8) the selection choices are resolved through the graph API and, per connection choice, iter_conn_edges '
        '= conn_sets (proved = images of ValidM for the present connectors), validate_conn_edges = edges_valid on offered and '
        'perturbed edge lists, and applying a set yields exactly those CONNECTS edges with the choice node gone; non-trivial = '
        'a scenario with at least 2 connection sets; distinct = distinct graph; a second batch builds GraphProcessor (automatic encoder selection) and compares the architectures reached through get_all_discrete_x + get_graph (nodes + CONNECTS edges) with the model: admissible assignment x one valid set per connection choice, one row each')
TRUSTED = ['connector order does not matter: edge sets are compared by node ids']
PARTIAL = ['DSG.feasible of scenario graphs is compared in one direction only (a connectable scenario must not be reported infeasible)']


def batches(tier, seed):
    rng = rng_for(seed, 'C11')
    n = 120 if tier == 'quick' else 2000
    cases = []
    for i in range(n):
        for _try in range(60):
            c = dsgcase.gen_sel(rng, max_nodes=8, max_choices=3, n_incompat=rng.choice([0, 0, 1]))
            if not dsgcase.guards(c):
                break
        c = conndrive.add_connection(rng, c, n_choices=1 if rng.random() < 0.8 else 2)
        c['_i'] = i
        cases.append(c)
    yield 'g-conn', cases
    pc = []
    for i in range(140 if tier == 'quick' else 1500):
        for _try in range(60):
            c = dsgcase.gen_sel(rng, max_nodes=6, max_choices=2, n_incompat=0)
            if not dsgcase.guards(c):
                break
        # half of the cases keep every connector on a permanent node (outside the known-finding classes K24/K25, where any
        # mismatch is a new violation); one in three has two connection choices
        c = conndrive.add_connection(rng, c, n_choices=2 if i % 3 == 2 else 1, group_prob=0.0 if i % 4 else 0.25,
                                     permanent_only=(i % 2 == 0))
        c['_i'] = i
        c['_proc'] = True
        pc.append(c)
    yield 'g-conn-processor', pc
    # the aggregated degree of a grouping connector as a pure function of its present members
    gc = []
    for i in range(120 if tier == 'quick' else 1500):
        ms = [[list(rng.choice(conndrive.SPECS + [['range', 2, 4], ['min', 3], ['list', [0]], ['list', [0, 1, 4]]])), rng.random() < 0.35]
              for _ in range(rng.choice([0, 1, 2, 2, 3, 3, 4]))]
        gc.append({'_grp': True, 'members': ms, '_i': i})
    yield 'grouping-degree', gc
    # grouping entries with an open-ended member and a member of minimum degree >= 1 that exists only in some scenarios: the
    # aggregated minimum must be that of the members present (seeded change C11-group-minimum-from-absent-member)
    gp_ = []
    for i in range(24 if tier == 'quick' else 400):
        c = None
        for _try in range(300):
            c0 = dsgcase.gen_sel(rng, max_nodes=6, max_choices=2, n_incompat=0)
            if dsgcase.guards(c0):
                continue
            c1 = conndrive.add_connection(rng, c0, n_choices=1, group_prob=0.6, permanent_only=False)
            if _group_open_with_conditional_min(c1):
                c = c1
                break
        if c is None:
            continue
        c['_i'] = i
        c['_proc'] = True
        gp_.append(c)
    yield 'g-group-conditional-processor', gp_


def _run_grouping(case):
    import math
    from common import sx
    from adsg_core.graph.adsg_nodes import ConnectorNode, ConnectorDegreeGroupingNode
    ms = case['members']
    nodes = [ConnectorNode('m%d' % k, deg_spec=dsgcase._degspec_py(d), repeated_allowed=bool(rep)) for k, (d, rep) in enumerate(ms)]
    try:
        dl, dmin, dmax = ConnectorDegreeGroupingNode.get_combined_deg(nodes)
        rep = bool(ConnectorDegreeGroupingNode.get_repeated_allowed(nodes))
    except Exception as e:
        if not ms:
            return {'skip': 'no-members', 'tags': ['grp']}
        return {'fail': {'clause': 'combined-degree-raises:%s' % type(e).__name__, 'detail': '%s: %s' % (ms, e)}, 'tags': ['grp']}
    impl = [None if dl is None else sorted(int(x) for x in dl), None if dl is not None else int(dmin), rep]
    if dl is None and dmax != math.inf:
        return {'fail': {'clause': 'combined-degree-open-with-finite-max', 'detail': '%s -> %s' % (ms, (dl, dmin, dmax))}, 'tags': ['grp']}
    return {'queries': [sx(['combined', [conndrive.spec_sx(d, rep_) for d, rep_ in ms]])], 'impl': {'grp': impl},
            'nontrivial': len(ms) >= 2, 'tags': ['grp', 'members=%d' % len(ms)]}


def run_case(case):
    if case.get('_grp'):
        return _run_grouping(case)
    c = {k: v for k, v in case.items() if not k.startswith('_')}
    if case.get('_proc'):
        return conndrive.explore_processor(c, seed=case.get('_i', 0))
    return conndrive.explore(c, seed=case.get('_i', 0))


def compare(case, r, ms):
    if case.get('_grp'):
        m = ms[0]
        lst = None if m[0] == 'none' else sorted(int(x) for x in m[0][1])
        want = [lst, None if lst is not None else int(m[1]), bool(m[2])]
        if want != r['impl']['grp']:
            return {'clause': 'combined-degree-differs-from-model', 'detail': '%s: implementation %s model %s' % (case['members'], r['impl']['grp'], want)}
    return None


def shrink_candidates(case):
    # drop exclusions, target entries, incompatibilities, options
    for k, cc in enumerate(case.get('conn', [])):
        if cc.get('excl'):
            cc2 = dict(cc, excl=[])
            yield dict(case, conn=case['conn'][:k] + [cc2] + case['conn'][k + 1:])
        for side in ('src', 'tgt'):
            if len(cc[side]) > 1:
                for j in range(len(cc[side])):
                    e = cc[side][j]
                    t = e if isinstance(e, int) else e[0]
                    cc2 = dict(cc)
                    cc2[side] = cc[side][:j] + cc[side][j + 1:]
                    cc2['excl'] = [p for p in cc.get('excl', []) if t not in p]
                    yield dict(case, conn=case['conn'][:k] + [cc2] + case['conn'][k + 1:])
    if len(case.get('conn', [])) > 1:
        for k in range(len(case['conn'])):
            yield dict(case, conn=case['conn'][:k] + case['conn'][k + 1:])
    for k in range(len(case.get('incompat', []))):
        yield dict(case, incompat=case['incompat'][:k] + case['incompat'][k + 1:])


def _group_with_open_member(case):
    kinds = case.get('kinds', {})
    for cc in case.get('conn', []):
        for e in cc['src'] + cc['tgt']:
            if not isinstance(e, int) and any(kinds.get(str(m), [None, [None]])[1][0] == 'min' for m in e[1]):
                return True
    return False


def _spec_min(spec):
    return spec[1] if spec[0] in ('min', 'range') else (min(spec[1]) if spec[1] else 0)


def _group_open_with_conditional_min(case):
    kinds = case.get('kinds', {})
    permanent = dsgcase.py_closure({k: v for k, v in case.items() if k != 'conn'}, {})
    for cc in case.get('conn', []):
        for e in cc['src'] + cc['tgt']:
            if isinstance(e, int):
                continue
            specs = [(m, kinds[str(m)][1]) for m in e[1]]
            if any(sp[0] == 'min' and m in permanent for m, sp in specs) and any(m not in permanent and _spec_min(sp) >= 1 for m, sp in specs):
                return True
    return False


def _only_extra(fail):
    """K23 is about architectures the implementation has *in addition* (more parallel connections than the scenario graph
    accepts); a model architecture the implementation lacks is not that finding (seeded change C11-group-minimum-from-absent-member)"""
    import re
    cl, det = fail.get('clause') or '', fail.get('detail') or ''
    if cl == 'architectures-differ':
        return 'missing [] extra' in det
    if cl == 'n-valid-designs-differs':
        m = re.search(r'impl (\d+) model (\d+)', det)
        return bool(m) and int(m.group(1)) > int(m.group(2))
    return True


def _group_repeat_depends_on_presence(case):
    """K34 guard: a grouping entry with members of both kinds (parallel connections allowed / not allowed) of which a member
    that allows them exists only conditionally"""
    kinds = case.get('kinds', {})
    permanent = dsgcase.py_closure({k: v for k, v in case.items() if k != 'conn'}, {})
    for cc in case.get('conn', []):
        for e in cc['src'] + cc['tgt']:
            if isinstance(e, int):
                continue
            reps = [bool(kinds.get(str(m), [None, None, False])[2]) for m in e[1]]
            if any(reps) and not all(reps) and any(r and m not in permanent for r, m in zip(reps, e[1])):
                return True
    return False


def match_known(case, fail, known):
    if case.get('_grp'):
        return None
    for k in known:
        if k.get('id') == 'K22' and (fail.get('clause') or '').startswith('decode-raises:RuntimeError') and 'should never (automatically) impute' in (fail.get('detail') or ''):
            return k
        if case.get('_proc'):
            cl = fail.get('clause') or ''
            det = fail.get('detail') or ''
            if k.get('id') == 'K5' and cl.startswith('processor-raises:RuntimeError') and 'at least 2 options' in det:
                return k
            if k.get('id') == 'K24' and cl.startswith('decode-raises:ValueError') and 'Node not part of connection choice' in det:
                return k
            if k.get('id') == 'K25' and cl in ('two-rows-one-architecture', 'architectures-differ', 'n-valid-designs-differs', 'enumerated-row-does-not-decode-to-itself') and '[connectors=conditional]' in det:
                return k
            if k.get('id') == 'K26' and cl.startswith('processor-raises:ValueError') and 'max() iterable argument is empty' in det:
                return k
        if k.get('id') == 'K33' and (fail.get('clause') or '').startswith('processor-raises:ValueError') and \
                'not feasible to begin with' in (fail.get('detail') or '') and dsgcase.orphan_required_connector(case):
            return k
        if k.get('id') == 'K36' and (fail.get('clause') or '').startswith('processor-raises:ValueError') and \
                'max() iterable argument is empty' in (fail.get('detail') or '') and _group_with_open_member(case):
            return k
        if k.get('id') == 'K34' and case.get('_proc') and (fail.get('clause') or '') in ('architectures-differ', 'two-rows-one-architecture', 'n-valid-designs-differs', 'decoded-architecture-not-in-model') and \
                _group_repeat_depends_on_presence(case):
            return k
        if k.get('id') == 'K23' and fail.get('clause') in ('architectures-differ', 'n-valid-designs-differs', 'two-rows-one-architecture') and \
                _group_with_open_member(case) and _only_extra(fail):
            return k
    return dsgcase.match_known({k: v for k, v in case.items() if k != 'conn'}, fail, known)
