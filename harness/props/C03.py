"""C03 — the corrected design vector is a canonical fixed point describing the instance."""
from props import _proc, C02 as _c02
import dsgcase

ID = 'C03'
CLAUSES = {'corrected-vector-out-of-range', 'decode-not-idempotent', 'corrected-vector-does-not-describe-the-instance',
           'same-corrected-vector-different-instance', 'two-corrected-vectors-one-architecture'}
RULE = ('as C01 (G-sel + design-variable nodes x both encoders x declared space): the corrected vector must be in range, '
        'decode(decode(x).x) must reproduce vector, activeness and instance, decode_witness(full) must hold (every active '
        'selection variable holds the index of the option wired to the originating node, design-variable nodes carry the '
        'reported values), and two different corrected vectors must never denote one architecture; non-trivial = at least 2 '
        'valid rows; distinct = graph+encoder')
TRUSTED = ['the encoding description E is read from GraphProcessor.all_des_vars']
RULE += ('; second batch: graphs with 1-2 connection choices through GraphProcessor: every enumerated row decodes to itself, a '
         'second decode of a row on the same processor gives the same architecture (node set + connection edges), and for 25 '
         'random vectors per encoder the corrected vector is a fixed point with the same architecture')
PARTIAL = ['for connection variables "describes the instance" is checked through the fixed point and the architecture, not by '
           'reading the matrix back from the variables']
CONN_CLAUSES = ('enumerated-row-does-not-decode-to-itself', 'corrected-vector-not-a-fixed-point', 'second-decode-gives-another-architecture',
                'two-rows-one-architecture')
RULE += ('; third batch: one connection choice at the level of its assignment manager (every registered encoder family, the '
         'amount-first encoders with three nodes on a side): two different vectors that are both fixed points of the decode '
         'never give the same connection matrix')
_base_batches = _proc.add_conn_batch(_proc.make_batches('C03', ['complete', 'fast'], 1200, 6000, cons_prob=0.25), 'C03')
_base_run = _proc.wrap_run_case(_proc.make_run_case(CLAUSES), CONN_CLAUSES)


def batches(tier, seed):
    from props import C10
    for b_ in _base_batches(tier, seed):
        yield b_
    enc = []
    for name, cases in C10.batches(tier, seed + 977):
        if name == 'corpus':
            continue
        keep = cases if name.startswith('three-nodes') else cases[:60 if tier == 'quick' else 600]
        for c in keep:
            enc.append(dict(c, _converse=True, _enc=True))
    yield 'connection-encoders-fixed-points', enc


def run_case(case):
    if not case.get('_enc'):
        return _base_run(case)
    from props import C10
    r = C10.run_case(case)
    f = r.get('fail')
    if f is not None and f.get('clause') != 'two-corrected-vectors-one-matrix':
        # everything else the encoder check finds is C10's business
        r = {'skip': 'encoder-failure-of-another-property:' + f['clause'].split(':')[0], 'tags': r.get('tags', [])}
    elif f is None:
        r = dict(r, queries=[], impl={'enc': True})
    return r


def compare(case, r, ms):
    if case.get('_enc'):
        return None
    return _proc.compare(case, r, ms)


_base_shrink = _proc.wrap_shrink(_proc.shrink_candidates)
_base_match = _proc.wrap_match_known(dsgcase.match_known)


def shrink_candidates(case):
    if case.get('_enc'):
        import matcase
        return (dict(c, **{k: v for k, v in case.items() if k.startswith('_')}) for c in matcase.shrink({k: v for k, v in case.items() if not k.startswith('_')}))
    return _base_shrink(case)


def match_known(case, fail, known):
    if case.get('_enc'):
        return None
    return _base_match(case, fail, known)
