"""C03 — the corrected design vector is a canonical fixed point describing the instance."""
from props import _proc, C02 as _c02
import dsgcase

ID = 'C03'
CLAUSES = {'corrected-vector-out-of-range', 'decode-not-idempotent', 'corrected-vector-does-not-describe-the-instance',
           'same-corrected-vector-different-instance', 'two-corrected-vectors-one-architecture'}
RULE = ('as C01 (G-sel + design-variable nodes x both encoders x declared space): the corrected vector must be in range, '
        'decode(decode(x).x) must reproduce vector, activeness and instance, decode_witness(full) must hold (every active '
        'selection variable holds the index of the option wired to the originating node, design-variable nodes carry the '
        'reported values), and two different corrected vectors must never denote one architecture; non-trivial = at least 2 '
        'valid rows; distinct = graph+encoder')
TRUSTED = ['the encoding description E is read from GraphProcessor.all_des_vars']
RULE += ('; second batch: graphs with 1-2 connection choices through GraphProcessor: every enumerated row decodes to itself, a '
         'second decode of a row on the same processor gives the same architecture (node set + connection edges), and for 25 '
         'random vectors per encoder the corrected vector is a fixed point with the same architecture')
PARTIAL = ['for connection variables "describes the instance" is checked through the fixed point and the architecture, not by '
           'reading the matrix back from the variables']
CONN_CLAUSES = ('enumerated-row-does-not-decode-to-itself', 'corrected-vector-not-a-fixed-point', 'second-decode-gives-another-architecture',
                'two-rows-one-architecture')
batches = _proc.add_conn_batch(_proc.make_batches('C03', ['complete', 'fast'], 1200, 6000, cons_prob=0.25), 'C03')
run_case = _proc.wrap_run_case(_proc.make_run_case(CLAUSES), CONN_CLAUSES)
compare = _proc.compare
shrink_candidates = _proc.wrap_shrink(_proc.shrink_candidates)
match_known = _proc.wrap_match_known(dsgcase.match_known)
