"""C03 — the corrected design vector is a canonical fixed point describing the instance."""
from props import _proc, C02 as _c02
import dsgcase

ID = 'C03'
CLAUSES = {'corrected-vector-out-of-range', 'decode-not-idempotent', 'corrected-vector-does-not-describe-the-instance',
           'same-corrected-vector-different-instance', 'two-corrected-vectors-one-architecture'}
RULE = ('as C01 (G-sel + design-variable nodes x both encoders x declared space): the corrected vector must be in range, '
        'decode(decode(x).x) must reproduce vector, activeness and instance, decode_witness(full) must hold (every active '
        'selection variable holds the index of the option wired to the originating node, design-variable nodes carry the '
        'reported values), and two different corrected vectors must never denote one architecture; non-trivial = at least 2 '
        'valid rows; distinct = graph+encoder')
TRUSTED = ['the encoding description E is read from GraphProcessor.all_des_vars']
PARTIAL = ['connection variables are covered by C10/C11 machinery']
batches = _proc.make_batches('C03', ['complete', 'fast'], 1200, 6000, cons_prob=0.25)
run_case = _proc.make_run_case(CLAUSES)
compare = _proc.compare
shrink_candidates = _proc.shrink_candidates
match_known = dsgcase.match_known
