"""C15 — fixing restricts the design space exactly; freeing restores it (histories of fix/free vs the model's restriction)."""
from props import _ops
import dsgcase

ID = 'C15'
CLAUSES = {'fixed-rows-are-not-the-restriction-of-the-unfixed-rows', 'free-does-not-restore', 'fix-accepts-out-of-range-value',
           'rejected-fix-changed-state', 'fixed-value-not-recorded', 'fixed-variable-still-in-design-vector',
           'decode-differs-from-fresh-processor', 'statistics-differ-from-fresh-processor', 'enumeration-differs-from-fresh-processor',
           'operation-raises'}
RULE = ('as C05, histories biased to fix/free: get_all_discrete_x under fixed values must equal restrict_rows (proved: subset / '
        'keeps / drops / count) applied to the unfixed enumeration for every fixed variable; des_vars must lose the fixed '
        'variable; counts and decodes must equal those of a fresh processor with the same fixed values; out-of-range values '
        'must be rejected with ValueError and leave the state unchanged; after freeing everything rows and decodes must equal '
        'the original ones; non-trivial = history of at least 2 executed operations')
TRUSTED = ['rows are compared in -1 form (inactive entries), continuous entries as 0']
PARTIAL = ['fixing connection-choice variables (must be rejected) is covered with the connection machinery']
batches = _ops.make_batches('C15', 600, 6000, n_ops=(8, 14))
run_case = _ops.make_run_case(CLAUSES)
compare = _ops.compare
shrink_candidates = _ops.shrink_candidates
match_known = dsgcase.match_known
