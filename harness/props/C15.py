"""C15 — fixing restricts the design space exactly; freeing restores it (histories of fix/free vs the model's restriction)."""
from props import _ops, _proc
import dsgcase

ID = 'C15'
CLAUSES = {'imputation-ratio-is-not-the-quotient', 'fast-decode-differs-from-model', 'fixed-value-not-respected', 'corrected-vector-out-of-range', 'fixed-rows-are-not-the-restriction-of-the-unfixed-rows', 'free-does-not-restore', 'fix-accepts-out-of-range-value',
           'rejected-fix-changed-state', 'fixed-value-not-recorded', 'fixed-variable-still-in-design-vector',
           'decode-differs-from-fresh-processor', 'statistics-differ-from-fresh-processor', 'enumeration-differs-from-fresh-processor',
           'operation-raises'}
RULE = ('as C05, histories biased to fix/free: get_all_discrete_x under fixed values must equal restrict_rows (proved: subset / '
        'keeps / drops / count) applied to the unfixed enumeration for every fixed variable; des_vars must lose the fixed '
        'variable; counts and decodes must equal those of a fresh processor with the same fixed values; out-of-range values '
        'must be rejected with ValueError and leave the state unchanged; after freeing everything rows and decodes must equal '
        'the original ones; non-trivial = history of at least 2 executed operations')
TRUSTED = ['rows are compared in -1 form (inactive entries), continuous entries as 0']
RULE += ('; second batch: processors over graphs with 1-2 connection choices: fixing a connection-choice variable must be rejected '
         'and leave des_vars / fixed_values unchanged, decodes under one fixed selection variable stay architectures of the model, '
         'and after freeing the enumerated rows decode to what they decoded to before')
PARTIAL = ['statistics under fixed values (imputation ratio, design-space counts) are compared with a fresh processor holding the same '
           'fixed values, not with a model of their definition']
CONN_CLAUSES = ('rejected-fix-changes-the-problem', 'fix-or-free-raises', 'decode-after-free-gives-another-architecture')
batches = _proc.add_conn_batch(_ops.make_batches('C15', 600, 6000, n_ops=(8, 14)), 'C15')
run_case = _proc.wrap_run_case(_ops.make_run_case(CLAUSES), CONN_CLAUSES)
compare = _ops.compare
shrink_candidates = _proc.wrap_shrink(_ops.shrink_candidates)
match_known = _proc.wrap_match_known(dsgcase.match_known)
