"""C18 — identity, equality and serialization of graphs are structural and stable."""
import os, sys, json, pickle, subprocess
from common import sx, rng_for, VERIF
import dsgcase, procdrive

ID = 'C18'
RULE = ('G-sel graphs (with design-variable nodes): copy must be == with equal hash; single structural edits on a copy (added node+edge, '
        'removed node, removed edge, other start-node set, added choice constraint) must make it unequal — decided by the extracted '
        'same_graph on the structural description read back from both objects; pickle round trips of graph and processor must keep '
        'fingerprint / is_same, design variables and decode results; a graph rebuilt in another interpreter with another '
        'PYTHONHASHSEED must give the same design variables and decode results (subset of cases); GML/DOT exports must contain every '
        'node and edge; non-trivial = at least one selection choice; distinct = graph')
TRUSTED = ['the structural description (node ids, edge codes, start nodes, constraint identities) is read back from the live objects',
           'Python pickle and hash() are runtime behaviour; the subprocess runs test them']
PARTIAL = ['what pickle and hash really do is outside the model; the theorems assume a hash that is a function of the structural key']


def batches(tier, seed):
    rng = rng_for(seed, 'C18')
    n = 200 if tier == 'quick' else 2500
    cases = []
    for i in range(n):
        for _try in range(60):
            if i % 3 == 2:
                c = dsgcase.gen_layered(rng, cons_prob=0.6)      # nested choices, prior choice constraints
            else:
                c = dsgcase.gen_sel(rng, max_nodes=9, max_choices=3, n_incompat=rng.choice([0, 0, 1, 2, 3, 4]))
            if not dsgcase.guards(c):
                break
        c = procdrive.decorate(rng, c, n_dv=(0, 2))
        c['_i'] = i
        c['_subproc'] = (i % (20 if tier == 'quick' else 50) == 0)
        cases.append(c)
    yield 'g-sel', cases


def describe(b, g, extra_ids):
    """structural description of a live DSG in integer form"""
    from adsg_core.graph.graph_edges import get_edge_type

    def nid(n):
        if n in b.ident:
            return b.ident[n]
        if n not in extra_ids:
            extra_ids[n] = 900 + len(extra_ids)
        return extra_ids[n]
    nodes = sorted(nid(n) for n in g.graph.nodes)
    edges = []
    for e in g.graph.edges(keys=True, data=True):
        t = get_edge_type(e)
        key = e[2] if isinstance(e[2], int) else 7
        edges.append(((nid(e[0]) * 1000 + nid(e[1])) * 10 + key % 10) * 10 + (t.value if t is not None else 0))
    start = sorted(nid(n) for n in (g.derivation_start_nodes or []))
    cons = [k + 1 for k, _ in enumerate(g.get_choice_constraints())]
    return [nodes, sorted(edges), start, cons]


def run_case(case):
    from adsg_core.graph.adsg_nodes import NamedNode, SelectionChoiceNode
    from adsg_core.graph.choice_constraints import ChoiceConstraintType
    from adsg_core.optimization.graph_processor import GraphProcessor
    from adsg_core.optimization.hierarchy import SelChoiceEncoderType
    c = {k: v for k, v in case.items() if not k.startswith('_')}
    rng = rng_for(case.get('_i', 0), 'C18case')
    try:
        b = dsgcase.build(c)
    except Exception as e:
        return {'skip': 'build:%s' % type(e).__name__}
    g = b.dsg
    extra = {}
    base = describe(b, g, extra)
    queries, impl = [], []
    tags = []

    def pair(name, g2):
        queries.append(sx(['same_graph', describe(b, g2, extra), base]))
        impl.append([name, bool(g2 == g), hash(g2) == hash(g)])
        tags.append('edit:' + name)
    pair('copy', g.copy())
    g2 = g.copy()
    g2.add_edges([(list(g.graph.nodes)[0], NamedNode('fresh'))])
    pair('add-node-edge', g2)
    plain = [n for n in g.graph.nodes if not isinstance(n, SelectionChoiceNode)]
    if len(plain) > 1:
        pair('remove-node', g.get_for_adjusted(removed_nodes=[rng.choice(plain[1:])]))
    es = list(g.graph.edges(keys=True, data=True))
    if es:
        pair('remove-edge', g.get_for_adjusted(removed_edges=[rng.choice(es)]))
        e = rng.choice(es)
        from adsg_core.graph.graph_edges import get_edge
        pair('add-parallel-edge', g.get_for_adjusted(added_edges=[get_edge(e[0], e[1], key=5)]))
        # a copy keeps the edge keys: after the lower-keyed one of two parallel edges was removed, copy and original are equal
        ints = [x for x in es if isinstance(x[2], int)]
        if ints:
            e2 = rng.choice(ints)
            g_par = g.get_for_adjusted(added_edges=[get_edge(e2[0], e2[1], key=e2[2] + 1)])
            g_rem = g_par.get_for_adjusted(removed_edges=[e2])
            g_cp = g_rem.copy()
            queries.append(sx(['same_graph', describe(b, g_cp, extra), describe(b, g_rem, extra)]))
            impl.append(['copy-after-removing-lower-keyed-parallel-edge', bool(g_cp == g_rem), hash(g_cp) == hash(g_rem)])
            tags.append('edit:copy-after-parallel-removal')
    others = [n for n in plain if n not in (g.derivation_start_nodes or set())]
    if others:
        g5 = g.copy()
        g5._start_nodes = set(g.derivation_start_nodes) | {others[0]}
        pair('other-start-nodes', g5)
    chs = [n for n in g.graph.nodes if isinstance(n, SelectionChoiceNode)]
    chs = sorted((n for n in chs if g.is_constrained_choice(n) is None), key=lambda n: b.ident[n])
    if len(chs) >= 2:
        try:
            g6 = g.copy()
            g6 = g6.constrain_choices(ChoiceConstraintType.LINKED, chs[:2], remove_infeasible_choices=False)
            pair('add-constraint', g6)
        except Exception:
            pass
    # an in-place edit after the graph was hashed / compared before (a memoised hash must not survive the edit): connectors
    # are hung below the first node, the graph is hashed, then a connection choice is added between them
    try:
        from adsg_core.graph.adsg_nodes import ConnectorNode
        g8 = g.copy()
        host = list(g.graph.nodes)[0]
        cs, ct = ConnectorNode('CS', deg_list=[0, 1]), ConnectorNode('CT', deg_list=[0, 1])
        g8.add_edges([(host, cs), (host, ct)])
        g8_pre = g8.copy()
        _ = hash(g8), g8 == g8_pre
        g8.add_connection_choice('XNEW', [cs], [ct])
        queries.append(sx(['same_graph', describe(b, g8, extra), describe(b, g8_pre, extra)]))
        impl.append(['add-connection-choice-after-hashing', bool(g8 == g8_pre), hash(g8) == hash(g8_pre)])
        tags.append('edit:add-connection-choice-after-hashing')
    except Exception as e:
        tags.append('add-connection-choice-raises:%s' % type(e).__name__)
    # pickle round trip of the graph
    fails = []
    # the same description built again (fresh node objects): recognised as the same graph, same fingerprint
    try:
        b2 = dsgcase.build(c)
        if not b2.dsg.is_same(g) or b2.dsg.fingerprint() != g.fingerprint():
            fails.append({'clause': 'rebuilt-graph-not-recognised-as-same', 'detail': 'is_same %s, fingerprints equal %s' % (b2.dsg.is_same(g), b2.dsg.fingerprint() == g.fingerprint())})
        tags.append('rebuild')
    except Exception as e:
        fails.append({'clause': 'rebuild-raises:%s' % type(e).__name__, 'detail': str(e)[:200]})
    g7 = pickle.loads(pickle.dumps(g))
    if not g7.is_same(g) or g7.fingerprint() != g.fingerprint():
        fails.append({'clause': 'pickled-graph-not-recognised-as-same', 'detail': ''})
    if g2.is_same(g):
        fails.append({'clause': 'is-same-accepts-edited-graph', 'detail': 'added node and edge'})
    # exports contain every node and edge
    try:
        gml = g.export_gml()
        import re as _re
        n_nodes, n_edges = len(_re.findall(r'^\s*node \[', gml, _re.M)), len(_re.findall(r'^\s*edge \[', gml, _re.M))
        if n_nodes != len(g.graph.nodes) or n_edges != len(g.graph.edges):
            fails.append({'clause': 'gml-export-incomplete', 'detail': '%d/%d nodes %d/%d edges' % (n_nodes, len(g.graph.nodes), n_edges, len(g.graph.edges))})
        # DOT: every node that has an edge and every edge must be drawn (nodes are recognised by their titles; the export is a
        # strict digraph, so parallel edges fall together; an incompatibility, stored in both directions, is drawn once)
        from adsg_core.graph.graph_edges import EdgeType as _ET, get_edge_type as _get
        dot = g.export_dot()
        all_edges = list(g.graph.edges(keys=True, data=True))
        with_edge = []
        for e in all_edges:
            for n_ in e[:2]:
                if n_ not in with_edge:
                    with_edge.append(n_)
        titles = [str(n_.get_export_title()) for n_ in with_edge]
        if len(set(titles)) == len(titles):
            ids = {}
            for m_ in _re.finditer(r'^\s*(\d+)\s*\[label=(?:<<B>(.*?)</B>>|"(.*?)")', dot, _re.M):
                ids.setdefault(m_.group(2) if m_.group(2) is not None else m_.group(3), []).append(m_.group(1))
            drawn = {(m_.group(1), m_.group(2)) for m_ in _re.finditer(r'^\s*(\d+)\s*->\s*(\d+)', dot, _re.M)}
            missing_nodes = [t for t in titles if len(ids.get(t, [])) != 1]
            if missing_nodes:
                fails.append({'clause': 'dot-export-incomplete', 'detail': 'nodes not drawn exactly once: %s' % missing_nodes[:5]})
            else:
                tid = {n_: ids[t][0] for n_, t in zip(with_edge, titles)}
                for e in all_edges:
                    s_, t_ = tid[e[0]], tid[e[1]]
                    ok_ = (s_, t_) in drawn or (_get(e) == _ET.INCOMPATIBILITY and (t_, s_) in drawn)
                    if not ok_:
                        fails.append({'clause': 'dot-export-incomplete', 'detail': '%s edge %s -> %s is not drawn' % (_get(e).name, e[0], e[1])})
                        break
    except Exception as e:
        fails.append({'clause': 'export-raises:%s' % type(e).__name__, 'detail': str(e)[:200]})
    # processor: pickle round trip keeps variables and decodes; another interpreter with another hash seed as well
    try:
        gp = GraphProcessor(g, encoder_type=SelChoiceEncoderType.COMPLETE)
        E, _ = procdrive.encoding_of(b, gp)
        vecs, _ = procdrive.vectors_for(rng, E, 4)
        dvs = [[dv.name, dv.n_opts, None if dv.bounds is None else [float(x) for x in dv.bounds]] for dv in gp.des_vars]
        dec = []
        for x in vecs:
            inst, x2, act = gp.get_graph(list(x))
            nodes, dvv = procdrive.observe_instance(b, inst)
            dec.append([[float(v) for v in x2], [bool(a) for a in act], nodes, [[n, float(v)] for n, v in dvv]])
        gp2 = pickle.loads(pickle.dumps(gp))
        dvs2 = [[dv.name, dv.n_opts, None if dv.bounds is None else [float(x) for x in dv.bounds]] for dv in gp2.des_vars]
        if dvs2 != dvs:
            fails.append({'clause': 'pickled-processor-design-variables-differ', 'detail': '%s vs %s' % (dvs, dvs2)})
        ident2 = {str(n): i for n, i in b.ident.items()}
        for x, d in zip(vecs, dec):
            inst, x2, act = gp2.get_graph(list(x))
            nodes2 = sorted(ident2[str(n)] for n in inst.graph.nodes)
            if [float(v) for v in x2] != d[0] or [bool(a) for a in act] != d[1] or nodes2 != d[2]:
                fails.append({'clause': 'pickled-processor-decodes-differently', 'detail': 'x=%s' % (x,)})
                break
        if case.get('_subproc'):
            env = dict(os.environ)
            env['PYTHONHASHSEED'] = str(1 + case.get('_i', 0) % 97)
            p = subprocess.run([sys.executable, '-W', 'ignore', os.path.join(VERIF, 'harness', 'subproc_obs.py')],
                               input=json.dumps({'case': c, 'kind': 'complete', 'vectors': vecs}).encode(), env=env,
                               stdout=subprocess.PIPE, stderr=subprocess.PIPE, timeout=120)
            line = [l for l in p.stdout.decode().splitlines() if l.startswith('RESULT ')]
            if not line:
                fails.append({'clause': 'other-process-raises', 'detail': p.stderr.decode()[-300:]})
            else:
                o = json.loads(line[0][7:])
                if o['des_vars'] != dvs:
                    fails.append({'clause': 'other-hash-seed-design-variables-differ', 'detail': '%s vs %s' % (dvs, o['des_vars'])})
                elif o['decodes'] != dec:
                    fails.append({'clause': 'other-hash-seed-decodes-differently', 'detail': '%s vs %s' % (dec[:2], o['decodes'][:2])})
                # the graph pickled by the other process (initialised there: its edges went through sets under the other hash
                # seed) is the same design space as the one built here
                try:
                    import base64
                    g_other = pickle.loads(base64.b64decode(o['graph_pickle']))
                    if not g_other.is_same(g) or g_other.fingerprint() != g.fingerprint():
                        fails.append({'clause': 'graph-pickled-by-another-process-not-recognised-as-same',
                                      'detail': 'is_same %s, fingerprints equal %s (other PYTHONHASHSEED %s)' % (g_other.is_same(g), g_other.fingerprint() == g.fingerprint(), env['PYTHONHASHSEED'])})
                except Exception as e2:
                    fails.append({'clause': 'graph-pickled-by-another-process-not-loadable:%s' % type(e2).__name__, 'detail': str(e2)[:200]})
                # ... and the processor pickled there (before it decoded anything) defines the same mapping when it is used here
                try:
                    gp_other = pickle.loads(base64.b64decode(o['processor_pickle']))
                    dvs_o = [[dv.name, dv.n_opts, None if dv.bounds is None else [float(v) for v in dv.bounds]] for dv in gp_other.des_vars]
                    if dvs_o != dvs:
                        fails.append({'clause': 'processor-pickled-by-another-process-design-variables-differ', 'detail': '%s vs %s' % (dvs, dvs_o)})
                    else:
                        for x, want in zip(vecs, dec):
                            inst_o, x2_o, act_o = gp_other.get_graph(list(x))
                            names_o = sorted(str(n) for n in inst_o.graph.nodes)
                            inst_l, _, _ = gp.get_graph(list(x))
                            names_l = sorted(str(n) for n in inst_l.graph.nodes)
                            if [float(v) for v in x2_o] != want[0] or [bool(a) for a in act_o] != want[1] or names_o != names_l:
                                fails.append({'clause': 'processor-pickled-by-another-process-decodes-differently',
                                              'detail': 'x=%s: here %s %s, the loaded processor %s %s nodes %s vs %s' % (x, want[0], want[1], list(x2_o), list(act_o), names_l, names_o)})
                                break
                except Exception as e3:
                    fails.append({'clause': 'processor-pickled-by-another-process-raises:%s' % type(e3).__name__, 'detail': str(e3)[:300]})
                tags.append('subprocess')
    except Exception as e:
        tags.append('processor-skipped:%s' % type(e).__name__)
    r = {'queries': queries, 'impl': impl, 'nontrivial': len(c['sel']) >= 1, 'tags': tags}
    if fails:
        r['fail'] = fails[0]
    return r


def compare(case, r, ms):
    for (name, eq, heq), m in zip(r['impl'], ms):
        if name.startswith('copy') and not bool(m):
            return {'clause': 'copy-is-not-structurally-equal', 'detail': '%s: the copy\'s nodes / keyed edges / start nodes / constraints differ from the original\'s' % name}
        if bool(m) != eq:
            return {'clause': 'equality-differs-from-structural-equality', 'detail': '%s: impl == gives %s, structural %s' % (name, eq, bool(m))}
        if eq and not heq:
            return {'clause': 'equal-graphs-different-hash', 'detail': name}
    return None


match_known = dsgcase.match_known
