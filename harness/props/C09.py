"""C09 — connection-set enumeration is exact: get_agg_matrix / validate_matrix / counting / iter_matrices = model."""
import itertools
from common import sx, rng_for
import matcase

ID = 'C09'
RULE = ('connector settings from an 18-spec alphabet (degree lists, ranges, open-ended minima, repeated-connection flags), 1-2 x '
        '1-3 nodes (thorough: up to 3x3), 0-2 excluded pairs, parallel limit None/1/2/3, 1-4 existence patterns incl. absent nodes '
        'and degree overrides; per pattern: get_agg_matrix sorted = enum_M (proved = ValidM, duplicate-free), validate_matrix = '
        'validate for every integer matrix of the box 0..max_conn+1 (capped at 600 matrices), count via count_matrices = '
        'count_M, iter_matrices = same multiset; matrices with a negative entry (row and column sums kept) must be rejected; patterns written with existence flags and one shared override dictionary, or with the dictionary keys in another order, must equal the plainly written ones; degree lists with a value written twice; a bounded-exhaustive family over a 9-spec '
        'alphabet for 1x1, 1x2, 2x1 (quick: slice) and 2x2 (thorough); non-trivial = at least 2 valid matrices in some pattern')
TRUSTED = ['numpy arrays are converted to nested int lists; existence patterns are keyed by position in the pattern list']
PARTIAL = ['max_src/tgt_conn_override of NodeExistence (unused by the graph layer) is not modelled']
SMALL = [('list', [1], True), ('list', [0, 1], True), ('list', [1, 2], True), ('min', 0, True), ('min', 1, True),
         ('list', [2], True), ('list', [0, 2], True), ('list', [1], False), ('min', 0, False)]


def batches(tier, seed):
    rng = rng_for(seed, 'C09')
    ex = []
    shapes = [(1, 1), (1, 2), (2, 1)] + ([(2, 2)] if tier != 'quick' else [])
    for ns, nt in shapes:
        for specs in itertools.product(SMALL, repeat=ns + nt):
            src, tgt = [list(s) for s in specs[:ns]], [list(s) for s in specs[ns:]]
            pats = []
            for mask in itertools.product([None, [0]], repeat=ns + nt):
                pats.append({'src': list(mask[:ns]), 'tgt': list(mask[ns:])})
            ex.append({'src': src, 'tgt': tgt, 'excl': [], 'par': None, 'patterns': pats})
    if tier == 'quick':
        ex = rng.sample(ex, 350)
    elif len(ex) > 4000:
        ex = rng.sample(ex, 4000)
    yield 'bounded-exhaustive', ex
    n = 500 if tier == 'quick' else 6000
    rnd = [matcase.gen(rng, max_src=2 if tier == 'quick' or rng.random() < 0.6 else 3, max_tgt=3) for _ in range(n)]
    for i, c in enumerate(rnd):
        # the same patterns written in the other public ways; a degree value written twice in a list
        c['_build'] = [None, 'exists-shared', 'reversed-keys', None][i % 4]
        if i % 5 == 0:
            for spec in c['src'] + c['tgt']:
                if spec[0] == 'list' and rng.random() < 0.5:
                    spec[1] = sorted(spec[1] + [rng.choice(spec[1])])
    yield 'random', rnd


def run_case(case):
    import numpy as np
    from adsg_core.optimization.assign_enc.matrix import AggregateAssignmentMatrixGenerator
    c = {k: v for k, v in case.items() if not k.startswith('_')}
    settings, pats = matcase.build(dict(c, _build=case.get('_build')))
    # however a pattern was written, it is the pattern the plain construction gives
    _, plain = matcase.build(c)
    for k, (p1, p2) in enumerate(zip(pats, plain)):
        if not (p1 == p2 and hash(p1) == hash(p2)):
            return {'fail': {'clause': 'equal-patterns-compare-unequal', 'detail': 'pattern %d written as %s: %r vs %r' % (k, case.get('_build'), p1, p2)},
                    'tags': ['build:%s' % case.get('_build')]}
    gen = AggregateAssignmentMatrixGenerator(settings)
    gen.reset_agg_matrix_cache()
    ssx = matcase.sx_settings(c)
    queries, impl = [], []
    nt = False
    tags = ['shape=%dx%d' % (len(c['src']), len(c['tgt'])), 'patterns=%d' % len(pats)]
    # counting first (before any cache file exists)
    counts = {}
    for k, ex in enumerate(pats):
        counts[k] = sum(int(gen.count_matrices(ns_, nt_, e_)) for ns_, nt_, e_ in gen.iter_n_sources_targets(existence=ex, cache=False))
    agg = gen.get_agg_matrix(cache=False)
    for k, ex in enumerate(pats):
        psx = matcase.sx_pattern(c['patterns'][k])
        mats = sorted(tuple(tuple(int(v) for v in row) for row in m) for m in agg[ex].tolist()) if ex in agg else []
        it = sorted(tuple(tuple(int(v) for v in row) for row in m.tolist()) for m, _ in gen.iter_matrices(existence=ex))
        mc = [[int(v) for v in row] for row in gen.get_max_conn_mat(ex).tolist()]
        # validation box
        hi = max([max(r) for r in mc] + [0]) + 1
        cells = len(c['src']) * len(c['tgt'])
        box = []
        if (hi + 1) ** cells <= 600:
            for vals in itertools.product(range(hi + 1), repeat=cells):
                box.append([list(vals[i * len(c['tgt']):(i + 1) * len(c['tgt'])]) for i in range(len(c['src']))])
        else:
            rng = rng_for(0, 'box', sx(ssx), k)
            box = [[list(r) for r in m] for m in mats[:100]]
            for _ in range(300):
                box.append([[rng.randint(0, hi) for _ in c['tgt']] for _ in c['src']])
        val = [bool(gen.validate_matrix(np.array(m, dtype=int).reshape(len(c['src']), len(c['tgt'])), existence=ex)) for m in box]
        # a number of connections is never negative: shift one connection of a valid matrix from one cell to a cell with none
        # in the same row/column pattern (+1, -1, -1, +1 on a 2x2 minor keeps all row and column sums)
        if len(c['src']) >= 2 and len(c['tgt']) >= 2:
            for m in mats[:20]:
                mm = [list(r) for r in m]
                mm[0][0] += 1; mm[0][1] -= 1; mm[1][0] -= 1; mm[1][1] += 1
                if min(min(r) for r in mm) < 0 and bool(gen.validate_matrix(np.array(mm, dtype=int), existence=ex)):
                    return {'fail': {'clause': 'validate-false-accept', 'detail': 'pattern %d: matrix %s with a negative entry is accepted' % (k, mm)}, 'tags': tags}
        queries += [sx(['enum_M', ssx, psx]), sx(['validate_M', ssx, psx, box]), sx(['max_conn_mat', ssx, psx])]
        impl.append({'agg': [list(map(list, m)) for m in mats], 'iter': [list(map(list, m)) for m in it], 'val': val,
                     'count': counts[k], 'maxconn': mc, 'box': box})
        nt = nt or len(mats) >= 2
        tags.append('nmat=%s' % (len(mats) if len(mats) < 5 else '5+'))
    return {'queries': queries, 'impl': impl, 'nontrivial': nt, 'tags': tags}


def compare(case, r, ms):
    for k, im in enumerate(r['impl']):
        en, va, mc = ms[3 * k], ms[3 * k + 1], ms[3 * k + 2]
        en = sorted([list(map(list, m)) for m in en]) if en != [] else []
        agg = sorted(im['agg'])
        pre = 'pattern %d: ' % k
        if agg != en:
            miss = [m for m in en if m not in agg][:3]
            extra = [m for m in agg if m not in en][:3]
            dup = [m for m in agg if agg.count(m) > 1][:2]
            return {'clause': 'enumerated-matrices-differ', 'detail': pre + 'missing %s extra %s duplicates %s (impl %d, model %d)' % (miss, extra, dup, len(agg), len(en))}
        if sorted(im['iter']) != en:
            return {'clause': 'iter-matrices-differs', 'detail': pre + 'iter %d model %d' % (len(im['iter']), len(en))}
        if im['count'] != len(en):
            return {'clause': 'count-without-generating-differs', 'detail': pre + 'impl count %d, model %d' % (im['count'], len(en))}
        for m, vi, vm in zip(im['box'], im['val'], va):
            if bool(vi) != bool(vm):
                return {'clause': 'validate-false-accept' if vi else 'validate-false-reject', 'detail': pre + 'matrix %s impl %s model %s' % (m, vi, bool(vm))}
    return None


def shrink_candidates(case):
    yield from matcase.shrink(case)
