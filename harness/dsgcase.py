"""dsgcase.py — design-space-graph cases independent of Python object identity: generator, builder, model printer.

A case (JSON):
  n        : number of plain nodes; ids 0..n-1 (kinds in 'kinds', default generic)
  kinds    : {id: ['dv', ['disc', k] | ['cont', lo, hi]] | ['metric', dir, ref, type] | ['conn', degspec, rep] | ['group']}
  edges    : [[src, tgt]]                         DERIVES edges between plain nodes
  sel      : [{'id': cid, 'origin': n, 'options': [n...]}]      selection choices (cid >= n)
  conn     : [{'id': cid, 'src': [...], 'tgt': [...], 'excl': [[s,t]...]}]   connection choices; src/tgt entries: id or
             [group_id, [member ids]]
  start    : [ids]
  incompat : [[a, b]]
  cons     : [{'type': 'linked'|..., 'choices': [cid...]}]   (or DV node ids for linked design variables)
"""
import itertools
from common import sx, rng_for


# ---------------------------------------------------------------------------------------------- builder
class Built:
    pass


def build(case, initialize=True):
    """Build the implementation objects through the public API. Returns Built with .dsg, .node (id->obj), .ident (obj->id)"""
    from adsg_core.graph.adsg_basic import BasicDSG
    from adsg_core.graph.adsg_nodes import (NamedNode, DesignVariableNode, MetricNode, ConnectorNode,
                                            ConnectorDegreeGroupingNode, MetricType)
    from adsg_core.graph.graph_edges import EdgeType
    from adsg_core.graph.choice_constraints import ChoiceConstraintType as T
    b = Built()
    b.node = {}
    kinds = {int(k): v for k, v in case.get('kinds', {}).items()}
    for i in range(case['n']):
        k = kinds.get(i)
        if k is None:
            # 'names': several distinct node objects may carry one name (NamedNode identity is the object, not the name)
            b.node[i] = NamedNode((case.get('names') or {}).get(str(i), 'N%02d' % i))
        elif k[0] == 'dv':
            d = k[1]
            if d[0] == 'disc':
                b.node[i] = DesignVariableNode('DV%02d' % i, options=list(range(100, 100 + d[1])))
            else:
                b.node[i] = DesignVariableNode('DV%02d' % i, bounds=(d[1], d[2]))
        elif k[0] == 'metric':
            ty = {None: None, 'none': MetricType.NONE, 'obj': MetricType.OBJECTIVE, 'con': MetricType.CONSTRAINT,
                  'both': MetricType.OBJ_OR_CON}[k[3]]
            b.node[i] = MetricNode('M%02d' % (k[4] if len(k) > 4 and k[4] is not None else i), direction=k[1], ref=k[2], type_=ty)
        elif k[0] == 'conn':
            b.node[i] = ConnectorNode('C%02d' % i, deg_spec=_degspec_py(k[1]), repeated_allowed=bool(k[2]))
        elif k[0] == 'group':
            b.node[i] = ConnectorDegreeGroupingNode('G%02d' % i)
        else:
            raise ValueError(k)
    g = BasicDSG()
    for i in range(case['n']):
        g.add_node(b.node[i])
    # insertion order of plain edges and selection choices: 'order' is a permutation seed (None = edges first)
    steps = [('e', e) for e in case.get('edges', [])] + [('s', sc) for sc in case.get('sel', [])]
    if case.get('order') is not None:
        import random as _r
        _r.Random(case['order']).shuffle(steps)
    for kind, it in steps:
        if kind == 'e':
            g.add_edges([(b.node[it[0]], b.node[it[1]])])
        else:
            b.node[it['id']] = g.add_selection_choice('S%02d' % it['id'], b.node[it['origin']], [b.node[o] for o in it['options']])
    for cc in case.get('conn', []):
        def ent(e):
            return b.node[e] if isinstance(e, int) else (b.node[e[0]], [b.node[m] for m in e[1]])
        b.node[cc['id']] = g.add_connection_choice(
            'X%02d' % cc['id'], [ent(e) for e in cc['src']], [ent(e) for e in cc['tgt']],
            exclude=[(b.node[s], b.node[t]) for s, t in cc.get('excl', [])] or None)
    for a, c in case.get('incompat', []):
        g.add_incompatibility_constraint([b.node[a], b.node[c]])
    b.ident = {v: k for k, v in b.node.items()}
    b.raw = g
    # option order of every selection choice as the code sorts it (before any pruning)
    b.opt_order = {sc['id']: [b.ident[o] for o in g.get_option_nodes(b.node[sc['id']])] for sc in case.get('sel', [])}
    if initialize:
        if case.get('prederive'):
            # derive once from another start set on the SAME design-space object and discard the result: a library that
            # treats graphs as values is unaffected
            try:
                g.set_start_nodes({b.node[s] for s in case['prederive']})
            except Exception:
                pass
        g = g.set_start_nodes({b.node[s] for s in case['start']})
        b.cons_opts = []
        for con in case.get('cons', []):
            t = {'linked': T.LINKED, 'permutation': T.PERMUTATION, 'unordered': T.UNORDERED, 'norepl': T.UNORDERED_NOREPL}[con['type']]
            present = [b.node[c] for c in con['choices'] if b.node[c] in g.graph.nodes]
            if len(present) != len(con['choices']):
                b.cons_opts.append(None)
                continue
            if con.get('pass_seed') is not None:
                # the caller may name the choices in any order: the constraint is stated over the graph's choice order
                import random as _r
                _r.Random(con['pass_seed']).shuffle(present)
            g = g.constrain_choices(t, present)
            cc = g.get_choice_constraints()[-1]
            co_nodes = [b.ident[n] for n in cc.nodes]
            co_opts = None if cc.options is None else [[b.ident[o] for o in ol] for ol in cc.options]
            # the model is given the constrained choices in choice order (decision id), whatever the code stored
            perm = sorted(range(len(co_nodes)), key=lambda k: 'S%02d' % co_nodes[k])
            b.cons_opts.append({'nodes': [co_nodes[k] for k in perm],
                                'options': None if co_opts is None else [co_opts[k] for k in perm]})
    b.dsg = g
    return b


def _degspec_py(d):
    """degree spec of the case -> ConnectorNode deg_spec argument. d: ['list', [..]] | ['range', lo, hi] | ['min', lo]"""
    if d[0] == 'list':
        return list(d[1])
    if d[0] == 'range':
        return '%d..%d' % (d[1], d[2])
    if d[0] == 'min':
        return '%d..*' % d[1]
    raise ValueError(d)


# ---------------------------------------------------------------------------------------------- model printer
def model_dsg(case, opt_order=None, cons_opts=None):
    """s-expression of the dsg record: (nodes edges start cons). Option edges are listed in opt_order (code's order)."""
    kinds = {int(k): v for k, v in case.get('kinds', {}).items()}
    kmap = {None: 'generic', 'dv': 'dv', 'metric': 'metric', 'conn': 'connector', 'group': 'grouping'}
    nodes = [[i, kmap[(kinds.get(i) or [None])[0]]] for i in range(case['n'])]
    edges = [[s, t, 'd'] for s, t in case.get('edges', [])]
    for sc in case.get('sel', []):
        nodes.append([sc['id'], 'sel'])
        edges.append([sc['origin'], sc['id'], 'd'])
        opts = (opt_order or {}).get(sc['id']) or (opt_order or {}).get(str(sc['id'])) or _default_order(sc['options'])
        for o in opts:
            edges.append([sc['id'], o, 'd'])
    for cc in case.get('conn', []):
        nodes.append([cc['id'], 'connchoice'])
        for side, k in (('src', 0), ('tgt', 1)):
            for e in cc[side]:
                top = e if isinstance(e, int) else e[0]
                edges.append([top, cc['id'], 'c'] if k == 0 else [cc['id'], top, 'c'])
                if not isinstance(e, int):
                    for m in e[1]:
                        edges.append([m, e[0], 'd'])
        for s, t in cc.get('excl', []):
            edges.append([s, t, 'x'])
    for a, c in case.get('incompat', []):
        edges.append([a, c, 'i'])
        edges.append([c, a, 'i'])
    cons = []
    for k, con in enumerate(case.get('cons', [])):
        co = cons_opts[k] if cons_opts is not None else None
        if co is None or co['options'] is None:
            continue
        cons.append([con['type'] if con['type'] != 'norepl' else 'norepl', [[n, ol] for n, ol in zip(co['nodes'], co['options'])]])
    return [nodes, edges, list(case['start']), cons]


def _default_order(options):
    seen, out = set(), []
    for o in options:
        if o not in seen:
            seen.add(o)
            out.append(o)
    return out


# ---------------------------------------------------------------------------------------------- generators
def gen_sel(rng, max_nodes=12, max_choices=4, max_opts=4, n_incompat=None, cons_prob=0.0, adversarial=False,
            doomed_prob=0.0):
    """G-sel: mostly valid selection-choice graphs built top-down from the start nodes."""
    n = rng.randint(3, max_nodes)
    n_start = 1 if rng.random() < 0.8 else 2
    start = list(range(n_start))
    placed = list(start)             # plain nodes already attached (potentially reachable)
    unplaced = list(range(n_start, n))
    # reserve nodes for a fan-out/fan-in diamond (hub -> 2..3 kids -> join [-> tail]) hung below a random node later
    diamond = None
    if rng.random() < 0.3 and len(unplaced) >= 6:
        k = 3 if rng.random() < 0.6 else 2
        tail = rng.random() < 0.5
        take = k + 1 + (1 if tail else 0)
        diamond = unplaced[-take:]
        unplaced = unplaced[:-take]
    edges, sel = [], []
    next_id = n
    n_choices = rng.randint(1, max_choices)
    while unplaced or len(sel) < n_choices:
        make_choice = len(sel) < n_choices and (not unplaced or rng.random() < 0.45)
        if make_choice:
            origin = rng.choice(placed)
            if sel and rng.random() < 0.15:
                origin = rng.choice(sel)['origin']       # several choices on one originating node
            k = rng.randint(1, max_opts) if rng.random() < 0.9 else 1
            opts = []
            for _ in range(k):
                if unplaced and rng.random() < 0.75:
                    o = unplaced.pop(0)
                else:
                    o = rng.choice(placed)               # shared / existing option node (may form cycles)
                if o not in opts and o != origin:
                    opts.append(o)
            if not opts:
                if unplaced:
                    opts = [unplaced.pop(0)]
                else:
                    cand = [p for p in placed if p != origin]
                    if not cand:
                        continue
                    opts = [rng.choice(cand)]
            sel.append({'id': next_id, 'origin': origin, 'options': opts})
            next_id += 1
            for o in opts:
                if o not in placed:
                    placed.append(o)
        elif unplaced:
            t = unplaced.pop(0)
            s = rng.choice(placed)
            edges.append([s, t])
            placed.append(t)
        if len(sel) >= n_choices and not unplaced:
            break
    if diamond:
        all_opts = [o for sc in sel for o in sc['options']]
        hub = rng.choice(all_opts) if all_opts and rng.random() < 0.7 else rng.choice(placed)
        kids = diamond[:3] if len(diamond) >= 5 or (len(diamond) == 4 and rng.random() < 0.5) else diamond[:2]
        rest = diamond[len(kids):]
        join = rest[0]
        for kd in kids:
            edges.append([hub, kd])
            edges.append([kd, join])
        for extra in rest[1:]:
            edges.append([join, extra])
        placed += diamond
        # one kid is additionally derived by an option of another choice (so it may survive when the hub does not)
        others = [o for sc in sel for o in sc['options'] if o != hub and hub not in sc['options']]
        if others and rng.random() < 0.6:
            edges.append([rng.choice(others), rng.choice(kids)])
    # extra derivation edges: DAG-ish and cycles
    for _ in range(rng.randint(0, 3)):
        s, t = rng.choice(placed), rng.choice(placed)
        if s != t and [s, t] not in edges:
            edges.append([s, t])
    # joins: one node derived by several others (fan-out/fan-in diamonds)
    if rng.random() < 0.3 and len(placed) >= 4:
        hub = rng.choice(placed)
        kids = rng.sample([p for p in placed if p != hub], min(len(placed) - 1, rng.randint(2, 3)))
        tgt = rng.choice([p for p in placed if p != hub and p not in kids] or [kids[-1]])
        for kd in kids:
            if kd != tgt:
                for e in ([hub, kd], [kd, tgt]):
                    if e not in edges and e[0] != e[1]:
                        edges.append(e)
    if n_incompat is None:
        n_incompat = rng.choice([0, 0, 1, 1, 2, 3])
    incompat = []
    avoid_self_conflict = rng.random() < 0.9      # most graphs stay out of the K7 class (measured in the evidence)
    for _ in range(n_incompat):
        for _try in range(12):
            a, b = rng.sample(range(n), 2) if n >= 2 else (0, 0)
            if a == b or [a, b] in incompat or [b, a] in incompat:
                continue
            if avoid_self_conflict and self_conflicting_option(
                    {'edges': edges, 'sel': sel, 'incompat': incompat + [[a, b]]}):
                continue
            incompat.append([a, b])
            break
    # "doomed option" pattern: one option of a choice is incompatible with EVERY option of another choice, so every
    # vector selecting it has to be corrected (the implementation handles this; it sits inside the K8 guard class)
    if doomed_prob and rng.random() < doomed_prob and len(sel) >= 2:
        c1, c2 = rng.sample(sel, 2)
        if len(c1['options']) >= 2:
            o = rng.choice(c1['options'])
            for o2 in c2['options']:
                if o2 != o and [o, o2] not in incompat and [o2, o] not in incompat:
                    incompat.append([o, o2])
    cons = []
    if cons_prob and rng.random() < cons_prob and len(sel) >= 2:
        # prefer a group of choices with the same number of options (UNORDERED types demand it, LINKED is only
        # documented for it); one case in ten keeps unequal counts
        by_n = {}
        for c in sel:
            by_n.setdefault(len(set(c['options'])), []).append(c)
        groups = [g for g in by_n.values() if len(g) >= 2]
        if groups and rng.random() < 0.9:
            grp = rng.choice(groups)
            chosen = rng.sample(grp, rng.randint(2, min(3, len(grp))))
        else:
            chosen = rng.sample(sel, rng.randint(2, min(3, len(sel))))
        t = rng.choice(['linked', 'permutation', 'unordered', 'norepl'])
        cons.append({'type': t, 'choices': sorted(c['id'] for c in chosen)})
        if rng.random() < 0.4:
            cons[-1]['pass_seed'] = rng.randrange(1 << 16)
    case = {'n': n, 'edges': edges, 'sel': sel, 'start': start, 'incompat': incompat, 'cons': cons}
    if rng.random() < 0.5:
        case['order'] = rng.randrange(1 << 30)
    if n_start == 2 and rng.random() < 0.5:
        # the case is derived from one start node only; the same object is first derived from both
        case['prederive'] = list(start)
        case['start'] = [start[0]]
    if adversarial:
        for _ in range(rng.randint(1, 4)):
            s, t = rng.randrange(n), rng.randrange(n)
            if s != t and [s, t] not in edges:
                edges.append([s, t])
    return case


def gen_layered(rng, cons_prob=0.0):
    """layered design spaces: a root deriving 2-3 subsystems, each with a top-level choice; options carry nested choices;
    incompatibilities between options of different top-level choices (hierarchical, merged, non-Cartesian scenarios)"""
    nid = [0]

    def new():
        nid[0] += 1
        return nid[0] - 1
    root = new()
    edges, sel, top = [], [], []
    sel_nodes = []
    n_sys = rng.choice([2, 2, 3])
    constrained = cons_prob and rng.random() < cons_prob
    n_top_opts = rng.choice([2, 3]) if constrained else None     # constrained top-level choices get equal option counts
    for _ in range(n_sys):
        sysn = new()
        edges.append([root, sysn])
        opts = [new() for _ in range(n_top_opts if n_top_opts else rng.choice([2, 2, 3]))]
        sel_nodes.append((sysn, opts))
        top.append(opts)
    nested = []
    for sysn, opts in list(sel_nodes):
        for o in opts:
            if rng.random() < 0.45 and nid[0] < 16:
                k = rng.choice([2, 2, 3])
                if rng.random() < 0.25:
                    mid = new()
                    edges.append([o, mid])
                    origin = mid
                else:
                    origin = o
                nopts = [new() for _ in range(k)]
                nested.append((origin, nopts))
    cid = nid[0]
    for origin, opts in sel_nodes + nested:
        sel.append({'id': cid, 'origin': origin, 'options': opts})
        cid += 1
    incompat = []
    for _ in range(rng.choice([0, 1, 1, 2])):
        i, j = rng.sample(range(n_sys), 2)
        a, b = rng.choice(top[i]), rng.choice(top[j])
        if [a, b] not in incompat and [b, a] not in incompat:
            incompat.append([a, b])
    if nested and rng.random() < 0.25:
        # an incompatibility reaching into a nested choice
        o1 = rng.choice(rng.choice(nested)[1])
        o2 = rng.choice(rng.choice(top))
        if o1 != o2:
            incompat.append([o1, o2])
    cons = []
    if constrained:
        ids = [sc['id'] for sc in sel[:n_sys]]
        chosen = sorted(rng.sample(ids, 2))
        deep = [sc['id'] for sc in sel[n_sys:] if len(sc['options']) == n_top_opts]
        if deep and rng.random() < 0.3:
            # a constraint between a top-level choice and a nested (conditionally active) one
            chosen = sorted([rng.choice(ids), rng.choice(deep)])
        cons.append({'type': rng.choice(['linked', 'linked', 'permutation', 'unordered', 'norepl']), 'choices': chosen})
        if rng.random() < 0.4:
            cons[-1]['pass_seed'] = rng.randrange(1 << 16)
        if rng.random() < 0.7:
            incompat = []
    if rng.random() < 0.3:
        # decision ids that do not follow the depth of the choices (a nested choice may sort before a top-level one)
        ids = [sc['id'] for sc in sel]
        shuffled = list(ids)
        rng.shuffle(shuffled)
        perm = dict(zip(ids, shuffled))
        sel = [dict(sc, id=perm[sc['id']]) for sc in sel]
        cons = [dict(con, choices=sorted(perm[c] for c in con['choices'])) for con in cons]
    case = {'n': nid[0], 'edges': edges, 'sel': sel, 'start': [root], 'incompat': incompat, 'cons': cons}
    if rng.random() < 0.5:
        case['order'] = rng.randrange(1 << 30)
    return case


def gen_flat_cons(rng):
    """flat design spaces with two choice constraints: a root deriving 4-5 subsystems with one permanent choice each; a
    LINKED constraint over the first 2-3 (all but the first become forced and are not declared as design variables), and a
    PERMUTATION/UNORDERED constraint over two later ones (so that vectors inside the declared space can be infeasible)"""
    nid = [0]

    def new():
        nid[0] += 1
        return nid[0] - 1
    root = new()
    n_link = rng.choice([2, 2, 3])
    k_link = rng.choice([2, 3])
    k_perm = rng.choice([2, 3, 3, 4])
    counts = [k_link] * n_link + [k_perm] * 2 + ([rng.choice([2, 3])] if rng.random() < 0.4 else [])
    pos = list(range(len(counts)))
    if rng.random() < 0.5:
        # the free choice or the constrained pairs in another declaration order
        rng.shuffle(pos)
    groups = []
    for _ in counts:
        sysn = new()
        groups.append([sysn, None])
    edges = [[root, g[0]] for g in groups]
    for k, cnt in enumerate(counts):
        groups[k][1] = [new() for _ in range(cnt)]
    cid = nid[0]
    sel, ids = [], {}
    for k in pos:
        ids[k] = cid
        sel.append({'id': cid, 'origin': groups[k][0], 'options': groups[k][1]})
        cid += 1
    cons = [{'type': 'linked', 'choices': sorted(ids[k] for k in range(n_link))},
            {'type': rng.choice(['permutation', 'permutation', 'unordered']),
             'choices': sorted(ids[k] for k in (n_link, n_link + 1))}]
    if rng.random() < 0.3:
        cons.reverse()
    for con in cons:
        if rng.random() < 0.4:
            con['pass_seed'] = rng.randrange(1 << 16)
    case = {'n': nid[0], 'edges': edges, 'sel': sel, 'start': [root], 'incompat': [], 'cons': cons}
    if rng.random() < 0.5:
        case['order'] = rng.randrange(1 << 30)
    return case


def gen_cross(rng, cycles=True):
    """G-cross: 2-4 choices (on one origin or on a few), whose option nodes and a few intermediate nodes derive each other
    across choices (diamonds, nested derivation cycles), with nested choices on some of the derived nodes"""
    nid = [0]

    def new():
        nid[0] += 1
        return nid[0]
    edges, sel_raw = [], []
    one_origin = rng.random() < 0.6
    n_ch = rng.randint(2, 4)
    pool = []
    for _ in range(n_ch):
        if one_origin:
            org = 0
        else:
            org = new()
            edges.append([0, org])
        opts = [new() for _ in range(rng.choice([2, 2, 3]))]
        sel_raw.append((org, opts))
        pool += opts
    mids = [new() for _ in range(rng.randint(1, 4))]
    pool += mids
    order = list(pool)
    rng.shuffle(order)
    rank = {x: k for k, x in enumerate(order)}
    allow_cycles = cycles and rng.random() < 0.5
    for _ in range(rng.randint(3, 9)):
        a, b = rng.sample(pool, 2)
        if not allow_cycles and rank[a] > rank[b]:
            a, b = b, a
        if [a, b] not in edges:
            edges.append([a, b])
    for host in rng.sample(pool, rng.randint(1, min(2, len(pool)))):
        sel_raw.append((host, [new() for _ in range(rng.choice([1, 2, 2]))]))
    n = nid[0] + 1
    sel = [{'id': n + k, 'origin': org, 'options': opts} for k, (org, opts) in enumerate(sel_raw)]
    case = {'n': n, 'edges': edges, 'sel': sel, 'start': [0], 'incompat': [], 'cons': []}
    if rng.random() < 0.2:
        a, b = rng.sample(range(1, n), 2)
        if not self_conflicting_option(dict(case, incompat=[[a, b]])):
            case['incompat'] = [[a, b]]
    if rng.random() < 0.5:
        case['order'] = rng.randrange(1 << 30)
    return case


def gen_fanin(rng):
    """G-fanin: an option node (hub) fans out over 2-3 arms that join again; the join and some of the arms are themselves
    option nodes of other choices, and a nested choice sits below the join -- so a node is reached along several paths,
    some of which were analysed (and cached) earlier on behalf of another choice"""
    nid = [0]

    def new():
        nid[0] += 1
        return nid[0]
    edges, sel_raw = [], []
    one_origin = rng.random() < 0.5
    n_ch = rng.randint(2, 4)
    opts_of = []
    for _ in range(n_ch):
        if one_origin:
            org = 0
        else:
            org = new()
            edges.append([0, org])
        opts = [new() for _ in range(rng.choice([2, 2, 3]))]
        sel_raw.append((org, opts))
        opts_of.append(opts)
    ci = rng.randrange(n_ch)
    hub = rng.choice(opts_of[ci])
    foreign = [o for cj, opts in enumerate(opts_of) if cj != ci for o in opts]
    rng.shuffle(foreign)
    join = foreign.pop() if rng.random() < 0.7 else new()
    arms = []
    for _ in range(rng.randint(2, 3)):
        arms.append(foreign.pop() if foreign and rng.random() < 0.45 else new())
    for a in arms:
        edges.append([hub, a])
        if rng.random() < 0.25:
            m = new()
            edges += [[a, m], [m, join]]
        else:
            edges.append([a, join])
    below = join
    if rng.random() < 0.5:
        below = new()
        edges.append([join, below])
    sel_raw.append((below, [new() for _ in range(rng.choice([1, 2, 2]))]))
    if rng.random() < 0.3:
        # close a derivation cycle through the join
        edges.append([below, rng.choice(arms + [hub])])
    for _ in range(rng.choice([0, 0, 1, 2])):
        a, b = rng.sample(range(1, nid[0] + 1), 2)
        if [a, b] not in edges:
            edges.append([a, b])
    n = nid[0] + 1
    sel = [{'id': n + k, 'origin': org, 'options': opts} for k, (org, opts) in enumerate(sel_raw)]
    case = {'n': n, 'edges': edges, 'sel': sel, 'start': [0], 'incompat': [], 'cons': []}
    if rng.random() < 0.5:
        case['order'] = rng.randrange(1 << 30)
    return case


def gen_cycles(rng):
    """G-cycles: nested derivation cycles (a ring with chords, some through an extra node) below an option node; one ring
    node may itself be an option of another choice; nested choices hang off ring nodes"""
    nid = [0]

    def new():
        nid[0] += 1
        return nid[0]
    edges, sel_raw = [], []
    one_origin = rng.random() < 0.6
    opts_of = []
    for _ in range(2):
        if one_origin:
            org = 0
        else:
            org = new()
            edges.append([0, org])
        opts = [new() for _ in range(rng.choice([2, 2, 3]))]
        sel_raw.append((org, opts))
        opts_of.append(opts)
    k = rng.randint(2, 4)
    ring = [new() for _ in range(k)]
    if rng.random() < 0.7:
        ring[rng.randrange(1, k)] = opts_of[1][0]           # a ring node that is also an option of the second choice
    edges.append([opts_of[0][0], ring[0]])
    for i in range(k):
        edges.append([ring[i], ring[(i + 1) % k]])
    extra = []
    for _ in range(rng.randint(1, 2)):
        i = rng.randrange(k)
        j = rng.randrange(k)
        if rng.random() < 0.6:
            z = new()
            extra.append(z)
            edges += [[ring[i], z], [z, ring[j]]]
        elif i != j and [ring[i], ring[j]] not in edges:
            edges.append([ring[i], ring[j]])
    for host in rng.sample(ring + extra, rng.randint(1, min(2, len(ring + extra)))):
        t = host
        if rng.random() < 0.6:
            t = new()
            edges.append([host, t])
        sel_raw.append((t, [new() for _ in range(rng.choice([1, 2, 2]))]))
    if rng.random() < 0.4:
        # a forced (single-option) choice on the start node whose option is a ring node: the ring is permanent through it,
        # whatever the two main choices take (the analysis of the ring is then requested from several entry points)
        sel_raw.append((0, [rng.choice(ring + extra)]))
    n = nid[0] + 1
    sel = [{'id': n + kk, 'origin': org, 'options': opts} for kk, (org, opts) in enumerate(sel_raw)]
    case = {'n': n, 'edges': edges, 'sel': sel, 'start': [0], 'incompat': [], 'cons': []}
    if rng.random() < 0.5:
        case['order'] = rng.randrange(1 << 30)
    return case


def gen_shared_dag(rng):
    """G-shared: the options of 1-2 choices derive overlapping subsets of a small pool of component nodes that derive each
    other densely (a random DAG, so that a component is reached along many paths and a node can have several successors
    that were reached before); nested choices hang below some components"""
    nid = [0]

    def new():
        nid[0] += 1
        return nid[0]
    edges, sel_raw = [], []
    sysn = new()
    edges.append([0, sysn])
    pool = [new() for _ in range(rng.randint(3, 5))]
    for i in range(len(pool)):
        for j in range(i + 1, len(pool)):
            if rng.random() < 0.5:
                edges.append([pool[i], pool[j]])
    rng.shuffle(edges)
    for _ in range(rng.choice([1, 1, 2])):
        org = sysn if not sel_raw or rng.random() < 0.5 else new()
        if org != sysn and [0, org] not in edges:
            edges.append([0, org])
        opts = [new() for _ in range(rng.choice([2, 2, 3]))]
        sel_raw.append((org, opts))
        for o in opts:
            for comp in rng.sample(pool, rng.randint(1, min(3, len(pool)))):
                edges.insert(rng.randrange(len(edges) + 1), [o, comp])
    for host in rng.sample(pool, rng.randint(1, 2)):
        sel_raw.append((host, [new() for _ in range(rng.choice([2, 2, 3]))]))
    n = nid[0] + 1
    sel = [{'id': n + k, 'origin': org, 'options': opts} for k, (org, opts) in enumerate(sel_raw)]
    case = {'n': n, 'edges': edges, 'sel': sel, 'start': [0], 'incompat': [], 'cons': []}
    if rng.random() < 0.5:
        case['order'] = rng.randrange(1 << 30)
    return case


def gen_diamond(rng):
    """G-diamond: fan-out / fan-in derivations below option nodes, some of whose members have a second deriver"""
    nid = [0]

    def new():
        nid[0] += 1
        return nid[0]
    edges, sel_raw = [], []
    origins = []
    for _ in range(rng.randint(2, 3)):
        o = new()
        edges.append([0, o])
        origins.append(o)
    all_opts = []
    for org in origins:
        opts = [new() for _ in range(rng.randint(2, 3))]
        sel_raw.append((org, opts))
        all_opts.append(opts)
    for _ in range(rng.randint(1, 2)):
        ci = rng.randrange(len(sel_raw))
        hub = rng.choice(all_opts[ci])
        kids = [new() for _ in range(rng.randint(2, 4))]
        join = new()
        for kd in kids:
            edges.append([hub, kd])
            edges.append([kd, join])
        if rng.random() < 0.6:
            edges.append([join, new()])
        others = [o for cj, opts in enumerate(all_opts) if cj != ci for o in opts] + origins
        for kd in kids:
            if rng.random() < 0.35:
                edges.append([rng.choice(others), kd])
    for opts in all_opts:
        for o in opts:
            if rng.random() < 0.3:
                edges.append([o, new()])
    n = nid[0] + 1
    sel = [{'id': n + k, 'origin': org, 'options': opts} for k, (org, opts) in enumerate(sel_raw)]
    case = {'n': n, 'edges': edges, 'sel': sel, 'start': [0], 'incompat': [], 'cons': []}
    if rng.random() < 0.3:
        a, b = rng.sample(range(1, n), 2)
        if not self_conflicting_option(dict(case, incompat=[[a, b]])):
            case['incompat'] = [[a, b]]
    if rng.random() < 0.5:
        case['order'] = rng.randrange(1 << 30)
    return case


def add_doomed_option(rng, case):
    """make one option of a choice incompatible with every option of another choice (returns a new case or None)"""
    sel = case['sel']
    if len(sel) < 2:
        return None
    c1, c2 = rng.sample(sel, 2)
    if len(c1['options']) < 2:
        return None
    o = rng.choice(c1['options'][1:] if rng.random() < 0.7 else c1['options'])
    inc = [list(p) for p in case['incompat']]
    for o2 in c2['options']:
        if o2 == o:
            return None
        if [o, o2] not in inc and [o2, o] not in inc:
            inc.append([o, o2])
    return dict(case, incompat=inc)


def potential_nodes(case):
    """nodes potentially reachable from the start nodes (any option of any choice) — generator guard for K1"""
    succ = {}
    for s, t in case.get('edges', []):
        succ.setdefault(s, set()).add(t)
    for sc in case.get('sel', []):
        succ.setdefault(sc['origin'], set()).add(sc['id'])
        for o in sc['options']:
            succ.setdefault(sc['id'], set()).add(o)
    for cc in case.get('conn', []):
        for e in cc['src']:
            top = e if isinstance(e, int) else e[0]
            succ.setdefault(top, set()).add(cc['id'])
            if not isinstance(e, int):
                for m in e[1]:
                    succ.setdefault(m, set()).add(e[0])
        for e in cc['tgt']:
            if not isinstance(e, int):
                for m in e[1]:
                    succ.setdefault(m, set()).add(e[0])
    seen = set(case['start'])
    todo = list(seen)
    while todo:
        x = todo.pop()
        for y in succ.get(x, ()):
            if y not in seen:
                seen.add(y)
                todo.append(y)
    return seen


def self_conflicting_option(case):
    """K7 guard: some option o of a choice c such that the derivation closure of {origin(c), o} over non-choice nodes
    (no choice taken) contains both ends of an incompatibility constraint"""
    succ = {}
    for s, t in case.get('edges', []):
        succ.setdefault(s, set()).add(t)
    inc = [tuple(p) for p in case.get('incompat', [])]
    if not inc:
        return False
    for sc in case.get('sel', []):
        for o in sc['options']:
            seen = {sc['origin'], o}
            todo = list(seen)
            while todo:
                x = todo.pop()
                for y in succ.get(x, ()):
                    if y not in seen:
                        seen.add(y)
                        todo.append(y)
            if any(a in seen and b in seen for a, b in inc):
                return True
    return False


def py_closure(case, sigma):
    """derivation closure under a partial assignment (guard helper only — the oracle is the Coq model)"""
    succ = {}
    for s, t in case.get('edges', []):
        succ.setdefault(s, []).append(t)
    chs = {sc['id']: sc for sc in case.get('sel', [])}
    for sc in case.get('sel', []):
        succ.setdefault(sc['origin'], []).append(sc['id'])
    seen = set(case['start'])
    todo = list(seen)
    while todo:
        x = todo.pop()
        nxt = ([sigma[x]] if x in sigma else []) if x in chs else succ.get(x, [])
        for y in nxt:
            if y not in seen:
                seen.add(y)
                todo.append(y)
    return seen


def dead_end_prefix(case, limit=3000):
    """K8 guard: some legal partial resolution reaches a state in which an active choice has no option left that is free
    of incompatible pairs (the implementation's zero-option infeasibility marker is what is then relied upon)"""
    inc = [tuple(p) for p in case.get('incompat', [])]
    if not inc:
        return any(len(sc['options']) == 0 for sc in case.get('sel', []))
    chs = {sc['id']: sc for sc in case.get('sel', [])}

    def conflict(W):
        return any(a in W and b in W for a, b in inc)
    seen_states = set()
    todo = [{}]
    n = 0
    while todo and n < limit:
        sg = todo.pop()
        key = tuple(sorted(sg.items()))
        if key in seen_states:
            continue
        seen_states.add(key)
        n += 1
        W = py_closure(case, sg)
        if conflict(W):
            continue
        for c in [c for c in W if c in chs and c not in sg]:
            viable = []
            for o in chs[c]['options']:
                s2 = dict(sg)
                s2[c] = o
                if not conflict(py_closure(case, s2)):
                    viable.append(s2)
            if not viable:
                return True
            todo.extend(viable)
    return False


def cyclic_choice(case):
    """K9 guard: some option of a selection choice potentially reaches (any option of any choice may be taken) the
    originating node of that same choice"""
    succ = {}
    for s, t in case.get('edges', []):
        succ.setdefault(s, set()).add(t)
    for sc in case.get('sel', []):
        succ.setdefault(sc['origin'], set()).add(sc['id'])
        for o in sc['options']:
            succ.setdefault(sc['id'], set()).add(o)
    for sc in case.get('sel', []):
        for o in sc['options']:
            seen = {o}
            todo = [o]
            while todo:
                x = todo.pop()
                for y in succ.get(x, ()):
                    if y not in seen:
                        seen.add(y)
                        todo.append(y)
            if sc['origin'] in seen:
                return True
    return False


def shared_option(case):
    """K2 guard: a node that is an option of two different selection choices"""
    seen = {}
    for sc in case.get('sel', []):
        for o in set(sc['options']):
            if o in seen:
                return True
            seen[o] = sc['id']
    return False


def option_derives_sibling(case):
    """K11 guard: an option of a selection choice potentially reaches another option of the same choice"""
    succ = {}
    for s, t in case.get('edges', []):
        succ.setdefault(s, set()).add(t)
    for sc in case.get('sel', []):
        succ.setdefault(sc['origin'], set()).add(sc['id'])
        for o in sc['options']:
            succ.setdefault(sc['id'], set()).add(o)
    for sc in case.get('sel', []):
        for o in sc['options']:
            seen = set()
            todo = [o]
            while todo:
                x = todo.pop()
                for y in succ.get(x, ()):
                    if y not in seen:
                        seen.add(y)
                        todo.append(y)
            if any(o2 in seen for o2 in sc['options'] if o2 != o):
                return True
    return False


def linked_unequal(case):
    """K12 guard: a LINKED constraint over choices with different numbers of options"""
    n = {sc['id']: len(set(sc['options'])) for sc in case.get('sel', [])}
    opts = {sc['id']: set(sc['options']) for sc in case.get('sel', [])}
    inc_nodes = {x for p in case.get('incompat', []) for x in p}
    for con in case.get('cons', []):
        if con['type'] != 'linked':
            continue
        if len({n.get(c) for c in con['choices']}) > 1:
            return True
        # an option that takes part in an incompatibility constraint may be pruned before the constraint captures the
        # option lists, which leaves unequal counts
        if any(opts.get(c, set()) & inc_nodes for c in con['choices']):
            return True
        # ... and so may an option that derives such a node by ordinary derivation edges
        for c in con['choices']:
            for o in opts.get(c, set()):
                seen, todo = {o}, [o]
                while todo:
                    x = todo.pop()
                    for s_, t_ in case.get('edges', []):
                        if s_ == x and t_ not in seen:
                            seen.add(t_)
                            todo.append(t_)
                if seen & inc_nodes:
                    return True
    return False


def constraint_not_all_permanent(case):
    """K13 guard: a choice constraint whose choices are not all active before any choice is taken (hierarchical or
    mutually exclusive placement)"""
    if not case.get('cons'):
        return False
    W = py_closure(case, {})
    return any(any(c not in W for c in con['choices']) for con in case['cons'])


def norepl_all_permanent(case):
    """K15 guard: an UNORDERED_NOREPL constraint whose choices are all initially active (up-front option removal)"""
    if not case.get('cons'):
        return False
    W = py_closure(case, {})
    return any(con['type'] == 'norepl' and all(c in W for c in con['choices']) for con in case['cons'])


def constrained_option_in_incompatibility(case):
    """K32 guard: a choice constraint over choices of which an option (or a node that option derives by ordinary edges)
    takes part in an incompatibility constraint -- constraint and incompatibility together can then leave a constrained
    choice without any option"""
    inc_nodes = {x for p in case.get('incompat', []) for x in p}
    if not inc_nodes or not case.get('cons'):
        return False
    opts = {sc['id']: set(sc['options']) for sc in case.get('sel', [])}
    for con in case.get('cons', []):
        for c in con['choices']:
            for o in opts.get(c, set()):
                seen, todo = {o}, [o]
                while todo:
                    x = todo.pop()
                    for s_, t_ in case.get('edges', []):
                        if s_ == x and t_ not in seen:
                            seen.add(t_)
                            todo.append(t_)
                if seen & inc_nodes:
                    return True
    return False


def orphan_required_connector(case):
    """K33 guard: a connector that needs at least one connection, exists only conditionally, and takes part in no
    connection choice that survives the removal of unreachable nodes"""
    kinds = {int(k): v for k, v in case.get('kinds', {}).items()}
    P = potential_nodes(case)
    permanent = py_closure(case, {})
    covered = set()
    for cc in case.get('conn', []):
        tops = [e if isinstance(e, int) else e[0] for e in cc['src']]
        if not any(t in P for t in tops):
            continue
        for e in cc['src'] + cc['tgt']:
            covered.add(e if isinstance(e, int) else e[0])
            if not isinstance(e, int):
                covered.update(e[1])
    for i, k in kinds.items():
        if k[0] != 'conn' or i not in P or i in permanent or i in covered:
            continue
        d = k[1]
        zero_ok = (0 in d[1]) if d[0] == 'list' else d[1] == 0
        if not zero_ok:
            return True
    return False


def guards(case):
    """ids of the known-finding classes this case falls into"""
    case = {k: v for k, v in case.items() if not k.startswith('_')}
    out = set()
    # K1 (nodes outside the potential reach of the start nodes were kept) was repaired by 0f0c145: no guard class any more
    if self_conflicting_option(case):
        out.add('K7')
    if dead_end_prefix(case):
        out.add('K8')
    if cyclic_choice(case):
        out.add('K9')
    if shared_option(case):
        out.add('K2')
    if option_derives_sibling(case):
        out.add('K11')
    if linked_unequal(case):
        out.add('K12')
    if constraint_not_all_permanent(case):
        out.add('K13')
    if norepl_all_permanent(case):
        out.add('K15')
    if constrained_option_in_incompatibility(case):
        out.add('K32')
    return out


def _clause_in(clause, patterns):
    return any(clause == p or (p.endswith('*') and clause.startswith(p[:-1])) for p in patterns)


def match_known(case, fail, known):
    """a failure is explained by a known finding when the case is in the finding's guard class AND the failing clause is one
    of the clauses that finding is known to produce (so a different failure in the same class is still a violation)"""
    g = guards(case)
    for k in known:
        if k.get('guard') in g and (not k.get('clauses') or _clause_in(fail.get('clause') or '', k['clauses'])):
            return k
    return None


def all_ids(case):
    return set(range(case['n'])) | {sc['id'] for sc in case.get('sel', [])} | {cc['id'] for cc in case.get('conn', [])}


# ---------------------------------------------------------------------------------------------- shrinking
def shrink_graph(case):
    """candidate smaller graphs (drop constraint / incompatibility / edge / option / choice)"""
    for k in range(len(case.get('cons', []))):
        yield dict(case, cons=case['cons'][:k] + case['cons'][k + 1:])
    for k in range(len(case.get('incompat', []))):
        yield dict(case, incompat=case['incompat'][:k] + case['incompat'][k + 1:])
    for k in range(len(case.get('sel', []))):
        cid = case['sel'][k]['id']
        if any(cid in c['choices'] for c in case.get('cons', [])):
            continue
        yield dict(case, sel=case['sel'][:k] + case['sel'][k + 1:])
    for k, sc in enumerate(case.get('sel', [])):
        if len(sc['options']) > 1:
            for j in range(len(sc['options'])):
                sc2 = dict(sc, options=sc['options'][:j] + sc['options'][j + 1:])
                yield dict(case, sel=case['sel'][:k] + [sc2] + case['sel'][k + 1:])
    for k in range(len(case.get('edges', []))):
        yield dict(case, edges=case['edges'][:k] + case['edges'][k + 1:])
