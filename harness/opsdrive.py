"""opsdrive.py — operation histories on one long-lived GraphProcessor, compared step by step with a freshly built processor
carrying the same fixed values (C05) and with the model's restrict_rows (C15)."""
import pickle
from common import sx, run_dsgm, rng_for, is_model_error
import dsgcase, procdrive
# known-finding classes whose mechanism lies in the complete encoder: the fast encoder's decode is still compared with its model
FAST_MODEL_COVERS = {'K13'}


def _rows(gp, E_all, fixed):
    """enumerated rows of the processor in -1 form (columns of the free variables)"""
    X, A = gp.get_all_discrete_x()
    free = [e for i, e in enumerate(E_all) if i not in fixed]
    out = []
    for xr, ar in zip(X.tolist(), A.tolist()):
        out.append(tuple((int(v) if not (e[0] == 'dv' and e[2][0] == 'cont') else 0) if a else -1
                         for v, a, e in zip(xr, ar, free)))
    return sorted(out)


def _decode_obs(b, gp, x, create=True):
    inst, x2, act = gp.get_graph(list(x), create=create)
    x2 = [float(v) if isinstance(v, float) else int(v) for v in x2]
    act = [bool(a) for a in act]
    if inst is None:
        return (x2, act, None, None, None), None
    nodes, dvv = procdrive.observe_instance(b, inst)
    extra = sorted((str(k), v) for k, v in inst.metric_values.items())
    return (x2, act, nodes, dvv, extra), inst


def gen_ops(rng, E, n_ops, profile=None):
    ops = []
    fixed = {}
    if profile == 'fixsel':
        # fix one selection variable (preferring a late one: forced/linked choices then precede it) and decode repeatedly
        sel_idx = [i for i, e in enumerate(E) if e[0] == 'sel']
        if sel_idx:
            i = sel_idx[-1] if rng.random() < 0.6 else rng.choice(sel_idx)
            fixed[i] = rng.randrange(len(E[i][2]))
            ops.append(['fix', i, fixed[i]])
            ops += [['decode', None, True] for _ in range(3)]
    for _ in range(n_ops):
        r = rng.random()
        free_idx = [i for i in range(len(E)) if i not in fixed]
        if r < 0.45 or not E:
            ops.append(['decode', None, rng.random() < 0.8])       # vector drawn at run time over the free variables
        elif r < 0.55:
            ops.append(['enumerate'])
        elif r < 0.62:
            ops.append(['stats'])
        elif r < 0.78 and free_idx:
            i = rng.choice(free_idx)
            e = E[i]
            if e[0] == 'sel':
                v = rng.randrange(len(e[2]))
            elif e[2][0] == 'disc':
                v = rng.randrange(e[2][1])
            else:
                v = e[2][1] + (e[2][2] - e[2][1]) * rng.choice([0.0, 0.5, 1.0])
            fixed[i] = v
            ops.append(['fix', i, v])
        elif r < 0.88 and fixed:
            i = rng.choice(sorted(fixed))
            del fixed[i]
            ops.append(['free', i])
        elif r < 0.95:
            ops.append(['mutate'])
        else:
            ops.append(['pickle'])
    return ops


def run(case, kind, seed=0, n_ops=10, ops=None, profile=None):
    from adsg_core.optimization.graph_processor import GraphProcessor
    from adsg_core.optimization.hierarchy import SelChoiceEncoderType
    rng = rng_for(seed, 'ops', kind, sx([case['n'], case['edges']]))
    fails, tags = [], ['enc=' + kind]

    def fail(clause, detail):
        fails.append({'clause': clause, 'detail': detail})
    try:
        b = dsgcase.build(case)
    except Exception as e:
        return {'skip': 'build:%s' % type(e).__name__, 'tags': tags}
    et = SelChoiceEncoderType.COMPLETE if kind == 'complete' else SelChoiceEncoderType.FAST

    def fresh(fixed):
        g = GraphProcessor(b.dsg, encoder_type=et)
        dvs = g.all_des_vars
        for i, v in sorted(fixed.items()):
            g.fix_des_var(dvs[i], v)
        return g
    try:
        gp = GraphProcessor(b.dsg, encoder_type=et)
        E, Esx = procdrive.encoding_of(b, gp)
    except Exception as e:
        return {'skip': 'construction:%s' % type(e).__name__, 'tags': tags}
    if any(e is None for e in Esx):
        return {'skip': 'connection-choice', 'tags': tags}
    if not E:
        return {'skip': 'no-variables', 'tags': tags}
    rows0 = None
    try:
        ref_gp = GraphProcessor(b.dsg, encoder_type=SelChoiceEncoderType.COMPLETE)
        E_ref, _ = procdrive.encoding_of(b, ref_gp)
        rows_ref_all = _rows(ref_gp, E_ref, {})
        rows_ref = rows_ref_all if [e[:3] for e in E_ref] == [e[:3] for e in E] else None
        if kind == 'complete':
            rows0 = rows_ref
            if rows0 is None:
                return {'skip': 'enumeration-unavailable', 'tags': tags}
    except Exception as e:
        return {'skip': 'enumeration:%s' % type(e).__name__, 'tags': tags}
    # the admissible assignments of the model decide whether fixed values leave anything: a fixed selection variable keeps
    # the assignments that give that choice the fixed option (for a selection choice "inactive" is not a fixable value)
    adm = None
    try:
        mg = dsgcase.model_dsg(case, b.opt_order, getattr(b, 'cons_opts', None))
        res = run_dsgm([sx(['enum_adm', mg])])[0]
        if not is_model_error(res) and res != 'none':
            adm = [{c_: o_ for c_, o_ in s_} for s_, _ in res[1]]
    except Exception:
        adm = None

    def restricted_empty(fixed):
        """no valid design has all the fixed values (the restricted problem is empty): decoding may then fail explicitly"""
        if adm is None:
            return None
        for sigma in adm:
            ok = True
            for i, v in fixed.items():
                e = E[i]
                if e[0] == 'sel':
                    node = e[2][v] if 0 <= v < len(e[2]) else None
                    ok = ok and sigma.get(e[1]) == node
            if ok:
                return False
        return True
    origin_of = {sc['id']: sc['origin'] for sc in case.get('sel', [])}
    # the fast encoder's decode as a function of graph, vector and fixed flags (Greedy.fast_decode), compared "=": no choice
    # constraints, outside the known-finding classes
    fast_vars = None
    if kind == 'fast' and not case.get('conn') and not (dsgcase.guards(case) - FAST_MODEL_COVERS):
        declared = {e[1]: (j, e[2]) for j, e in enumerate(E) if e[0] == 'sel'}
        # design-vector order: the declared selection variables as the encoding lists them (the analyzer orders choices
        # layer by layer), the undeclared (forced) ones after them -- they have one value; application order: by decision id
        by_id = sorted((sc['id'] for sc in case['sel']), key=lambda c: 'S%02d' % c)
        order = [e[1] for e in E if e[0] == 'sel'] + [c for c in by_id if c not in declared]
        fast_vars = [[c, list(declared[c][1]) if c in declared else list(b.opt_order[c])] for c in order]
        fast_ovars = sorted(fast_vars, key=lambda v: 'S%02d' % v[0])
        mg_fast = dsgcase.model_dsg(case, b.opt_order, getattr(b, 'cons_opts', None))
    if ops is None:
        ops = gen_ops(rng, E, n_ops, profile)
    fixed = {}
    returned = []
    trace = []
    model_q, model_expect = [], []
    for op in ops:
        free_vars = [e for i, e in enumerate(E) if i not in fixed]
        try:
            if op[0] == 'decode':
                x = op[1]
                if x is None:
                    vecs, _ = procdrive.vectors_for(rng, free_vars, 1)
                    x = vecs[0] if vecs else []
                    op[1] = x
                try:
                    obs, inst = _decode_obs(b, gp, x, create=op[2])
                except RuntimeError as ex_dec:
                    if restricted_empty(fixed):
                        trace.append(['decode-empty-restricted-space', x])
                        continue
                    raise
                ref, _ = _decode_obs(b, fresh(fixed), x, create=op[2])
                trace.append(['decode', x, op[2], obs[0], obs[1]])
                # the corrected vector stays inside the declared ranges of the free variables (absolute check: a fresh
                # processor with the same fixed values would share a mistake made here), inactive discrete entries are 0
                for (e_, v_, a_) in zip(free_vars, obs[0], obs[1]):
                    if e_[0] == 'sel':
                        ok_ = float(v_).is_integer() and 0 <= v_ < max(1, len(e_[2]))
                    elif e_[0] == 'conn':
                        ok_ = True
                    elif e_[2][0] == 'disc':
                        ok_ = float(v_).is_integer() and 0 <= v_ < max(1, e_[2][1])
                    else:
                        ok_ = e_[2][1] - 1e-9 <= v_ <= e_[2][2] + 1e-9
                    if ok_ and not a_ and (e_[0] == 'sel' or (e_[0] == 'dv' and e_[2][0] == 'disc')) and v_ != 0:
                        ok_ = False
                    if not ok_:
                        fail('corrected-vector-out-of-range', 'after %s: x=%s fixed=%s -> %s act %s: entry %s of variable %s' % (trace[:-1], x, fixed, obs[0], obs[1], v_, e_[:3]))
                        break
                # a fixed selection variable is respected: when its choice is active in the decoded instance (the originating
                # node is there) the fixed option is in the instance (absolute check, same reason)
                if obs[2] is not None:
                    for i_, v_ in fixed.items():
                        e_ = E[i_]
                        if e_[0] == 'sel' and 0 <= v_ < len(e_[2]) and origin_of.get(e_[1]) in obs[2] and e_[2][v_] not in obs[2]:
                            fail('fixed-value-not-respected', 'after %s: x=%s with choice %s fixed to option %s decodes to nodes %s' % (trace[:-1], x, e_[1], e_[2][v_], obs[2]))
                            break
                if fast_vars is not None and obs[2] is not None:
                    free_idx = [i for i in range(len(E)) if i not in fixed]
                    xfull = {i: v for i, v in zip(free_idx, x)}
                    xfull.update(fixed)
                    if all(E[j][0] != 'sel' or (float(xfull[j]).is_integer() and 0 <= xfull[j] < len(E[j][2])) for j in xfull):
                        m = run_dsgm([sx(['fast_decode', True, mg_fast, fast_ovars, fast_vars,
                                          [int(xfull[declared[c][0]]) if c in declared else 0 for c, _ in fast_vars],
                                          [bool(c in declared and declared[c][0] in fixed) for c, _ in fast_vars]])])[0]
                        if is_model_error(m) or m == 'none':
                            fail('model-error', sx(m))
                        elif m[1] == 'none':
                            fail('fast-decode-differs-from-model', 'after %s: x=%s fixed=%s: implementation %s nodes %s, the model finds no feasible vector' % (trace[:-1], x, fixed, obs[0], obs[2]))
                        else:
                            imp, inst_m = m[1][1]
                            imp_of = {c: v for (c, _), v in zip(fast_vars, imp)}
                            want = [(imp_of[E[i][1]] if imp_of[E[i][1]] >= 0 else 0, imp_of[E[i][1]] >= 0) for i in free_idx if E[i][0] == 'sel']
                            got = [(obs[0][k], bool(obs[1][k])) for k, i in enumerate(free_idx) if E[i][0] == 'sel']
                            if want != got or sorted(inst_m) != list(obs[2]):
                                fail('fast-decode-differs-from-model', 'after %s: x=%s fixed=%s: implementation %s nodes %s; model %s nodes %s' % (
                                    trace[:-1], x, fixed, got, obs[2], want, sorted(inst_m)))
                if obs != ref:
                    fail('decode-differs-from-fresh-processor', 'after %s: x=%s create=%s got %s, fresh processor %s' % (trace[:-1], x, op[2], obs, ref))
                if obs[4]:
                    fail('returned-instance-not-pristine', 'after %s: instance carries %s' % (trace[:-1], obs[4]))
                if op[2]:
                    obs2, _ = _decode_obs(b, gp, x, create=False)
                    if obs2[:2] != obs[:2]:
                        fail('create-flag-changes-result', 'x=%s create: %s no-create: %s' % (x, obs[:2], obs2[:2]))
                if inst is not None:
                    returned.append(inst)
            elif op[0] == 'enumerate':
                if kind != 'complete':
                    continue
                r1 = _rows(gp, E, fixed)
                r2 = _rows(fresh(fixed), E, fixed)
                trace.append(['enumerate', len(r1)])
                if r1 != r2:
                    fail('enumeration-differs-from-fresh-processor', 'after %s: %d rows vs %d' % (trace[:-1], len(r1), len(r2)))
                # C15: the rows under fixed values are the model's restriction of the unfixed rows
                q_rows = [list(r) for r in rows0]
                qs = []
                for i in sorted(fixed, reverse=True):
                    e = E[i]
                    v = fixed[i]
                    if e[0] == 'dv' and e[2][0] == 'cont':
                        v = 0
                    qs.append((e[0] == 'sel', i, int(v)))
                model_q.append(('restrict', qs, q_rows))
                model_expect.append(('rows', r1, list(trace)))
            elif op[0] == 'stats':
                if kind != 'complete':
                    continue
                f = fresh(fixed)
                a = (gp.get_n_valid_designs(with_fixed=True), gp.get_n_design_space(with_fixed=True),
                     [dv.name for dv in gp.des_vars], [dv.n_opts for dv in gp.des_vars])
                c = (f.get_n_valid_designs(with_fixed=True), f.get_n_design_space(with_fixed=True),
                     [dv.name for dv in f.des_vars], [dv.n_opts for dv in f.des_vars])
                trace.append(['stats', a[0], a[1]])
                # the imputation ratio is the quotient of the two sizes just read, with and without the fixed values
                for wf in (True, False):
                    nv_, nd_ = gp.get_n_valid_designs(with_fixed=wf), gp.get_n_design_space(with_fixed=wf)
                    ir_ = gp.get_imputation_ratio(with_fixed=wf, include_cont=False)
                    if nv_ > 0 and abs(ir_ - nd_ / nv_) > 1e-9 * max(1.0, ir_):
                        fail('imputation-ratio-is-not-the-quotient', 'after %s (with_fixed=%s): ratio %r, declared %d / valid %d' % (trace[:-1], wf, ir_, nd_, nv_))
                        break
                if a != c:
                    fail('statistics-differ-from-fresh-processor', 'after %s: %s vs %s' % (trace[:-1], a, c))
                if len(gp.des_vars) != len(E) - len(fixed):
                    fail('fixed-variable-still-in-design-vector', '%d variables, %d fixed of %d' % (len(gp.des_vars), len(fixed), len(E)))
            elif op[0] == 'fix':
                i, v = op[1], op[2]
                gp.fix_des_var(gp.all_des_vars[i], v)
                fixed[i] = v
                trace.append(['fix', i, v])
                if not gp.is_fixed(gp.all_des_vars[i]) or gp.fixed_value(gp.all_des_vars[i]) != v:
                    fail('fixed-value-not-recorded', 'variable %d value %s' % (i, v))
                # out-of-range values must be rejected and leave the state unchanged
                e = E[i]
                bad = len(e[2]) if e[0] == 'sel' else (e[2][1] if e[2][0] == 'disc' else e[2][2] + 1.0)
                try:
                    gp.fix_des_var(gp.all_des_vars[i], bad)
                    fail('fix-accepts-out-of-range-value', 'variable %d value %s' % (i, bad))
                except ValueError:
                    if gp.fixed_value(gp.all_des_vars[i]) != v:
                        fail('rejected-fix-changed-state', 'variable %d' % i)
            elif op[0] == 'free':
                i = op[1]
                gp.free_des_var(gp.all_des_vars[i])
                fixed.pop(i, None)
                trace.append(['free', i])
                if gp.is_fixed(gp.all_des_vars[i]):
                    fail('free-does-not-restore', 'variable %d still fixed' % i)
            elif op[0] == 'mutate':
                if returned:
                    inst = returned[-1]
                    nd = list(inst.graph.nodes)[0]
                    inst.set_metric_value(nd, 42.0)
                    for dvn in inst.des_var_nodes:
                        inst.set_des_var_value(dvn, 0)
                    trace.append(['mutate'])
            elif op[0] == 'pickle':
                gp = pickle.loads(pickle.dumps(gp))
                # node objects are re-created by pickle: from here on nodes are recognised by their string
                b = _Rebind(b, _NameIdent({str(n): i for i, n in b.node.items()}))
                trace.append(['pickle'])
        except Exception as ex:
            import traceback
            fail('operation-raises:%s' % type(ex).__name__, 'after %s: op %s: %s: %s | %s' % (trace, op, type(ex).__name__, ex, traceback.format_exc()[-400:]))
            break
    # final: after freeing everything the processor must equal a fresh one
    try:
        for i in sorted(fixed):
            gp.free_des_var(gp.all_des_vars[i])
        fixed = {}
        if kind == 'complete' and rows0 is not None:
            r_end = _rows(gp, E, {})
            if r_end != rows0:
                fail('free-does-not-restore', 'after %s and freeing all: %d rows, originally %d' % (trace, len(r_end), len(rows0)))
        vecs, _ = procdrive.vectors_for(rng, E, 3)
        f0 = fresh({})
        for x in vecs:
            o1, _ = _decode_obs(b, gp, x)
            o2, _ = _decode_obs(b, f0, x)
            if o1 != o2:
                fail('free-does-not-restore', 'after %s and freeing all: x=%s decodes to %s, fresh processor %s' % (trace, x, o1, o2))
    except Exception as ex:
        fail('operation-raises:%s' % type(ex).__name__, 'final restore: %s: %s' % (type(ex).__name__, ex))
    # model side of C15
    if model_q:
        for (kind_, qs, q_rows), (_, r_impl, tr) in zip(model_q, model_expect):
            rows = q_rows
            ok = True
            for sel, i, v in qs:
                res = run_dsgm([sx(['restrict_rows', sel, i, v, rows])])[0]
                if is_model_error(res):
                    fails.append({'clause': 'model-error', 'detail': sx(res), 'no_input': True})
                    ok = False
                    break
                rows = res
            if ok and sorted(tuple(r) for r in rows) != r_impl:
                fail('fixed-rows-are-not-the-restriction-of-the-unfixed-rows',
                     'history %s: impl %s model %s' % (tr, r_impl[:6], sorted(tuple(r) for r in rows)[:6]))
    tags.append('ops=%d' % len(trace))
    for t in trace:
        tags.append('op:' + t[0])
    return {'fails': fails, 'tags': tags, 'nontrivial': len(trace) >= 2, 'impl': {'trace': trace[:12]}, 'ops': ops}


class _NameIdent:
    """identity map that recognises nodes by their string (used after a pickle round trip)"""

    def __init__(self, name_to_id):
        self.m = name_to_id

    def __getitem__(self, node):
        return self.m[str(node)]


class _Rebind:
    def __init__(self, b, ident):
        self.__dict__.update(b.__dict__)
        self.ident = ident
