"""graphdrive.py — drives the graph API (no processor) against the model: used by C02 and C06 (and C13 graph level)."""
import itertools
from common import sx, run_dsgm, rng_for, is_model_error
import dsgcase


def _sel_pairs(b, g0, g):
    """origin->option edges present in instance g for the selection choices of the case: {cid: [option ids]}"""
    out = {}
    return out


def node_ids(b, g):
    return sorted(b.ident[n] for n in g.graph.nodes)


def explore(case, **kw):
    try:
        return _explore(case, **kw)
    except Exception as e:
        if type(e).__name__ == 'Stale':
            return {'fail': {'clause': 'offered-choice-not-in-feasible-graph', 'detail': str(e)}}
        raise


def _explore(case, max_steps=400, orders_per_sigma=6, seed=0, check_intermediate=False):
    """returns dict(fail=..., stats...) for one graph case"""
    rng = rng_for(seed, 'explore', sx([case['n'], case['edges'], [s['options'] for s in case['sel']]]))
    try:
        b = dsgcase.build(case)
    except Exception as e:
        return {'skip': 'build:%s' % type(e).__name__}
    g0 = b.dsg
    sel_ids = [sc['id'] for sc in case['sel']]
    origin = {sc['id']: sc['origin'] for sc in case['sel']}
    mg = dsgcase.model_dsg(case, b.opt_order, getattr(b, 'cons_opts', None))
    res = run_dsgm([sx(['enum_adm', mg])])[0]
    if is_model_error(res) or res == 'none':
        return {'fail': {'clause': 'model-error', 'detail': sx(res), 'no_input': True}}
    adm = []          # (sigma dict, inst node list)
    for s, inst in res[1]:
        if inst == 'none':
            return {'fail': {'clause': 'model-error', 'detail': 'inst_nodes none', 'no_input': True}}
        adm.append(({c: o for c, o in s}, sorted(inst[1])))
    adm_insts = {}
    for s, inst in adm:
        adm_insts.setdefault(tuple(inst), []).append(s)
    tags = ['adm=%d' % min(len(adm), 9), 'sel=%d' % len(sel_ids), 'incompat=%d' % len(case.get('incompat', [])),
            'cons=%s' % (case['cons'][0]['type'] if case.get('cons') else 'none')]
    steps = [0]

    # the initial graph: feasible flag vs admissible set (infeasible ==> no admissible assignment)
    if not g0.feasible and adm:
        return {'fail': {'clause': 'initial-graph-infeasible-but-admissible-assignment-exists',
                         'detail': 'model admits %s' % adm[0][0]}, 'tags': tags}

    def taken_auto(g):
        out = []
        for c, o in g.get_taken_single_selection_choices():
            out.append((b.ident[c], None if o is None else b.ident[o]))
        return out

    init_auto = taken_auto(g0)

    class Stale(Exception):
        pass

    def offered(g):
        """selection choices the implementation offers next; a choice node that is no longer in the graph may only be
        offered by a graph that is reported infeasible (nothing is demanded of infeasible graphs)"""
        off = [c for c in g.get_ordered_next_choice_nodes() if b.ident[c] in origin]
        stale = [c for c in off if c not in g.graph.nodes]
        if stale:
            if g.feasible:
                raise Stale('choice %d offered but not in the graph' % b.ident[stale[0]])
            return []
        return [b.ident[c] for c in off]

    def final_check(g, sigma_path, expect_sigma=None):
        """property-determined checks on an end state"""
        nodes = node_ids(b, g)
        left = [n for n in nodes if n in origin]
        if expect_sigma is not None:
            # following an admissible assignment: must end final, feasible, with exactly the closure
            want = None
            for s, inst in adm:
                if s == expect_sigma:
                    want = inst
            if not g.final:
                return 'admissible-assignment-does-not-end-final', 'left %s' % left
            if not g.feasible:
                return 'admissible-assignment-ends-infeasible', 'sigma %s' % expect_sigma
            if nodes != want:
                return 'instance-is-not-the-closure', 'sigma %s impl %s closure %s' % (expect_sigma, nodes, want)
            for c, o in expect_sigma.items():
                if not g.graph.has_edge(b.node[origin[c]], b.node[o]):
                    return 'selected-option-not-wired', 'choice %d option %d' % (c, o)
            return None
        if g.final and g.feasible:
            for a, c in case.get('incompat', []):
                if a in nodes and c in nodes:
                    return 'feasible-instance-contains-incompatible-pair', '%d,%d nodes %s path %s' % (a, c, nodes, sigma_path)
        if g.final and g.feasible:
            if tuple(nodes) not in adm_insts:
                return 'feasible-final-instance-not-admissible', 'nodes %s path %s' % (nodes, sigma_path)
        return None

    # ---- (1) follow every admissible assignment in several orders
    n_orders = 0
    for sigma, inst in adm:
        if sel_ids and len(sel_ids) <= 3:
            prios = list(itertools.permutations(sel_ids))
        else:
            prios = [tuple(rng.sample(sel_ids, len(sel_ids))) for _ in range(orders_per_sigma)]
        if len(prios) > orders_per_sigma:
            prios = rng.sample(prios, orders_per_sigma)
        seen_paths = set()
        for prio in prios:
            g = g0
            path = []
            rank = {c: i for i, c in enumerate(prio)}
            while True:
                off = offered(g)
                if not off:
                    break
                for c in off:
                    if c not in sigma:
                        return {'fail': {'clause': 'offered-choice-is-not-active', 'detail': 'choice %d offered, sigma %s path %s' % (c, sigma, path)}, 'tags': tags}
                c = min(off, key=lambda x: rank[x])
                opts = [b.ident[o] for o in g.get_option_nodes(b.node[c])]
                if sigma[c] not in opts:
                    return {'fail': {'clause': 'admissible-option-not-offered',
                                     'detail': 'choice %d option %d not in %s; sigma %s path %s' % (c, sigma[c], opts, sigma, path)}, 'tags': tags}
                # options are listed in the order of the full option list
                full = b.opt_order[c]
                if opts != [o for o in full if o in opts]:
                    return {'fail': {'clause': 'option-order-differs', 'detail': '%s vs %s' % (opts, full)}, 'tags': tags}
                try:
                    g = g.get_for_apply_selection_choice(b.node[c], b.node[sigma[c]])
                except Exception as e:
                    return {'fail': {'clause': 'apply-raises', 'detail': '%s: %s; sigma %s path %s' % (type(e).__name__, e, sigma, path)}, 'tags': tags}
                path.append((c, sigma[c]))
                steps[0] += 1
            if tuple(path) in seen_paths:
                continue
            seen_paths.add(tuple(path))
            n_orders += 1
            f = final_check(g, path, expect_sigma=sigma)
            if f:
                return {'fail': {'clause': f[0], 'detail': f[1] + ' order %s' % (path,)}, 'tags': tags}
            if steps[0] > max_steps:
                break
        if steps[0] > max_steps:
            break

    # ---- (2) depth-first over every path the implementation offers: feasible final states must be admissible
    n_final = [0]
    stack = [(g0, [])]
    while stack and steps[0] <= 2 * max_steps:
        g, path = stack.pop()
        off = offered(g)
        if not off:
            n_final[0] += 1
            f = final_check(g, path)
            if f:
                return {'fail': {'clause': f[0], 'detail': f[1]}, 'tags': tags}
            continue
        cs = off if len(off) <= 2 else rng.sample(off, 2)
        for c in cs:
            for o in g.get_option_nodes(b.node[c]):
                try:
                    g2 = g.get_for_apply_selection_choice(b.node[c], o)
                except Exception as e:
                    return {'fail': {'clause': 'apply-raises', 'detail': '%s: %s path %s' % (type(e).__name__, e, path)}, 'tags': tags}
                steps[0] += 1
                stack.append((g2, path + [(c, b.ident[o])]))
    tags.append('orders=%d' % min(n_orders, 30))
    return {'impl': {'admissible': len(adm), 'orders_followed': n_orders, 'final_states': n_final[0], 'steps': steps[0]},
            'nontrivial': len(adm) >= 2 or (len(adm) == 1 and len(sel_ids) >= 2), 'tags': tags, 'queries': []}
