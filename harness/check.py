"""check.py — decides one property: proof obligations (Coq) + correspondence of the extracted model with /repo.

usage: check.py Cxx quick|thorough
       check.py Cxx --replay <file>
Exit 0 = property held on everything explored; exit 1 = a line "VIOLATION property=<id> replay=<path>" was printed.
"""
import os, sys, json, time, re, subprocess, importlib, traceback, glob
import multiprocessing as mp

sys.path.insert(0, os.path.dirname(os.path.abspath(__file__)))
import common
from common import VERIF, Stats

COQ = os.path.join(VERIF, 'coq')
FORBIDDEN = re.compile(r'\b(Admitted|admit|Axiom|Axioms|Parameter|Parameters|Conjecture|Abort All|Unset Guard Checking|'
                       r'bypass_check|Unset Positivity Checking|Unset Universe Checking|Admit Obligations|'
                       r'native_compute|type-in-type|impredicative-set)\b')


def log(*a):
    print(*a, flush=True)


# ------------------------------------------------------------------------------------------- proof side
def strip_comments(src):
    out, depth, i = [], 0, 0
    while i < len(src):
        if src.startswith('(*', i):
            depth += 1
            i += 2
        elif src.startswith('*)', i) and depth > 0:
            depth -= 1
            i += 2
        else:
            if depth == 0:
                out.append(src[i])
            i += 1
    return ''.join(out)


def hygiene():
    """fail closed on anything that would declare an axiom or switch off a kernel check"""
    bad = []
    for path in sorted(glob.glob(os.path.join(COQ, '**', '*.v'), recursive=True)):
        src = strip_comments(open(path).read())
        for ln, line in enumerate(src.split('\n'), 1):
            m = FORBIDDEN.search(line)
            if m:
                bad.append('%s:%d: %s' % (os.path.relpath(path, VERIF), ln, m.group(0)))
            if re.match(r'\s*(Variable|Variables|Hypothesis|Hypotheses|Context)\b', line):
                # allowed only inside a Section: checked by a crude nesting count
                pre = src.split('\n')[:ln - 1]
                depth = sum(1 for l in pre if re.match(r'\s*Section\b', l)) - sum(1 for l in pre if re.match(r'\s*End\b', l))
                if depth <= 0:
                    bad.append('%s:%d: %s outside a Section' % (os.path.relpath(path, VERIF), ln, line.strip()))
    proj = open(os.path.join(COQ, '_CoqProject')).read()
    if re.search(r'-(type-in-type|impredicative-set|vos|vok)', proj):
        bad.append('_CoqProject: forbidden flag')
    return bad


def build(clean=False):
    t0 = time.time()
    p = subprocess.run([os.path.join(VERIF, 'build.sh')] + (['clean'] if clean else []),
                       stdout=subprocess.PIPE, stderr=subprocess.STDOUT)
    return p.returncode, p.stdout.decode(), time.time() - t0


def property_theorems(pid):
    """Obligations of a property: the Theorems stated in Properties/<pid>.v (each closed by `exact <lemma>`)."""
    path = os.path.join(COQ, 'Properties', pid + '.v')
    if not os.path.exists(path):
        return path, []
    src = strip_comments(open(path).read())
    return path, re.findall(r'^\s*(?:Theorem|Corollary)\s+([A-Za-z0-9_\']+)', src, re.M)


def recheck_property_file(pid):
    """Re-compile Properties/<pid>.v in this run and parse the Print Assumptions output beneath every theorem."""
    path, thms = property_theorems(pid)
    if not thms:
        return thms, {}, 'no theorems in %s' % path, ''
    p = subprocess.run(['timeout', '600', 'coqc', '-Q', '.', 'DSG', os.path.relpath(path, COQ)], cwd=COQ,
                       stdout=subprocess.PIPE, stderr=subprocess.STDOUT)
    out = '\n'.join(l for l in p.stdout.decode().split('\n') if 'WARNING conda' not in l)
    if p.returncode != 0:
        return thms, {}, 'coqc failed on Properties/%s.v' % pid, out
    # Print Assumptions blocks appear in file order: either "Closed under the global context" or "Axioms:" + lines
    blocks = re.split(r'(?=Closed under the global context|Axioms:)', out)
    blocks = [b for b in blocks if b.startswith('Closed under') or b.startswith('Axioms:')]
    assum = {}
    for name, b in zip(thms, blocks):
        if b.startswith('Closed under'):
            assum[name] = []
        else:
            ax = re.findall(r'^([A-Za-z0-9_.\']+)\s*:', b.split('\n', 1)[1] if '\n' in b else '', re.M)
            assum[name] = ax
    err = None
    if len(blocks) < len(thms):
        err = 'only %d Print Assumptions blocks for %d theorems' % (len(blocks), len(thms))
    return thms, assum, err, out


# ------------------------------------------------------------------------------------------- correspondence side
_MOD = None


def _init_worker(pid):
    global _MOD
    # one private cache directory per worker process: the library's pickle caches are not safe against a concurrent
    # writer in another process (a reader then hits EOFError), which is not what the checks are about
    base = os.environ.get('VERIF_SCRATCH')
    if base:
        d = os.path.join(base, 'xdg_%d' % os.getpid())
        os.makedirs(d, exist_ok=True)
        os.environ['XDG_CACHE_HOME'] = d
    _MOD = importlib.import_module('props.' + pid)


class _CaseTimeout(BaseException):
    pass


def _alarm(signum, frame):
    raise _CaseTimeout()


def _run_case(case):
    import signal
    limit = int(os.environ.get('VERIF_CASE_TIMEOUT', '120'))
    try:
        signal.signal(signal.SIGALRM, _alarm)
        signal.alarm(limit)
    except Exception:
        pass
    try:
        return _MOD.run_case(case)
    except _CaseTimeout:
        return {'harness_error': 'case-timeout: no result within %d s' % limit}
    except Exception as e:  # a harness crash is a check error, never a pass
        return {'harness_error': '%s: %s' % (type(e).__name__, e), 'trace': traceback.format_exc()[-2000:]}
    finally:
        try:
            signal.alarm(0)
        except Exception:
            pass


def evaluate_cases(mod, cases, pool):
    """run the implementation on every case (in worker processes), the model on the produced queries, compare.
    returns list of (case, failure-or-None, result) and stats"""
    if pool is not None and len(cases) > 4:
        chunk = max(1, min(32, len(cases) // (4 * common.NPROC) or 1))
        results = pool.map(_run_case, cases, chunksize=chunk)
    else:
        global _MOD
        _MOD = mod
        results = [_run_case(c) for c in cases]
    queries, owner = [], []
    for i, r in enumerate(results):
        for q in r.get('queries', []):
            queries.append(q)
            owner.append(i)
    model_out = common.run_dsgm_parallel(queries) if queries else []
    per_case = [[] for _ in cases]
    for o, m in zip(owner, model_out):
        per_case[o].append(m)
    out = []
    for case, r, ms in zip(cases, results, per_case):
        if 'harness_error' in r and str(r['harness_error']).startswith('case-timeout'):
            out.append((case, None, {'skip': 'case-timeout', 'tags': []}))
            continue
        if 'harness_error' in r:
            out.append((case, {'clause': 'harness-error', 'detail': r['harness_error'], 'trace': r.get('trace'),
                               'no_input': True}, r))
            continue
        if r.get('skip'):
            out.append((case, None, r))
            continue
        fail = None
        for m in ms:
            if common.is_model_error(m):
                fail = {'clause': 'model-error', 'detail': common.sx(m), 'no_input': True}
        if fail is None and r.get('fail') is not None:
            fail = r['fail']
            if isinstance(fail, str):
                fail = {'clause': fail}
        elif fail is None:
            try:
                fail = mod.compare(case, r, ms)
            except Exception as e:
                fail = {'clause': 'harness-error', 'detail': 'compare: %s: %s' % (type(e).__name__, e),
                        'trace': traceback.format_exc()[-2000:], 'no_input': True}
            if isinstance(fail, str):
                fail = {'clause': fail}
        if fail is not None:
            fail.setdefault('impl', r.get('impl'))
            fail.setdefault('model', ms)
        out.append((case, fail, r))
    return out


def shrink(mod, case, fail, pool, budget_s=25, known=()):
    """greedy delta debugging with the property's own candidate generator; keeps the same failing clause"""
    if not hasattr(mod, 'shrink_candidates') or os.environ.get('VERIF_NO_SHRINK') == '1':
        return case, fail
    t0 = time.time()
    # a history property records the operations it ran: replay them verbatim so that single operations can be dropped
    if fail.get('ops') and '_ops' not in case:
        c2 = dict(case, _ops=fail['ops'])
        r2 = evaluate_cases(mod, [c2], None)
        if r2 and r2[0][1] is not None and r2[0][1].get('clause') == fail.get('clause'):
            case, fail = c2, r2[0][1]
    improved = True
    while improved and time.time() - t0 < budget_s:
        improved = False
        cands = list(mod.shrink_candidates(case))[:400]
        if not cands:
            break
        res = evaluate_cases(mod, cands, pool)
        for c, f, _ in res:
            if f is not None and f.get('clause') == fail.get('clause'):
                # a smaller case must stay outside every known-finding class, otherwise the violation would be
                # mistaken for that finding
                if hasattr(mod, 'match_known') and mod.match_known(c, f, known) is not None:
                    continue
                case, fail, improved = c, f, True
                break
    return case, fail


def load_known(pid):
    path = os.path.join(VERIF, 'known_findings.json')
    if not os.path.exists(path):
        return []
    return [k for k in json.load(open(path)).get('findings', []) if pid in k.get('properties', []) and k.get('status') == 'known']


def write_replay(pid, case, fail, extra=None):
    os.makedirs(os.path.join(VERIF, 'replays'), exist_ok=True)
    h = common.case_hash([case, fail.get('clause')])
    path = os.path.join(VERIF, 'replays', '%s-%s.json' % (pid, h))
    doc = {'property': pid, 'case': case, 'clause': fail.get('clause'), 'detail': fail.get('detail'),
           'impl': fail.get('impl'), 'model': fail.get('model'), 'trace': fail.get('trace'),
           'replay_cmd': './check %s --replay %s' % (pid, os.path.relpath(path, VERIF))}
    if extra:
        doc.update(extra)
    json.dump(doc, open(path, 'w'), indent=1, default=str)
    return path


def main():
    if len(sys.argv) < 3:
        print(__doc__)
        sys.exit(2)
    pid = sys.argv[1]
    replay = None
    if sys.argv[2] == '--replay':
        replay = sys.argv[3]
        tier = 'quick'
    else:
        tier = sys.argv[2]
    tier = os.environ.get('VERIF_TIER', tier) if sys.argv[2] != '--replay' and sys.argv[2] not in ('quick', 'thorough') else tier
    seed = int(os.environ.get('VERIF_SEED', '0'))
    # one case may not hold up a run: 60 s in the quick tier, 120 s otherwise (a timed-out case is counted as skipped)
    os.environ.setdefault('VERIF_CASE_TIMEOUT', '60' if (tier == 'quick' and replay is None) else '120')
    t_start = time.time()
    violations = []   # (replay_path, no_input)
    known_hit = []
    evid_path = os.path.join(VERIF, 'evidence', pid + '.json')
    if os.environ.get('VERIF_REPO') not in (None, '', '/repo'):
        # a background sweep against another checkout: its evidence does not belong to /repo, keep it out of evidence/
        evid_path = os.path.join(os.environ.get('VERIF_SCRATCH') or '/tmp', 'evidence-%s.json' % pid)
    os.makedirs(os.path.dirname(evid_path), exist_ok=True)

    # ---- 1. proofs
    bad = hygiene()
    rc, blog, t_build = build(clean=(tier == 'thorough' and replay is None and os.environ.get('VERIF_NO_CLEAN') != '1'))
    thms, assum, perr, pout = ([], {}, None, '')
    proof_fail = None
    if bad:
        proof_fail = {'clause': 'hygiene', 'detail': '; '.join(bad), 'no_input': True}
    elif rc != 0:
        m = re.search(r'File "\./([^"]+)", line (\d+)', blog)
        proof_fail = {'clause': 'coq-build', 'detail': 'build failed%s: %s' % (
            (' at %s:%s' % (m.group(1), m.group(2))) if m else '', blog[-1500:]), 'no_input': True}
    else:
        thms, assum, perr, pout = recheck_property_file(pid)
        if perr:
            proof_fail = {'clause': 'property-theorems', 'detail': perr + '\n' + pout[-1500:], 'no_input': True}
    mod = importlib.import_module('props.' + pid)
    all_axioms = sorted({a for v in assum.values() for a in v})
    allowed = set(getattr(mod, 'ALLOWED_AXIOMS', []))
    unexpected = [a for a in all_axioms if a not in allowed]
    if unexpected and proof_fail is None:
        proof_fail = {'clause': 'assumptions', 'detail': 'unexpected axioms: %s' % unexpected, 'no_input': True}
    log('[%s] proofs: %d theorems, %d re-checked this run, axioms=%s, build %.1fs' %
        (pid, len(thms), len(assum), all_axioms or 'none (closed under the global context)', t_build))

    # ---- 2. correspondence
    stats = Stats()
    evaluations = 0
    nontrivial = set()
    samples = []
    failures = []
    pool = None
    if rc == 0 or os.path.exists(common.DSGM):
        ctx = mp.get_context('fork')
        pool = ctx.Pool(common.NPROC, initializer=_init_worker, initargs=(pid,))
        try:
            if replay:
                doc = json.load(open(replay if os.path.isabs(replay) else os.path.join(VERIF, replay)))
                batches = [('replay', [doc['case']])]
            else:
                corpus = []
                for f in sorted(glob.glob(os.path.join(VERIF, 'corpus', pid, '*.json'))):
                    d = json.load(open(f))
                    c = d['case'] if 'case' in d else d
                    c = dict(c)
                    c['_corpus'] = os.path.basename(f)
                    corpus.append(c)
                batches = [('corpus', corpus)] + list(mod.batches(tier, seed))
            for bname, cases in batches:
                cases = list(cases)
                if not cases:
                    continue
                tb = time.time()
                res = evaluate_cases(mod, cases, pool)
                nfail = 0
                for case, fail, r in res:
                    evaluations += 1
                    for k in r.get('tags', []):
                        stats.add(k)
                    if r.get('skip'):
                        stats.add('skipped:' + str(r['skip']))
                        continue
                    if r.get('nontrivial'):
                        nontrivial.add(common.case_hash({k: v for k, v in case.items() if not k.startswith('_')}))
                    if len(samples) < 3 and r.get('nontrivial') and fail is None:
                        samples.append({'case': case, 'impl': r.get('impl'), 'batch': bname})
                    if replay:
                        log(json.dumps({'case': case, 'impl': r.get('impl'), 'failure': fail}, indent=1, default=str))
                    if fail is not None:
                        nfail += 1
                        failures.append((case, fail))
                log('[%s] batch %-14s %6d cases  %3d mismatches  %.1fs' % (pid, bname, len(cases), nfail, time.time() - tb))
            # ---- 3. triage of failures: shrink, known findings, replay files
            known = load_known(pid)
            seen_sig = set()
            per_clause = {}
            unknown = []
            for case, fail in failures:
                kf = mod.match_known(case, fail, known) if hasattr(mod, 'match_known') else None
                if case.get('_corpus'):
                    kf = None       # corpus cases are witnesses of repaired defects: a failure there is never a known finding
                if kf is not None:
                    stats.add('known:%s:%s' % (kf['id'], fail.get('clause')))
                    if kf['id'] not in known_hit:
                        known_hit.append(kf['id'])
                        log('KNOWN-FINDING: property=%s %s' % (pid, kf['what']))
                    continue
                unknown.append((case, fail))
            for case, fail in unknown:
                per_clause[fail.get('clause')] = per_clause.get(fail.get('clause'), 0) + 1
                if per_clause[fail.get('clause')] > 3:
                    continue
                kf = None
                if not fail.get('no_input') and not case.get('_corpus'):
                    case, fail = shrink(mod, case, fail, pool, known=known)
                    if hasattr(mod, 'match_known'):
                        kf = mod.match_known(case, fail, known)
                if kf is not None:
                    if kf['id'] not in known_hit:
                        known_hit.append(kf['id'])
                        log('KNOWN-FINDING: property=%s %s' % (pid, kf['what']))
                    continue
                sig = common.case_hash([case, fail.get('clause')])
                if sig in seen_sig:
                    continue
                seen_sig.add(sig)
                violations.append((write_replay(pid, case, fail), bool(fail.get('no_input'))))
        finally:
            pool.terminate()
    else:
        stats.add('correspondence-not-run:no-dsgm')

    if proof_fail is not None:
        # the property is no longer shown to hold; a concrete failing input was searched above
        concrete = [v for v in violations if not v[1]]
        path = write_replay(pid, {'broken_obligation': proof_fail['detail'][:4000]}, proof_fail,
                            {'theorems': thms, 'failing_inputs_found': [v[0] for v in concrete]})
        violations.append((path, not concrete))

    # ---- 4. evidence
    trusted = ['Coq 8.16.1 kernel (coqc); vm_compute used in Examples only; native_compute not used',
               'axioms reported by Print Assumptions for this property: %s' % (all_axioms or 'none'),
               'extraction: ExtrOcamlBasic only (bool, option, unit, list, prod, sumbool, sumor -> OCaml); no other Extract directive',
               'OCaml 4.13.1 ocamlfind ocamlopt; driver ocaml/sx.ml + dsgm.ml (parsing/printing/int conversion)',
               'Python harness: generators, implementation drivers, canonicalisation, comparison (harness/)',
               'all of /repo is modelled, not verified: the tie is the correspondence run of this check'] + \
        list(getattr(mod, 'TRUSTED', []))
    ev = {
        'property_id': pid, 'tier': tier, 'seed': seed, 'level': 'proof',
        'coverage': {
            'obligations': len(thms), 'discharged': len(assum) if proof_fail is None else 0,
            'theorems': thms, 'assumptions_per_theorem': assum,
            'checker_cmd': 'cd /verif/coq && make (coqc, full .vo build) && coqc Properties/%s.v (Print Assumptions)' % pid,
            'trusted_base': trusted,
            'evaluations': evaluations, 'distinct_nontrivial': len(nontrivial),
            'rule': getattr(mod, 'RULE', ''),
            'samples': samples if samples else [{'note': 'no sample recorded'}],
            'traces_validated_against_impl': evaluations,
            'input_distribution': stats.as_dict(),
            'partial': getattr(mod, 'PARTIAL', []),
            'known_findings_hit': known_hit,
        },
        'assumptions': list(getattr(mod, 'ASSUMPTIONS', [])),
        'wall_s': round(time.time() - t_start, 2),
        'violations': len(violations),
    }
    json.dump(ev, open(evid_path, 'w'), indent=1, default=str)
    for path, no_input in violations:
        log('VIOLATION property=%s replay=%s%s' % (pid, path, ' no-failing-input-found' if no_input else ''))
    log('[%s] %s tier, seed %d: %d evaluations, %d distinct non-trivial, %d violations, %.1fs' %
        (pid, tier, seed, evaluations, len(nontrivial), len(violations), time.time() - t_start))
    sys.exit(1 if violations else 0)


if __name__ == '__main__':
    main()
