"""procdrive.py — drives GraphProcessor (both selection-choice encoders) against the model.
One runner shared by C01, C03, C04, C07, C14, C16: it returns every failing clause; each property keeps its own."""
import itertools, math
from fractions import Fraction
from common import sx, run_dsgm, rng_for, is_model_error
import dsgcase
# known-finding classes whose mechanism lies in the complete encoder: the fast encoder's decode is still compared with its model
FAST_MODEL_COVERS = {'K13'}


def q(x):
    fr = Fraction(x)
    return [str(fr.numerator), str(fr.denominator)]


def dom_sx(d):
    return ['disc', d[1]] if d[0] == 'disc' else ['cont', q(d[1]), q(d[2])]


def decorate(rng, case, n_dv=(0, 3), n_metric=(0, 0)):
    """turn some leaf nodes into design-variable / metric nodes (permanent or conditional, wherever the leaf sits)"""
    has_out = {s for s, t in case['edges']} | {sc['origin'] for sc in case['sel']}
    leaves = [i for i in range(case['n']) if i not in has_out and i not in case['start']]
    rng.shuffle(leaves)
    kinds = {}
    k = rng.randint(*n_dv)
    for i in leaves[:k]:
        if rng.random() < 0.6:
            kinds[str(i)] = ['dv', ['disc', rng.randint(1, 4)]]
        else:
            lo = rng.choice([0.0, -1.5, 2.0, rng.randint(-40, 40) / 8.0])
            kinds[str(i)] = ['dv', ['cont', lo, lo + rng.choice([1.0, 0.5, 4.0, 2.25])]]
    leaves = leaves[k:]
    for i in leaves[:rng.randint(*n_metric)]:
        d = rng.choice([None, -1, 1])
        ref = rng.choice([None, 0.0, 1.5, -2.0])
        ty = rng.choice([None, None, 'none', 'obj', 'con', 'both'])
        kinds[str(i)] = ['metric', d, ref, ty]
    case = dict(case)
    case['kinds'] = kinds
    return case


def encoding_of(b, gp):
    """encoding description E read from the implementation's design variables"""
    from adsg_core.graph.adsg_nodes import SelectionChoiceNode, DesignVariableNode, ConnectionChoiceNode
    E, Esx = [], []
    for dv in gp.all_des_vars:
        nd = dv.node
        if isinstance(nd, SelectionChoiceNode):
            opts = [b.ident[o] for o in dv.options]
            E.append(('sel', b.ident[nd], opts, bool(dv.conditionally_active)))
            Esx.append(['sel', b.ident[nd], opts])
        elif isinstance(nd, DesignVariableNode):
            d = ['disc', len(nd.options)] if nd.is_discrete else ['cont', float(nd.bounds[0]), float(nd.bounds[1])]
            E.append(('dv', b.ident[nd], d, bool(dv.conditionally_active)))
            Esx.append(['dv', b.ident[nd], dom_sx(d)])
        elif isinstance(nd, ConnectionChoiceNode):
            E.append(('conn', b.ident[nd], dv.n_opts, bool(dv.conditionally_active)))
            Esx.append(None)
        else:
            raise RuntimeError('unknown design variable node %r' % (nd,))
    return E, Esx


def vectors_for(rng, E, limit, extra_out_of_range=False):
    """G-vec: the whole declared space if small, else samples; continuous entries from a small value table"""
    axes = []
    for v in E:
        if v[0] == 'sel':
            axes.append(list(range(len(v[2]))))
        elif v[0] == 'conn':
            axes.append(list(range(v[2])))
        elif v[2][0] == 'disc':
            ax = list(range(v[2][1]))
            if extra_out_of_range:
                ax += [-1, -3, v[2][1], v[2][1] + 4, 0.5, v[2][1] - 0.25, -0.75]
            axes.append(ax)
        else:
            lo, hi = v[2][1], v[2][2]
            ax = [lo, hi, lo + (hi - lo) * 0.25]
            if extra_out_of_range:
                ax += [lo - 1.0, hi + 2.5, lo - 1e6, hi + 1e-9]
            axes.append(ax)
    size = 1
    for a in axes:
        size *= len(a)
    if size <= limit:
        return [list(x) for x in itertools.product(*axes)], True
    out = []
    for _ in range(limit):
        out.append([rng.choice(a) for a in axes])
    return out, False


def match_rows(rows_i, rows_m, E):
    """The enumerated rows must correspond one-to-one to the model's rows (= architectures). An implementation row is
    consistent with a model row when they agree on every entry, except that a selection variable may be listed inactive
    (-1) although the choice is taken in that architecture (automatically resolved choice). Perfect matching required."""
    if len(rows_i) != len(set(rows_i)):
        return 'duplicate rows %s' % ([r for r in set(rows_i) if rows_i.count(r) > 1][:3],)
    if len(rows_i) != len(rows_m):
        return 'missing %s extra %s' % ([r for r in rows_m if r not in rows_i][:3], [r for r in rows_i if r not in rows_m][:3])

    def ok(ri, rm):
        return all(a == c or (a == -1 and e[0] == 'sel' and c >= 0) for a, c, e in zip(ri, rm, E))
    cand = [[j for j, rm in enumerate(rows_m) if ok(ri, rm)] for ri in rows_i]
    match_m = {}

    def aug(i, seen):
        for j in cand[i]:
            if j in seen:
                continue
            seen.add(j)
            if j not in match_m or aug(match_m[j], seen):
                match_m[j] = i
                return True
        return False
    import sys
    sys.setrecursionlimit(10000)
    for i in range(len(rows_i)):
        if not aug(i, set()):
            return 'row %s matches no architecture of the model one-to-one; model rows without a partner: %s' % (
                rows_i[i], [rows_m[j] for j in range(len(rows_m)) if j not in match_m][:3])
    return None


def observe_instance(b, inst):
    from adsg_core.graph.adsg_nodes import DesignVariableNode
    nodes = sorted(b.ident[n] for n in inst.graph.nodes)
    dvv = sorted((b.ident[n], v) for n, v in inst.des_var_values.items())
    return nodes, dvv


def run(case, kind, seed=0, vec_limit=48, out_of_range=False, check_enum=True, extra=()):
    """returns {'fails': [ {clause, detail} ...], 'tags': [...], 'nontrivial': bool, 'impl': summary}"""
    from adsg_core.optimization.graph_processor import GraphProcessor
    from adsg_core.optimization.hierarchy import SelChoiceEncoderType
    rng = rng_for(seed, 'proc', kind, sx([case['n'], case['edges']]))
    fails = []
    tags = ['enc=' + kind]

    def fail(clause, detail):
        fails.append({'clause': clause, 'detail': detail})

    def exc_sig(ex):
        """exception signature that goes into the clause: class + first words of the message without numbers"""
        import re
        words = re.sub(r'[^A-Za-z ]', ' ', str(ex)).split()[:4]
        return '%s:%s' % (type(ex).__name__, '-'.join(words))

    try:
        b = dsgcase.build(case)
    except Exception as e:
        return {'skip': 'build:%s' % type(e).__name__, 'tags': tags}
    mg = dsgcase.model_dsg(case, b.opt_order, getattr(b, 'cons_opts', None))
    res = run_dsgm([sx(['enum_adm', mg])])[0]
    if is_model_error(res) or res == 'none':
        return {'fails': [{'clause': 'model-error', 'detail': sx(res), 'no_input': True}], 'tags': tags}
    adm = [({c: o for c, o in s}, sorted(inst[1])) for s, inst in res[1]]
    tags.append('adm=%d' % min(len(adm), 9))
    et = SelChoiceEncoderType.COMPLETE if kind == 'complete' else SelChoiceEncoderType.FAST
    # ---- construction: may only fail when there is no feasible architecture at all
    try:
        gp = GraphProcessor(b.dsg, encoder_type=et)
        dvs = gp.all_des_vars
        free = gp.des_vars
    except Exception as e:
        if adm:
            fail('construction-fails-on-feasible-space:' + exc_sig(e), '%s: %s (model admits %d)' % (type(e).__name__, e, len(adm)))
        elif not isinstance(e, (ValueError, RuntimeError)):
            fail('no-explicit-error-on-empty-space:' + exc_sig(e), '%s: %s' % (type(e).__name__, e))
        tags.append('construction-error')
        return {'fails': fails, 'tags': tags, 'nontrivial': False, 'impl': {'error': type(e).__name__}}
    if not adm:
        # nothing admissible, yet the processor was built: every decode must fail explicitly
        try:
            r = gp.get_graph([0 if dv.is_discrete else dv.bounds[0] for dv in free])
            if r[0] is not None and r[0].feasible:
                fail('decodes-although-no-architecture-is-admissible', 'nodes %s' % (observe_instance(b, r[0])[0],))
        except (ValueError, RuntimeError):
            pass
        except Exception as e:
            fail('no-explicit-error-on-empty-space:' + exc_sig(e), '%s: %s' % (type(e).__name__, e))
        tags.append('empty-space')
        return {'fails': fails, 'tags': tags, 'nontrivial': False, 'impl': {}}
    E, Esx = encoding_of(b, gp)
    if any(e is None for e in Esx):
        return {'skip': 'connection-choice', 'tags': tags}
    tags.append('nvars=%d' % min(len(E), 8))
    queries = [sx(['enc_ok', mg, Esx]), sx(['rows_of', mg, Esx]), sx(['n_declared', Esx])]
    mres = run_dsgm(queries)
    for m in mres:
        if is_model_error(m) or m == 'none':
            return {'fails': [{'clause': 'model-error', 'detail': sx(m), 'no_input': True}], 'tags': tags}
    enc_ok, rows_m, n_decl_m = mres[0][1], sorted(tuple(r) for r in mres[1][1]), mres[2]
    tags.append('hier=%d' % int(any(-1 in r for r in rows_m)))
    impl = {'E': [list(e[:3]) for e in E], 'n_rows_model': len(rows_m)}

    # ---- enumeration (complete encoder): C04 / C07
    rows_i = None
    if kind == 'complete' and check_enum:
        if enc_ok != 1:
            fail('encoding-loses-or-merges-architectures', 'two admissible assignments share one selection vector, or a chosen '
                 'option is not declared: E=%s' % (Esx,))
        try:
            X, A = gp.get_all_discrete_x()
            rows_i = sorted(tuple(int(v) if a else -1 for v, a in zip(xr, ar)) for xr, ar in zip(X.tolist(), A.tolist()))
            canon_bad = None
            for xr, ar in zip(X.tolist(), A.tolist()):
                for v, a, e in zip(xr, ar, E):
                    if not a:
                        cv = 0 if (e[0] == 'sel' or e[2][0] == 'disc') else (e[2][1] + e[2][2]) / 2
                        if v != cv:
                            canon_bad = (xr, ar)
            if canon_bad:
                fail('enumerated-inactive-value-not-canonical', str(canon_bad))
            bad = match_rows(rows_i, rows_m, E)
            if bad:
                fail('enumerated-vectors-differ', bad + ' (impl %d rows, model %d)' % (len(rows_i), len(rows_m)))
            nv = gp.get_n_valid_designs()
            if nv != len(rows_m):
                fail('n-valid-designs-differs', 'impl %d model %d' % (nv, len(rows_m)))
            nd = gp.get_n_design_space()
            if nd != n_decl_m:
                fail('n-design-space-differs', 'impl %d model %d' % (nd, n_decl_m))
            ir = gp.get_imputation_ratio(include_cont=False)
            if len(rows_m) and abs(ir - n_decl_m / len(rows_m)) > 1e-9 * max(1, ir):
                fail('imputation-ratio-differs', 'impl %r model %d/%d' % (ir, n_decl_m, len(rows_m)))
            st = gp.get_statistics()
            if int(st.loc['total-design-space', 'n_valid']) != len(rows_m) or int(st.loc['total-design-space', 'n_declared']) != n_decl_m:
                fail('statistics-differ', 'n_valid %s n_declared %s' % (st.loc['total-design-space', 'n_valid'], st.loc['total-design-space', 'n_declared']))
            # conditional-activeness flags: not flagged ==> active in every valid design
            for i, e in enumerate(E):
                if not e[3] and any(r[i] == -1 for r in rows_m):
                    fail('unflagged-variable-inactive-in-valid-design', 'variable %d %s' % (i, list(e[:2])))
        except Exception as ex:
            fail('enumeration-raises:' + exc_sig(ex), '%s: %s' % (type(ex).__name__, ex))

    # ---- decodes
    vecs, exhaustive = vectors_for(rng, E, vec_limit, out_of_range)
    if rows_i is not None:
        # every valid row (canonical form) is also decoded
        for r in rows_m[:vec_limit]:
            v = []
            for val, e in zip(r, E):
                if val == -1:
                    v.append(0 if (e[0] == 'sel' or e[2][0] == 'disc') else (e[2][1] + e[2][2]) / 2)
                elif e[0] == 'dv' and e[2][0] == 'cont':
                    v.append(e[2][1] + (e[2][2] - e[2][1]) * 0.25)
                else:
                    v.append(val)
            vecs.append(v)
    tags.append('vec-exhaustive=%d' % int(exhaustive))
    dq, dinfo = [], []
    # the fast encoder's decode as a function (Greedy.fast_decode): compared "=" where the model applies -- no choice
    # constraints, no connection choices, outside the known-finding classes (their mechanisms are not modelled)
    fq, finfo = [], []
    fast_vars = None
    if kind == 'fast' and not case.get('conn') and not (dsgcase.guards(case) - FAST_MODEL_COVERS):
        declared = {e[1]: (j, e[2]) for j, e in enumerate(E) if e[0] == 'sel'}
        # design-vector order: the declared selection variables as the encoding lists them (the analyzer orders choices
        # layer by layer), the undeclared (forced) ones after them -- they have one value; application order: by decision id
        by_id = sorted((sc['id'] for sc in case['sel']), key=lambda c: 'S%02d' % c)
        order = [e[1] for e in E if e[0] == 'sel'] + [c for c in by_id if c not in declared]
        fast_vars = [[c, list(declared[c][1]) if c in declared else list(b.opt_order[c])] for c in order]
        fast_ovars = sorted(fast_vars, key=lambda v: 'S%02d' % v[0])
        fast_x = [(c, declared[c][0]) for c in order if c in declared]
    seen_out = {}
    inv = {}
    images = set()
    n_dec = 0
    for x in vecs:
        try:
            inst, x2, act = gp.get_graph(list(x))
        except Exception as ex:
            fail('decode-raises-on-feasible-space:' + exc_sig(ex), 'x=%s: %s: %s' % (x, type(ex).__name__, ex))
            continue
        n_dec += 1
        x2 = [float(v) if isinstance(v, float) else int(v) for v in x2]
        act = [bool(a) for a in act]
        nodes, dvv = observe_instance(b, inst)
        if not inst.final:
            fail('instance-not-final', 'x=%s' % (x,))
        if not inst.feasible:
            fail('instance-not-feasible', 'x=%s nodes %s' % (x, nodes))
        # range of the corrected vector
        for v, e in zip(x2, E):
            if e[0] == 'sel' and not (0 <= v < len(e[2])) or e[0] == 'dv' and e[2][0] == 'disc' and not (0 <= v < e[2][1]) \
                    or e[0] == 'dv' and e[2][0] == 'cont' and not (e[2][1] <= v <= e[2][2]):
                fail('corrected-vector-out-of-range', 'x=%s x\'=%s' % (x, x2))
        for wk in ('instonly', 'full'):
            dq.append(sx(['decode_witness', mg, Esx, wk, [q(v) for v in x], [q(v) for v in x2], act, nodes,
                          [[n, q(v)] for n, v in dvv]]))
        dinfo.append((x, x2, act, nodes, dvv))
        images.add(tuple(nodes))
        if fast_vars is not None and all(e[0] != 'sel' or (float(v).is_integer() and 0 <= v < len(e[2])) for v, e in zip(x, E)):
            fq.append(sx(['fast_decode', True, mg, fast_ovars, fast_vars,
                          [int(x[dict(fast_x)[c]]) if c in dict(fast_x) else 0 for c, _ in fast_vars],
                          [False] * len(fast_vars)]))
            finfo.append((x, x2, act, nodes))
        # create=False path and idempotence
        try:
            _, x3, act3 = gp.get_graph(list(x), create=False)
            x3 = [float(v) if isinstance(v, float) else int(v) for v in x3]
            if x3 != x2 or [bool(a) for a in act3] != act:
                fail('create-flag-changes-result', 'x=%s create: %s %s no-create: %s %s' % (x, x2, act, x3, list(act3)))
            inst4, x4, act4 = gp.get_graph(list(x2))
            x4 = [float(v) if isinstance(v, float) else int(v) for v in x4]
            n4, d4 = observe_instance(b, inst4)
            if x4 != x2 or [bool(a) for a in act4] != act or n4 != nodes or d4 != dvv:
                fail('decode-not-idempotent', 'x=%s x\'=%s act=%s -> x\'\'=%s act=%s' % (x, x2, act, x4, list(act4)))
        except Exception as ex:
            fail('decode-raises-on-feasible-space:' + exc_sig(ex), 'x=%s (second decode): %s: %s' % (x, type(ex).__name__, ex))
    if fast_vars is not None:
        tags.append('fast-model-decodes=%s%s' % ('0' if not fq else '1-9' if len(fq) < 10 else '10+', '+constraint' if case.get('cons') else ''))
    for (x, x2, act, nodes), m in zip(finfo, run_dsgm(fq) if fq else []):
        if is_model_error(m) or m == 'none':
            fails.append({'clause': 'model-error', 'detail': sx(m), 'no_input': True})
            continue
        if m[1] == 'none':
            fail('fast-decode-differs-from-model', 'x=%s: implementation x\'=%s nodes %s, the model finds no feasible vector' % (x, x2, nodes))
            continue
        imp, inst_m = m[1][1]
        pos = dict(fast_x)
        want_x = {pos[c]: (v if v >= 0 else 0) for (c, _), v in zip(fast_vars, imp) if c in pos}
        want_a = {pos[c]: v >= 0 for (c, _), v in zip(fast_vars, imp) if c in pos}
        got_x = {j: x2[j] for j in want_x}
        got_a = {j: act[j] for j in want_a}
        if got_x != want_x or got_a != want_a or sorted(inst_m) != list(nodes):
            fail('fast-decode-differs-from-model', 'x=%s: implementation x\'=%s act=%s nodes %s; model x\'=%s act=%s nodes %s' % (
                x, x2, act, nodes, [want_x.get(j) for j in range(len(E))], [want_a.get(j) for j in range(len(E))], sorted(inst_m)))
    wres = run_dsgm(dq) if dq else []
    for k, (x, x2, act, nodes, dvv) in enumerate(dinfo):
        w0, w1 = wres[2 * k], wres[2 * k + 1]
        if is_model_error(w0) or w0 == 'none' or is_model_error(w1) or w1 == 'none':
            fails.append({'clause': 'model-error', 'detail': sx(w0), 'no_input': True})
            continue
        if w0[1] == 'none':
            fail('decode-result-is-not-an-admissible-architecture',
                 'x=%s x\'=%s act=%s nodes=%s dv=%s (no admissible assignment has this instance with these design-variable values)' % (x, x2, act, nodes, dvv))
        elif w1[1] == 'none':
            fail('corrected-vector-does-not-describe-the-instance',
                 'x=%s x\'=%s act=%s nodes=%s: an active selection variable does not hold the index of the option taken, or an '
                 'inactive one is not at its canonical value; the instance itself is %s' % (x, x2, act, nodes, w0[1]))
        elif rows_i is not None:
            # the activeness from decode must be the activeness of the enumerated row
            row = tuple((int(v) if (e[0] != 'dv' or e[2][0] == 'disc') else 0) if a else -1 for v, a, e in zip(x2, act, E))
            if row not in rows_i:
                fail('decoded-vector-not-among-enumerated-rows', 'x=%s -> %s' % (x, row))
        if w0[1] != 'none' and w1[1] != 'none':
            # architecture identity = the admissible assignment the model found + the design-variable values
            sig = (sx(w1[1][1]), tuple(dvv))
            key = (tuple(x2), tuple(act))
            if key in seen_out and seen_out[key] != sig:
                fail('same-corrected-vector-different-instance', 'x\'=%s: %s vs %s' % (x2, seen_out[key], sig))
            seen_out[key] = sig
            if sig in inv and inv[sig] != key:
                fail('two-corrected-vectors-one-architecture', '%s and %s both denote %s' % (inv[sig], key, sig))
            inv[sig] = key
    # coverage: with the whole declared space decoded, every admissible architecture must be hit
    if exhaustive and n_dec == len(vecs):
        want = {tuple(inst) for _, inst in adm}
        if images != want:
            fail('architectures-unreachable-by-any-vector', 'missing %s' % ([list(w) for w in want - images][:3],))
    impl['decodes'] = n_dec
    return {'fails': fails, 'tags': tags, 'nontrivial': len(rows_m) >= 2 and len(E) >= 1, 'impl': impl}
