From DSG Require Import Base DesVar.
From Coq Require Import QArith Qround.
Open Scope Q_scope.

(* ---------- clamp over an abstract decidable total preorder ---------- *)
Section AbstractClamp.
  Variable T : Type.
  Variable le : T -> T -> Prop.
  Variable ltb : T -> T -> bool.
  Hypothesis ltb_false : forall x y, ltb x y = false <-> le y x.
  Hypothesis le_total : forall x y, le x y \/ le y x.

  Lemma ltb_true x y : ltb x y = true -> le x y.
  Proof.
    intros H. destruct (le_total x y) as [|H']; [assumption|]. apply ltb_false in H'. congruence.
  Qed.

  Theorem clamp_range lo hi v : le lo hi -> le lo (clamp ltb lo hi v) /\ le (clamp ltb lo hi v) hi.
  Proof.
    intros Hlh. unfold clamp. destruct (ltb v lo) eqn:E1.
    - split; [|assumption]. destruct (le_total lo lo); assumption.
    - destruct (ltb hi v) eqn:E2.
      + split; [assumption|]. destruct (le_total hi hi); assumption.
      + apply ltb_false in E1, E2. split; assumption.
  Qed.

  Theorem clamp_id lo hi v : le lo v -> le v hi -> clamp ltb lo hi v = v.
  Proof.
    intros H1 H2. unfold clamp. apply ltb_false in H1, H2. rewrite H1, H2. reflexivity.
  Qed.

  (* nearest: every in-domain w lies on the far side of the clamped value *)
  Theorem clamp_nearest lo hi v w : le lo hi -> le lo w -> le w hi ->
    (le v (clamp ltb lo hi v) /\ le (clamp ltb lo hi v) w) \/ (le w (clamp ltb lo hi v) /\ le (clamp ltb lo hi v) v)
    \/ clamp ltb lo hi v = v.
  Proof.
    intros Hlh H1 H2. unfold clamp. destruct (ltb v lo) eqn:E1.
    - left. split; [apply ltb_true, E1|assumption].
    - destruct (ltb hi v) eqn:E2.
      + right; left. split; [assumption|apply ltb_true, E2].
      + right; right; reflexivity.
  Qed.
End AbstractClamp.

Lemma Qltb_false x y : Qltb x y = false <-> y <= x.
Proof. unfold Qltb. rewrite negb_false_iff. apply Qle_bool_iff. Qed.
Lemma Qltb_spec x y : Qltb x y = true <-> ~ (y <= x).
Proof. unfold Qltb. rewrite negb_true_iff. rewrite <- Qle_bool_iff. destruct (Qle_bool y x); intuition congruence. Qed.

Lemma Qle_total x y : x <= y \/ y <= x.
Proof. destruct (Qlt_le_dec x y) as [H|H]; [left; apply Qlt_le_weak, H|right; exact H]. Qed.

Theorem clampQ_range lo hi v : lo <= hi -> lo <= clampQ lo hi v /\ clampQ lo hi v <= hi.
Proof. apply (clamp_range Q Qle Qltb Qltb_false Qle_total). Qed.

Theorem clampQ_id lo hi v : lo <= v -> v <= hi -> clampQ lo hi v = v.
Proof. apply (clamp_id Q Qle Qltb Qltb_false). Qed.

Theorem clampQ_nearest lo hi v w : lo <= hi -> lo <= w -> w <= hi ->
  (v <= clampQ lo hi v /\ clampQ lo hi v <= w) \/ (w <= clampQ lo hi v /\ clampQ lo hi v <= v) \/ clampQ lo hi v = v.
Proof. apply (clamp_nearest Q Qle Qltb Qltb_false Qle_total). Qed.

Theorem clampZ_range n v : (0 < n)%nat -> (0 <= clampZ n v < Z.of_nat n)%Z.
Proof. intros Hn. unfold clampZ. destruct (Z.ltb_spec v 0); [lia|]. destruct (Z.leb_spec (Z.of_nat n) v); lia. Qed.

Theorem clampZ_id n v : (0 <= v < Z.of_nat n)%Z -> clampZ n v = v.
Proof. intros H. unfold clampZ. destruct (Z.ltb_spec v 0); [lia|]. destruct (Z.leb_spec (Z.of_nat n) v); lia. Qed.

Theorem clampZ_nearest n v w : (0 < n)%nat -> (0 <= w < Z.of_nat n)%Z -> (Z.abs (clampZ n v - v) <= Z.abs (w - v))%Z.
Proof. intros Hn Hw. unfold clampZ. destruct (Z.ltb_spec v 0); [lia|]. destruct (Z.leb_spec (Z.of_nat n) v); lia. Qed.

(* ---------- stored values are always inside the declared domain ---------- *)
Definition wf_dom (d : dom) : Prop := match d with Disc n => (0 < n)%nat | Cont lo hi => lo < hi end.

Lemma in_dom_correct d v : wf_dom d -> in_dom d (correct d v) = true.
Proof.
  destruct d as [n|lo hi]; simpl; intros Hwf.
  - pose proof (clampZ_range n (truncQ v) Hwf) as [H1 H2].
    rewrite !andb_true_iff. repeat split.
    + apply Qle_bool_iff. unfold Qle; simpl. lia.
    + apply Qltb_spec. unfold Qle; simpl. lia.
    + simpl. rewrite Z.rem_1_r. reflexivity.
  - destruct (clampQ_range lo hi v (Qlt_le_weak _ _ Hwf)) as [H1 H2].
    apply andb_true_iff; split; apply Qle_bool_iff; assumption.
Qed.

Lemma set_linked_in_dom src stored i : forall group k res,
  Forall wf_dom group -> (forall d, nth_error group (i - k) = Some d -> (k <= i)%nat -> in_dom d stored = true) ->
  set_linked src stored i k group = Some res ->
  forall p q, In (p, q) res -> exists d, nth_error group (p - k) = Some d /\ (k <= p)%nat /\ in_dom d q = true.
Proof.
  induction group as [|d t IH]; simpl; intros k res Hwf Hsrc H p q Hin.
  - inversion H; subst. destruct Hin.
  - inversion Hwf as [|? ? Hd Ht]; subst.
    destruct (set_linked src stored i (S k) t) as [rest|] eqn:E; [|discriminate].
    assert (Hrest : forall p q, In (p, q) rest -> exists d0, nth_error (d :: t) (p - k) = Some d0 /\ (k <= p)%nat /\ in_dom d0 q = true).
    { intros p' q' Hin'. destruct (IH (S k) rest Ht) with (p := p') (q := q') as [d0 [H1 [H2 H3]]]; auto.
      - intros d0 Hn Hle. apply Hsrc; [|lia]. replace (i - k)%nat with (S (i - S k)) by lia. exact Hn.
      - exists d0. split; [|split; [lia|exact H3]]. replace (p' - k)%nat with (S (p' - S k)) by lia. exact H1. }
    destruct (Nat.eqb_spec k i) as [->|Hne].
    + inversion H; subst. destruct Hin as [Heq|Hin]; [|apply Hrest, Hin].
      inversion Heq; subst. exists d. rewrite Nat.sub_diag. simpl. repeat split; [lia|].
      apply Hsrc; [rewrite Nat.sub_diag; reflexivity|lia].
    + destruct (linked_raw src d stored) as [raw|]; [|discriminate]. inversion H; subst.
      destruct Hin as [Heq|Hin]; [|apply Hrest, Hin].
      inversion Heq; subst. exists d. rewrite Nat.sub_diag. simpl. repeat split; [lia|].
      apply in_dom_correct, Hd.
Qed.

(* set_des_var_value never stores a value outside the declared domain — also on the linked nodes *)
Theorem set_value_never_outside group i v res :
  Forall wf_dom group -> set_value group i v = Some res ->
  forall p q, In (p, q) res -> exists d, nth_error group p = Some d /\ in_dom d q = true.
Proof.
  intros Hwf H p q Hin. unfold set_value in H. destruct (nth_error group i) as [d|] eqn:Ei; [|discriminate].
  destruct (set_linked_in_dom d (correct d v) i group 0%nat res Hwf) with (p := p) (q := q) as [d0 [H1 [_ H3]]]; auto.
  - intros d0 Hn _. rewrite Nat.sub_0_r in Hn. rewrite Ei in Hn. inversion Hn; subst.
    apply in_dom_correct. rewrite Forall_forall in Hwf. apply Hwf. eapply nth_error_In; eauto.
  - exists d0. rewrite Nat.sub_0_r in H1. auto.
Qed.

(* the node that was set stores exactly the clamped value *)
Theorem set_value_self group i v res d :
  nth_error group i = Some d -> set_value group i v = Some res -> In (i, correct d v) res.
Proof.
  intros Ei H. unfold set_value in H. rewrite Ei in H.
  assert (G : forall g k r, set_linked d (correct d v) i k g = Some r -> (k <= i)%nat -> (i - k < length g)%nat ->
                            In (i, correct d v) r).
  { induction g as [|d0 t IH]; simpl; intros k r Hr Hk Hl; [lia|].
    destruct (set_linked d (correct d v) i (S k) t) as [rest|] eqn:E; [|discriminate].
    destruct (Nat.eqb_spec k i) as [->|Hne].
    - inversion Hr; subst. left; reflexivity.
    - destruct (linked_raw d d0 (correct d v)); [|discriminate]. inversion Hr; subst. right.
      apply (IH (S k) rest E); lia. }
  apply (G group 0%nat res H); [lia|]. rewrite Nat.sub_0_r. apply nth_error_Some. congruence.
Qed.
