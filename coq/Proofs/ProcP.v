From DSG Require Import Base Proc.

Section DecodeP.
  Variable X : Type.
  Variable feasible_row : nat -> bool.
  Variable pick : mask -> X -> option nat.

  (* hypotheses on the correction search: it answers inside the mask, and it is a consistent choice function
     (if the chosen row survives a shrinking of the mask it is chosen again) — true of any "closest row, ties by
     index" search *)
  Hypothesis pick_in : forall m x r, pick m x = Some r -> m r = true.
  Hypothesis pick_alpha : forall m m' x r,
    pick m x = Some r -> (forall i, m' i = true -> m i = true) -> m' r = true -> pick m' x = Some r.

  (* the rows that are really available: feasible and allowed by the fixed values *)
  Definition goal (fixm : mask) : mask := fun i => feasible_row i && fixm i.

  (* invariant of the repaired code: the analyzer's mask only ever lacks infeasible rows *)
  Definition Inv (feas : mask) : Prop := forall i, feasible_row i = true -> feas i = true.

  Lemma Inv_true : Inv mtrue.
  Proof. intros i _. reflexivity. Qed.

  Lemma Inv_clear feas r : Inv feas -> feasible_row r = false -> Inv (mclear feas r).
  Proof.
    intros H Hr i Hi. unfold mclear. destruct (Nat.eqb_spec i r) as [->|]; [congruence|apply H, Hi].
  Qed.

  (* the decode of the repaired code returns the row a processor with perfect knowledge would pick, whatever the
     analyzer has learned so far; and keeps the invariant *)
  Theorem decode_pure fuel : forall feas fixm x r feas',
    Inv feas -> decode X feasible_row pick false fuel feas fixm x = Some (r, feas') ->
    pick (goal fixm) x = Some r /\ Inv feas' /\ feasible_row r = true /\ fixm r = true.
  Proof.
    induction fuel as [|f IH]; intros feas fixm x r feas' HI H; simpl in H; [discriminate|].
    destruct (pick (mand feas fixm) x) as [r0|] eqn:Ep; [|discriminate].
    destruct (feasible_row r0) eqn:Ef.
    - inversion H; subst r0 feas'. pose proof (pick_in _ _ _ Ep) as Hin. unfold mand in Hin.
      apply andb_true_iff in Hin. destruct Hin as [_ Hfix].
      split; [|split; [exact HI|split; [exact Ef|exact Hfix]]].
      apply (pick_alpha _ (goal fixm) _ _ Ep).
      + intros i Hi. unfold goal in Hi. apply andb_true_iff in Hi. destruct Hi as [H1 H2].
        unfold mand. rewrite (HI i H1), H2. reflexivity.
      + unfold goal. rewrite Ef, Hfix. reflexivity.
    - apply (IH _ _ _ _ _ (Inv_clear feas r0 HI Ef) H).
  Qed.

  (* C05: two processors with different histories (both satisfying the invariant) decode a vector to the same row *)
  Corollary decode_history_independent fuel1 fuel2 feas1 feas2 fixm x r1 r2 f1 f2 :
    Inv feas1 -> Inv feas2 ->
    decode X feasible_row pick false fuel1 feas1 fixm x = Some (r1, f1) ->
    decode X feasible_row pick false fuel2 feas2 fixm x = Some (r2, f2) -> r1 = r2.
  Proof.
    intros H1 H2 D1 D2. destruct (decode_pure _ _ _ _ _ _ H1 D1) as [P1 _].
    destruct (decode_pure _ _ _ _ _ _ H2 D2) as [P2 _]. congruence.
  Qed.

  (* every operation of the repaired code keeps the invariant; so does every history *)
  Lemma step_inv fuel s o : Inv (st_feas s) -> Inv (st_feas (fst (step X feasible_row pick false fuel s o))).
  Proof.
    intros HI. destruct o as [x|m]; simpl; [|exact HI].
    destruct (decode X feasible_row pick false fuel (st_feas s) (st_fix s) x) as [[r f']|] eqn:E; simpl; [|exact HI].
    apply (decode_pure _ _ _ _ _ _ HI E).
  Qed.

  Theorem run_inv fuel ops : forall s, Inv (st_feas s) -> Inv (st_feas (run X feasible_row pick false fuel s ops)).
  Proof.
    induction ops as [|o t IH]; intros s HI; simpl; [exact HI|]. apply IH, step_inv, HI.
  Qed.

  Lemma run_fix fuel ops : forall s,
    (forall o, In o ops -> match o with SetFixed _ _ => False | _ => True end) ->
    st_fix (run X feasible_row pick false fuel s ops) = st_fix s.
  Proof.
    induction ops as [|o t IH]; intros s Hno; simpl; [reflexivity|].
    rewrite IH by (intros o' Ho'; apply Hno; right; exact Ho').
    destruct o as [x|m]; simpl.
    - destruct (decode X feasible_row pick false fuel (st_feas s) (st_fix s) x) as [[r f']|]; reflexivity.
    - exfalso. apply (Hno (SetFixed X m)). left; reflexivity.
  Qed.

  (* C05 / C15: after ANY history (decodes, fixing, freeing) a decode returns what a fresh processor with the same fixed
     mask returns: the result depends on the fixed values and the vector only *)
  Theorem decode_after_any_history fuel fuel' ops x r r' s1 s2 :
    let s := run X feasible_row pick false fuel init ops in
    step X feasible_row pick false fuel s (Decode X x) = (s1, Some r) ->
    step X feasible_row pick false fuel' {| st_feas := mtrue; st_fix := st_fix s |} (Decode X x) = (s2, Some r') ->
    r = r'.
  Proof.
    intros s H1 H2. simpl in H1, H2.
    destruct (decode X feasible_row pick false fuel (st_feas s) (st_fix s) x) as [[a f1]|] eqn:E1; [|inversion H1].
    destruct (decode X feasible_row pick false fuel' mtrue (st_fix s) x) as [[b f2]|] eqn:E2; [|inversion H2].
    inversion H1; inversion H2; subst.
    eapply decode_history_independent; [| |exact E1|exact E2]; [|apply Inv_true].
    apply run_inv, Inv_true.
  Qed.

  (* C15: a decode under a fixed mask returns a row that the fixed values allow *)
  Theorem decode_respects_fixed fuel feas fixm x r feas' :
    Inv feas -> decode X feasible_row pick false fuel feas fixm x = Some (r, feas') -> fixm r = true.
  Proof. intros HI H. apply (decode_pure _ _ _ _ _ _ HI H). Qed.
End DecodeP.

(* ---------- the code as found (in-place and) is refuted: fix, decode, free, decode ---------- *)
Definition pick2 (m : mask) (x : nat) : option nat :=
  (* two rows; closest row index, ties and unavailable rows fall to the other one *)
  if m x then Some x else if m (1 - x)%nat then Some (1 - x)%nat else None.

Definition only1 : mask := fun i => (i =? 1)%nat.

Theorem inplace_and_refuted :
  let s := run nat (fun _ => true) pick2 true 3 (init) [SetFixed nat only1; Decode nat 1%nat; SetFixed nat mtrue] in
  snd (step nat (fun _ => true) pick2 true 3 s (Decode nat 0%nat)) = Some 1%nat /\
  snd (step nat (fun _ => true) pick2 true 3 init (Decode nat 0%nat)) = Some 0%nat.
Proof. vm_compute. split; reflexivity. Qed.

(* the repaired step on the same history *)
Example repaired_same_history :
  let s := run nat (fun _ => true) pick2 false 3 (init) [SetFixed nat only1; Decode nat 1%nat; SetFixed nat mtrue] in
  snd (step nat (fun _ => true) pick2 false 3 s (Decode nat 0%nat)) = Some 0%nat.
Proof. vm_compute. reflexivity. Qed.

(* ---------- rows ---------- *)
Open Scope Z_scope.

Theorem restrict_subset sel i v rows r' :
  In r' (restrict_rows sel i v rows) ->
  exists r, In r rows /\ r' = drop_col i r /\
            (nth i r (-1) = v \/ (sel = false /\ nth i r (-1) = -1)).
Proof.
  unfold restrict_rows. intros H. apply in_map_iff in H. destruct H as [r [<- Hr]].
  apply filter_In in Hr. destruct Hr as [Hin Hk]. exists r. split; [exact Hin|]. split; [reflexivity|].
  unfold keep_row in Hk. destruct sel.
  - left. apply Z.eqb_eq, Hk.
  - apply orb_true_iff in Hk. destruct Hk as [Hk|Hk]; [left|right; split; [reflexivity|]]; apply Z.eqb_eq, Hk.
Qed.

Theorem restrict_keeps sel i v rows r :
  In r rows -> nth i r (-1) = v -> In (drop_col i r) (restrict_rows sel i v rows).
Proof.
  intros Hin Hv. unfold restrict_rows. apply in_map, filter_In. split; [exact Hin|].
  unfold keep_row. rewrite Hv, Z.eqb_refl. destruct sel; reflexivity.
Qed.

Theorem restrict_drops sel i v rows r :
  In r rows -> nth i r (-1) <> v -> nth i r (-1) <> -1 -> ~ In r (filter (keep_row sel i v) rows).
Proof.
  intros Hin Hv Ha H. apply filter_In in H. destruct H as [_ Hk]. unfold keep_row in Hk.
  destruct sel; [apply Z.eqb_eq in Hk; contradiction|].
  apply orb_true_iff in Hk. destruct Hk as [Hk|Hk]; apply Z.eqb_eq in Hk; contradiction.
Qed.

Theorem restrict_count sel i v rows :
  length (restrict_rows sel i v rows) = length (filter (keep_row sel i v) rows).
Proof. unfold restrict_rows. apply map_length. Qed.

(* ---------- aliasing ---------- *)
Close Scope Z_scope.

(* invariant of the repaired code: every cached object is pristine (payload 0) and no handed-out reference points to a
   cached object *)
Definition AInv (s : astate) : Prop :=
  (forall k a, assoc (cache s) k = Some a -> a < length (heap s) /\ nth a (heap s) 0 = 0 /\ ~ In a (refs s)) /\
  (forall a, In a (refs s) -> a < length (heap s)).

Lemma set_nth_length l i v : length (set_nth l i v) = length l.
Proof. revert i; induction l as [|x t IH]; intros [|i]; simpl; auto. Qed.

Lemma set_nth_other l i j v : i <> j -> nth j (set_nth l i v) 0 = nth j l 0.
Proof.
  revert i j; induction l as [|x t IH]; intros [|i] [|j] H; simpl; auto; try congruence.
Qed.

Lemma AInv_init : AInv ainit.
Proof. split; [intros k a H; discriminate|intros a []]. Qed.

Theorem astep_inv s o : AInv s -> AInv (fst (astep false s o)) /\
  match o with ADecode _ => snd (astep false s o) = Some 0 | _ => True end.
Proof.
  intros [Hc Hr]. destruct o as [k|k v]; simpl.
  - destruct (assoc (cache s) k) as [a|] eqn:Ea; simpl.
    + destruct (Hc k a Ea) as [Hlt [Hz Hnr]]. split; [|rewrite Hz; reflexivity]. split; simpl.
      * intros k' a' H'. destruct (Hc k' a' H') as [H1 [H2 H3]]. rewrite app_length. simpl.
        split; [lia|]. split; [rewrite app_nth1 by lia; exact H2|].
        rewrite in_app_iff. intros [Hin|[Heq|[]]]; [contradiction|lia].
      * intros a' Hin. rewrite app_length. simpl. apply in_app_or in Hin. destruct Hin as [Hin|[<-|[]]]; [|lia].
        specialize (Hr a' Hin). lia.
    + assert (Hnew : nth (length (heap s)) (heap s ++ [0]) 0 = 0) by (rewrite app_nth2, Nat.sub_diag by lia; reflexivity).
      split; [|rewrite Hnew; reflexivity]. split; simpl.
      * intros k' a' H'. rewrite !app_length. simpl.
        destruct (Nat.eqb_spec k k') as [->|Hne].
        -- inversion H'; subst a'. split; [lia|]. split.
           ++ rewrite app_nth1 by (rewrite app_length; simpl; lia). exact Hnew.
           ++ rewrite in_app_iff. intros [Hin|[Heq|[]]]; [specialize (Hr _ Hin); lia|rewrite ?app_length in Heq; simpl in Heq; lia].
        -- destruct (Hc k' a' H') as [H1 [H2 H3]]. split; [lia|]. split.
           ++ rewrite app_nth1 by (rewrite app_length; simpl; lia). rewrite app_nth1 by lia. exact H2.
           ++ rewrite in_app_iff. intros [Hin|[Heq|[]]]; [contradiction|rewrite ?app_length in Heq; simpl in Heq; lia].
      * intros a' Hin. rewrite !app_length. simpl. apply in_app_or in Hin.
        destruct Hin as [Hin|[<-|[]]]; [specialize (Hr a' Hin); lia|rewrite ?app_length; simpl; lia].
  - split; [|exact I]. destruct (nth_error (refs s) k) as [a|] eqn:En; simpl; [|split; assumption].
    assert (Hin : In a (refs s)) by (eapply nth_error_In; eauto).
    split; simpl.
    + intros k' a' H'. destruct (Hc k' a' H') as [H1 [H2 H3]]. rewrite set_nth_length. split; [exact H1|]. split; [|exact H3].
      rewrite set_nth_other; [exact H2|]. intros ->. contradiction.
    + intros a' Hin'. rewrite set_nth_length. apply Hr, Hin'.
Qed.

(* C05: with copy-on-return every decode hands out a pristine instance, whatever was done to earlier ones *)
Theorem decodes_see_pristine_instances ops : forall s, AInv s ->
  Forall (fun o => o = None \/ o = Some 0) (snd (arun false s ops)).
Proof.
  induction ops as [|o t IH]; intros s HI; simpl; [constructor|].
  destruct (astep false s o) as [s1 out] eqn:E1. destruct (arun false s1 t) as [s2 outs] eqn:E2. simpl.
  pose proof (astep_inv s o HI) as [HI1 Hout]. rewrite E1 in HI1, Hout. simpl in HI1, Hout.
  constructor.
  - destruct o; [right; exact Hout|left]. simpl in E1. destruct (nth_error (refs s) k); inversion E1; reflexivity.
  - specialize (IH s1 HI1). rewrite E2 in IH. exact IH.
Qed.

(* the code as found: decode, store 42 on the returned instance, decode again -> the second decode shows 42 *)
Theorem aliasing_refuted : snd (arun true ainit [ADecode 7; AMutate 0 42; ADecode 7]) = [Some 0; None; Some 42].
Proof. vm_compute. reflexivity. Qed.
Example copy_same_history : snd (arun false ainit [ADecode 7; AMutate 0 42; ADecode 7]) = [Some 0; None; Some 0].
Proof. vm_compute. reflexivity. Qed.
