From DSG Require Import Base Selector.
From Coq Require Import QArith.
Local Open Scope nat_scope.

(* ---------- first_best ---------- *)
Lemma first_best_in beats : forall l b, first_best beats l = Some b -> In b l.
Proof.
  induction l as [|r t IH]; intros b H; simpl in H; [discriminate|].
  destruct (first_best beats t) as [b'|] eqn:E.
  - destruct (beats b' r); inversion H; subst; [right; apply IH; reflexivity|left; reflexivity].
  - inversion H; left; reflexivity.
Qed.

Lemma first_best_some beats : forall l, l <> [] -> exists b, first_best beats l = Some b.
Proof.
  intros [|r t] H; [contradiction H; reflexivity|]. simpl.
  destruct (first_best beats t) as [b'|]; [destruct (beats b' r)|]; eauto.
Qed.

Lemma first_best_none beats : forall l, first_best beats l = None -> l = [].
Proof.
  intros [|r t] H; [reflexivity|]. destruct (first_best_some beats (r :: t)) as [b Hb]; [discriminate|].
  rewrite Hb in H; discriminate.
Qed.

(* nobody beats the chosen element, for a strict weak order *)
Lemma first_best_unbeaten beats :
  (forall a b, beats a b = true -> beats b a = false) ->
  (forall a b c, beats a b = false -> beats b c = false -> beats a c = false) ->
  forall l b, first_best beats l = Some b -> forall r, In r l -> beats r b = false.
Proof.
  intros Hasym Htr. induction l as [|x t IH]; intros b H r Hr; simpl in H; [contradiction|].
  assert (Hirr : forall a, beats a a = false).
  { intros a. destruct (beats a a) eqn:E; [|reflexivity]. rewrite (Hasym a a E) in E. discriminate. }
  destruct (first_best beats t) as [b'|] eqn:E.
  - destruct (beats b' x) eqn:Eb; inversion H; subst; destruct Hr as [->|Hr].
    + apply Hasym, Eb.
    + apply IH; [reflexivity|exact Hr].
    + apply Hirr.
    + eapply Htr; [apply (IH b' eq_refl r Hr)|exact Eb].
  - inversion H; subst. destruct Hr as [->|Hr]; [apply Hirr|].
    apply first_best_none in E. subst t. contradiction.
Qed.

(* ---------- boolean comparisons ---------- *)
Lemma Qlt_bool_iff a b : Qlt_bool a b = true <-> (a < b)%Q.
Proof.
  unfold Qlt_bool. rewrite negb_true_iff. split; intros H.
  - apply Qnot_le_lt. intros Hle. apply Qle_bool_iff in Hle. rewrite Hle in H. discriminate.
  - destruct (Qle_bool b a) eqn:E; [|reflexivity]. apply Qle_bool_iff in E. exfalso. exact (Qlt_not_le _ _ H E).
Qed.

Lemma Qlt_bool_false a b : Qlt_bool a b = false <-> (b <= a)%Q.
Proof.
  unfold Qlt_bool. rewrite negb_false_iff. apply Qle_bool_iff.
Qed.

Lemma key_asym (k : row -> Q) a b : Qlt_bool (k b) (k a) = true -> Qlt_bool (k a) (k b) = false.
Proof. rewrite Qlt_bool_iff, Qlt_bool_false. apply Qlt_le_weak. Qed.

Lemma key_ntrans (k : row -> Q) a b c :
  Qlt_bool (k b) (k a) = false -> Qlt_bool (k c) (k b) = false -> Qlt_bool (k c) (k a) = false.
Proof. rewrite !Qlt_bool_false. intros H1 H2. eapply Qle_trans; eauto. Qed.

(* ---------- rows ---------- *)
Lemma enumerate_from_in {A} (l : list A) : forall k i x, In (i, x) (enumerate_from k l) -> k <= i < k + length l.
Proof.
  induction l as [|y t IH]; intros k i x H; simpl in H; [contradiction|].
  destruct H as [H|H]; [inversion H; subst; simpl; lia|]. apply IH in H. simpl. lia.
Qed.

Lemma enumerate_length {A} (l : list A) : length (enumerate l) = length l.
Proof. unfold enumerate. generalize 0. induction l as [|x t IH]; intros k; simpl; [reflexivity|rewrite IH; reflexivity]. Qed.

Lemma mk_rows_idx knows t r : In r (mk_rows knows t) -> r_idx r < length t.
Proof.
  unfold mk_rows. rewrite in_map_iff. intros [[i c] [<- Hin]]. simpl.
  apply enumerate_from_in in Hin. lia.
Qed.

Lemma mk_rows_nonempty knows t : t <> [] -> mk_rows knows t <> [].
Proof. destruct t as [|c t]; intros H; [contradiction H; reflexivity|]. unfold mk_rows, enumerate. simpl. discriminate. Qed.

(* ---------- best_within ---------- *)
Lemma best_within_in by_inf sel i : best_within by_inf sel = RIdx i -> exists r, In r sel /\ r_idx r = i.
Proof.
  unfold best_within. destruct by_inf.
  - destruct (first_best _ sel) as [m|]; [|discriminate].
    destruct (first_best _ (filter _ sel)) as [b|] eqn:E; [|discriminate].
    intros H; inversion H; subst. apply first_best_in, filter_In in E. exists b. split; [apply E|reflexivity].
  - destruct (first_best _ (filter has_dc sel)) as [m|]; [|discriminate].
    destruct (first_best _ (filter _ sel)) as [b|] eqn:E; [|discriminate].
    intros H; inversion H; subst. apply first_best_in, filter_In in E. exists b. split; [apply E|reflexivity].
Qed.

Lemma best_within_no_raise by_inf sel : best_within by_inf sel <> RRaise.
Proof.
  unfold best_within. destruct by_inf.
  - destruct (first_best _ sel); [|discriminate]. destruct (first_best _ (filter _ sel)); discriminate.
  - destruct (first_best _ (filter has_dc sel)); [|discriminate]. destruct (first_best _ (filter _ sel)); discriminate.
Qed.

Lemma best_within_inf_total sel : sel <> [] -> exists i, best_within true sel = RIdx i.
Proof.
  intros Hne. unfold best_within.
  destruct (first_best_some (fun b r => Qlt_bool (r_nimp b) (r_nimp r)) sel Hne) as [m Hm]. rewrite Hm.
  assert (Hin : In m (filter (fun r => Qeq_bool (r_nimp r) (r_nimp m)) sel)).
  { apply filter_In. split; [eapply first_best_in; eauto|]. apply Qeq_bool_iff. reflexivity. }
  destruct (first_best_some (fun b r => Qlt_bool (c_inf (r_c r)) (c_inf (r_c b)))
              (filter (fun r => Qeq_bool (r_nimp r) (r_nimp m)) sel)) as [b Hb].
  { intros E. rewrite E in Hin. contradiction. }
  rewrite Hb. eauto.
Qed.

(* what the choice inside one priority area means: by distance correlation -- the largest correlation, and among
   those the smallest imputation ratio; by information index -- the smallest imputation ratio, and among those the
   largest information index *)
Lemma best_within_dc_spec sel i : best_within false sel = RIdx i ->
  exists b, In b sel /\ r_idx b = i /\ has_dc b = true /\
    (forall r, In r sel -> has_dc r = true -> (dc_val r <= dc_val b)%Q) /\
    (forall r, In r sel -> has_dc r = true -> (dc_val r == dc_val b)%Q -> (r_nimp b <= r_nimp r)%Q).
Proof.
  unfold best_within.
  destruct (first_best _ (filter has_dc sel)) as [m|] eqn:Em; [|discriminate].
  match goal with |- context [first_best ?f (filter ?g sel)] => destruct (first_best f (filter g sel)) as [b|] eqn:Eb end; [|discriminate].
  intros H; inversion H; subst. exists b.
  pose proof (first_best_in _ _ _ Eb) as Hb. apply filter_In in Hb. destruct Hb as [Hbs Hbm].
  apply andb_true_iff in Hbm. destruct Hbm as [Hbd Hbe]. apply Qeq_bool_iff in Hbe.
  split; [exact Hbs|]. split; [reflexivity|]. split; [exact Hbd|]. split.
  - intros r Hr Hd. rewrite Hbe.
    assert (Hin : In r (filter has_dc sel)) by (apply filter_In; split; assumption).
    pose proof (first_best_unbeaten _ (key_asym dc_val) (key_ntrans dc_val) _ _ Em r Hin) as Hu.
    apply Qlt_bool_false in Hu. exact Hu.
  - intros r Hr Hd He.
    assert (Hin : In r (filter (fun r => has_dc r && Qeq_bool (dc_val r) (dc_val m)) sel)).
    { apply filter_In. split; [exact Hr|]. rewrite Hd. simpl. apply Qeq_bool_iff. rewrite He. exact Hbe. }
    assert (G : forall l x, first_best (fun b r => Qlt_bool (r_nimp b) (r_nimp r)) l = Some x ->
                 forall r, In r l -> Qlt_bool (r_nimp r) (r_nimp x) = false).
    { apply first_best_unbeaten.
      - intros a c. rewrite Qlt_bool_iff, Qlt_bool_false. apply Qlt_le_weak.
      - intros a c d. rewrite !Qlt_bool_false. intros H1 H2. eapply Qle_trans; eauto. }
    apply Qlt_bool_false. apply (G _ _ Eb r Hin).
Qed.

Lemma best_within_inf_spec sel i : best_within true sel = RIdx i ->
  exists b, In b sel /\ r_idx b = i /\
    (forall r, In r sel -> (r_nimp b <= r_nimp r)%Q) /\
    (forall r, In r sel -> (r_nimp r == r_nimp b)%Q -> (c_inf (r_c r) <= c_inf (r_c b))%Q).
Proof.
  unfold best_within.
  destruct (first_best _ sel) as [m|] eqn:Em; [|discriminate].
  match goal with |- context [first_best ?f (filter ?g sel)] => destruct (first_best f (filter g sel)) as [b|] eqn:Eb end; [|discriminate].
  intros H; inversion H; subst. exists b.
  pose proof (first_best_in _ _ _ Eb) as Hb. apply filter_In in Hb. destruct Hb as [Hbs Hbe]. apply Qeq_bool_iff in Hbe.
  split; [exact Hbs|]. split; [reflexivity|]. split.
  - intros r Hr. rewrite Hbe.
    assert (G : forall l x, first_best (fun b r => Qlt_bool (r_nimp b) (r_nimp r)) l = Some x ->
                 forall r, In r l -> Qlt_bool (r_nimp r) (r_nimp x) = false).
    { apply first_best_unbeaten.
      - intros a c. rewrite Qlt_bool_iff, Qlt_bool_false. apply Qlt_le_weak.
      - intros a c d. rewrite !Qlt_bool_false. intros H1 H2. eapply Qle_trans; eauto. }
    apply Qlt_bool_false. apply (G _ _ Em r Hr).
  - intros r Hr He.
    assert (Hin : In r (filter (fun r => Qeq_bool (r_nimp r) (r_nimp m)) sel)).
    { apply filter_In. split; [exact Hr|]. apply Qeq_bool_iff. rewrite He. exact Hbe. }
    pose proof (first_best_unbeaten _ (key_asym (fun x => c_inf (r_c x))) (key_ntrans (fun x => c_inf (r_c x))) _ _ Eb r Hin) as Hu.
    apply Qlt_bool_false in Hu. exact Hu.
Qed.

(* ---------- scan ---------- *)
Definition accepts_all (by_inf : bool) (a : area) : Prop := forall r, in_area by_inf a r = true.

Lemma filter_all_nonempty {A} (f : A -> bool) l : (forall x, f x = true) -> l <> [] -> filter f l <> [].
Proof. intros Hf. destruct l as [|x t]; intros H; [contradiction H; reflexivity|]. simpl. rewrite Hf. discriminate. Qed.

Lemma scan_idx by_inf np : forall ars i rows k, scan by_inf np i ars rows = RIdx k -> exists r, In r rows /\ r_idx r = k.
Proof.
  induction ars as [|a rest IH]; intros i rows k H; simpl in H; [discriminate|].
  destruct (match np with Some n => n <=? i | None => false end); [discriminate|].
  destruct (filter (in_area by_inf a) rows) as [|x sel] eqn:E; [eapply IH; eauto|].
  apply best_within_in in H. destruct H as [r [Hr Hk]]. exists r. split; [|exact Hk].
  rewrite <- E in Hr. apply filter_In in Hr. apply Hr.
Qed.

Lemma scan_no_raise by_inf np : forall ars i rows,
  rows <> [] -> (exists a, In a ars /\ accepts_all by_inf a) -> scan by_inf np i ars rows <> RRaise.
Proof.
  induction ars as [|a rest IH]; intros i rows Hne [a0 [Hin Hacc]]; cbn [scan]; [contradiction|].
  destruct (match np with Some n => n <=? i | None => false end); [discriminate|].
  destruct (filter (in_area by_inf a) rows) as [|x sel] eqn:E; [|apply best_within_no_raise].
  apply IH; [exact Hne|]. destruct Hin as [->|Hin]; [|eauto].
  exfalso. apply (filter_all_nonempty (in_area by_inf a0) rows Hacc Hne). exact E.
Qed.

Lemma scan_inf_total : forall ars i rows,
  rows <> [] -> (exists a, In a ars /\ accepts_all true a) -> exists k, scan true None i ars rows = RIdx k.
Proof.
  induction ars as [|a rest IH]; intros i rows Hne [a0 [Hin Hacc]]; cbn [scan]; [contradiction|].
  destruct (filter (in_area true a) rows) as [|x sel] eqn:E; [|apply best_within_inf_total; discriminate].
  apply IH; [exact Hne|]. destruct Hin as [->|Hin]; [|eauto].
  exfalso. apply (filter_all_nonempty (in_area true a0) rows Hacc Hne). exact E.
Qed.

Lemma areas_last by_inf : exists a, In a (areas by_inf) /\ accepts_all by_inf a.
Proof.
  exists (4, FAll). split; [|intros r; reflexivity].
  unfold areas. apply in_or_app. right. simpl. do 11 right. left. reflexivity.
Qed.

(* ---------- _get_best ---------- *)
Definition good (r : result) (n : nat) : Prop := r <> RRaise /\ forall i, r = RIdx i -> i < n.

Theorem get_best_good knows np by_inf t : good (get_best knows np by_inf t) (length t).
Proof.
  unfold get_best. destruct t as [|c t]; [split; [discriminate|intros i H; discriminate]|].
  split.
  - apply scan_no_raise; [apply mk_rows_nonempty; discriminate|apply areas_last].
  - intros i H. apply scan_idx in H. destruct H as [r [Hr <-]]. apply mk_rows_idx in Hr. exact Hr.
Qed.

(* with every priority area allowed, the search by information index always finds a row *)
Theorem get_best_inf_total knows t : t <> [] -> exists i, get_best knows None true t = RIdx i.
Proof.
  intros H. unfold get_best. destruct t as [|c t]; [contradiction H; reflexivity|].
  apply scan_inf_total; [apply mk_rows_nonempty; discriminate|apply areas_last].
Qed.

(* the chosen row comes from the first non-empty priority area that is still allowed *)
Lemma scan_first_area by_inf np : forall ars i rows k, scan by_inf np i ars rows = RIdx k ->
  exists pre a post, ars = pre ++ a :: post /\
    (forall a', In a' pre -> filter (in_area by_inf a') rows = []) /\
    (match np with Some n => i + length pre < n | None => True end) /\
    best_within by_inf (filter (in_area by_inf a) rows) = RIdx k.
Proof.
  induction ars as [|a rest IH]; intros i rows k H; simpl in H; [discriminate|].
  destruct (match np with Some n => n <=? i | None => false end) eqn:En; [discriminate|].
  destruct (filter (in_area by_inf a) rows) as [|x sel] eqn:E.
  - destruct (IH _ _ _ H) as [pre [a1 [post [-> [Hpre [Hn Hb]]]]]].
    exists (a :: pre), a1, post. split; [reflexivity|]. split.
    + intros a' [<-|Ha']; [exact E|apply Hpre, Ha'].
    + split; [|exact Hb]. destruct np as [n|]; [|exact I]. simpl. lia.
  - exists [], a, rest. split; [reflexivity|]. split; [intros a' []|]. split.
    + destruct np as [n|]; [|exact I]. apply Nat.leb_gt in En. simpl. lia.
    + rewrite E. exact H.
Qed.

Theorem get_best_first_area knows np by_inf t k : get_best knows np by_inf t = RIdx k ->
  exists pre a post, areas by_inf = pre ++ a :: post /\
    (forall a', In a' pre -> filter (in_area by_inf a') (mk_rows knows t) = []) /\
    (match np with Some n => length pre < n | None => True end) /\
    best_within by_inf (filter (in_area by_inf a) (mk_rows knows t)) = RIdx k.
Proof.
  unfold get_best. destruct t as [|c t]; [discriminate|]. intros H.
  apply scan_first_area in H. exact H.
Qed.

(* ---------- staged selection ---------- *)
Definition ftable (e : senv) (f : fam) : list cand :=
  match f with FPat => e_pat e | FEag => e_eag e | FLaz => e_laz e | FEnum => e_enum e end.

Lemma equalize_length t : length (equalize t) = length t.
Proof. unfold equalize. apply map_length. Qed.

Lemma tag_length f t : length (tag f t) = length t.
Proof. unfold tag. rewrite map_length, enumerate_length. apply equalize_length. Qed.

Lemma tag_in f t f' p c : In (f', p, c) (tag f t) -> f' = f /\ p < length t.
Proof.
  unfold tag. rewrite in_map_iff. intros [[i x] [H Hin]]. inversion H; subst. split; [reflexivity|].
  apply enumerate_from_in in Hin. rewrite equalize_length in Hin. lia.
Qed.

(* a tagged table of environment e: every row points into the family table it came from *)
Definition wf_tt (e : senv) (tt : list trow) : Prop :=
  forall f p c, In (f, p, c) tt -> p < length (ftable e f) /\ (f = FPat -> e_excl e = false).

Lemma wf_app e a b : wf_tt e a -> wf_tt e b -> wf_tt e (a ++ b).
Proof. intros Ha Hb f p c H. apply in_app_or in H. destruct H; [eapply Ha|eapply Hb]; eauto. Qed.

Lemma wf_nil e : wf_tt e []. Proof. intros f p c []. Qed.

Lemma wf_tag e f : (f = FPat -> e_excl e = false) -> wf_tt e (tag f (ftable e f)).
Proof. intros Hf f' p c H. apply tag_in in H. destruct H as [-> Hp]. split; assumption. Qed.

Lemma wf_clear e tt : wf_tt e tt -> wf_tt e (map clear_dc tt).
Proof.
  intros H f p c Hin. apply in_map_iff in Hin. destruct Hin as [[[f0 p0] c0] [Heq Hin]].
  unfold clear_dc in Heq. simpl in Heq. inversion Heq; subst. eapply H; eauto.
Qed.

Lemma scores_length tt : length (scores tt) = length tt. Proof. apply map_length. Qed.

(* pick on a result of _get_best over the scores of tt *)
Lemma pick_good e st tt r k : wf_tt e tt -> good r (length tt) ->
  (r = RNone /\ pick st tt r k = k) \/
  (exists f p, pick st tt r k = OChosen st f p /\ p < length (ftable e f) /\ (f = FPat -> e_excl e = false)).
Proof.
  intros Hwf [Hnr Hidx]. destruct r as [|i|]; [left; split; reflexivity| |contradiction Hnr; reflexivity].
  right. specialize (Hidx i eq_refl). unfold pick.
  destruct (nth_error tt i) as [[[f p] c]|] eqn:E; [|apply nth_error_None in E; lia].
  exists f, p. split; [reflexivity|]. apply nth_error_In in E. eapply Hwf; eauto.
Qed.

Definition chosen_ok (e : senv) (o : outcome) : Prop :=
  match o with
  | OChosen st f p => p < length (ftable e f) /\ (f = FPat -> e_excl e = false)
  | ODefault => e_nmat e = Some 0%N
  | ORaise => e_nmat e <> Some 0%N /\ all_candidates e = []
  | OBad => False
  end.

Lemma good_scores knows np by_inf tt : good (get_best knows np by_inf (scores tt)) (length tt).
Proof. rewrite <- (scores_length tt). apply get_best_good. Qed.

Lemma app_nil_both {A} (a b : list A) : a ++ b = [] -> a = [] /\ b = [].
Proof. destruct a; simpl; intros H; [split; [reflexivity|exact H]|discriminate]. Qed.

Lemma tag_nil f t : tag f t = [] -> t = [].
Proof. intros H. apply (f_equal (@length _)) in H. rewrite tag_length in H. destruct t; [reflexivity|discriminate]. Qed.

Lemma map_nil {A B} (g : A -> B) l : map g l = [] -> l = [].
Proof. destruct l; [reflexivity|discriminate]. Qed.

Lemma pick_chosen_ok e st tt r : wf_tt e tt -> good r (length tt) -> r <> RNone -> chosen_ok e (pick st tt r OBad).
Proof.
  intros W G Hne. destruct (pick_good e st tt r OBad W G) as [[E _]|[f [p [-> Hok]]]]; [contradiction|exact Hok].
Qed.

Lemma stage_or_ok e st tt r c next : wf_tt e tt -> good r (length tt) ->
  chosen_ok e (fst next) -> chosen_ok e (fst (stage_or st tt r c next)).
Proof.
  intros W G Hn. unfold stage_or. destruct r as [|i|]; [exact Hn| |]; cbn [fst]; apply pick_chosen_ok; auto; discriminate.
Qed.

(* the whole staged selection: the outcome is the default manager exactly when there are no matrices at all; otherwise a
   candidate of a family that was created (index within that family's created managers), or an exception -- and that only
   when no candidate of any family could be constructed *)
Theorem select_ok e : chosen_ok e (fst (select e)).
Proof.
  unfold select.
  assert (Main : e_nmat e <> Some 0%N ->
    chosen_ok e (fst (
    let knows := match e_nmat e with Some _ => true | None => false end in
    let all := match e_nmat e with Some n => (n <=? e_nmax e)%N | None => false end in
    let s0 := if e_excl e then [] else tag FPat (e_pat e) in
    let c0 := if e_excl e then [] else [FPat] in
    let r0 := if e_excl e then RNone else get_best knows (Some 5) false (scores s0) in
    let s1 := if all then s0 ++ tag FEag (e_eag e) ++ tag FLaz (e_laz e) else s0 ++ tag FLaz (e_laz e) in
    let c1 := c0 ++ (if all then [FEag; FLaz] else [FLaz]) in
    let s3 := if all then s1 else tag FEag (e_eag e) ++ s1 in
    let c3 := if all then c1 else c1 ++ [FEag] in
    let r3 := if all then RNone else get_best knows None false (scores s3) in
    let en := tag FEnum (e_enum e) in
    let s4 := s3 ++ (if forallb no_dc (scores s3) then map clear_dc en else en) in
    let c4 := c3 ++ [FEnum] in
    stage_or S0_pattern s0 r0 c0
      (stage_or (if all then S1_init_all else S1_init_lazy) s1 (get_best knows (Some 4) false (scores s1)) c1
        (stage_or S2_init_inf_idx s1 (get_best knows (Some 4) true (scores s1)) c1
          (stage_or S3_all s3 r3 c3
            (stage_or S4_all_enum s4 (get_best knows None false (scores s4)) c4
              (pick S4_all_inf_idx s4 (get_best knows None true (scores s4)) ORaise, c4)))))))).
  { intros Hn0. cbv zeta.
    set (knows := match e_nmat e with Some _ => true | None => false end).
    set (all := match e_nmat e with Some n => (n <=? e_nmax e)%N | None => false end).
    set (s0 := if e_excl e then [] else tag FPat (e_pat e)).
    set (s1 := if all then s0 ++ tag FEag (e_eag e) ++ tag FLaz (e_laz e) else s0 ++ tag FLaz (e_laz e)).
    set (s3 := if all then s1 else tag FEag (e_eag e) ++ s1).
    set (s4 := s3 ++ (if forallb no_dc (scores s3) then map clear_dc (tag FEnum (e_enum e)) else tag FEnum (e_enum e))).
    assert (W0 : wf_tt e s0).
    { unfold s0. destruct (e_excl e) eqn:Ex; [apply wf_nil|apply (wf_tag e FPat); intros _; exact Ex]. }
    assert (WE : wf_tt e (tag FEag (e_eag e))) by (apply (wf_tag e FEag); discriminate).
    assert (WL : wf_tt e (tag FLaz (e_laz e))) by (apply (wf_tag e FLaz); discriminate).
    assert (WN : wf_tt e (tag FEnum (e_enum e))) by (apply (wf_tag e FEnum); discriminate).
    assert (W1 : wf_tt e s1) by (unfold s1; destruct all; repeat apply wf_app; assumption).
    assert (W3 : wf_tt e s3) by (unfold s3; destruct all; repeat apply wf_app; assumption).
    assert (W4 : wf_tt e s4).
    { unfold s4. apply wf_app; [exact W3|]. destruct (forallb no_dc (scores s3)); [apply wf_clear|]; exact WN. }
    assert (E4 : s4 = [] -> all_candidates e = []).
    { unfold s4, all_candidates. intros H. apply app_nil_both in H. destruct H as [H3 HN].
      assert (HN' : e_enum e = []).
      { destruct (forallb no_dc (scores s3)); [apply map_nil in HN|]; apply tag_nil in HN; exact HN. }
      assert (H0 : s0 = [] /\ e_eag e = [] /\ e_laz e = []).
      { unfold s3, s1 in H3. destruct all.
        - apply app_nil_both in H3. destruct H3 as [A B]. apply app_nil_both in B. destruct B as [B C].
          apply tag_nil in B. apply tag_nil in C. auto.
        - apply app_nil_both in H3. destruct H3 as [A B]. apply app_nil_both in B. destruct B as [B C].
          apply tag_nil in A. apply tag_nil in C. auto. }
      destruct H0 as [H0 [HE HL]]. rewrite HE, HL, HN'.
      unfold s0 in H0. destruct (e_excl e); [reflexivity|]. apply tag_nil in H0. rewrite H0. reflexivity. }
    apply stage_or_ok; [exact W0|destruct (e_excl e); [split; [discriminate|intros i H; discriminate]|apply good_scores]|].
    apply stage_or_ok; [exact W1|apply good_scores|].
    apply stage_or_ok; [exact W1|apply good_scores|].
    apply stage_or_ok; [exact W3|destruct all; [split; [discriminate|intros i H; discriminate]|apply good_scores]|].
    apply stage_or_ok; [exact W4|apply good_scores|].
    simpl fst.
    destruct s4 as [|x s4'] eqn:Es4.
    - simpl. split; [exact Hn0|apply E4; reflexivity].
    - destruct (get_best_inf_total knows (scores (x :: s4'))) as [i Hi]; [discriminate|].
      destruct (pick_good e S4_all_inf_idx (x :: s4') (get_best knows None true (scores (x :: s4'))) ORaise W4 (good_scores _ _ _ _))
        as [[E _]|[f [p [-> Hok]]]]; [rewrite Hi in E; discriminate|exact Hok]. }
  destruct (e_nmat e) as [[|pn]|] eqn:En; [simpl; exact En| |]; apply Main; discriminate.
Qed.

(* selection raises only if no candidate manager of any family could be constructed *)
Corollary select_total e : e_nmat e <> Some 0%N -> all_candidates e <> [] ->
  exists st f p, fst (select e) = OChosen st f p /\ p < length (ftable e f).
Proof.
  intros Hn Hc. pose proof (select_ok e) as H. destruct (fst (select e)) as [|st f p| |]; simpl in H.
  - contradiction.
  - exists st, f, p. split; [reflexivity|apply H].
  - destruct H as [_ H]. contradiction.
  - contradiction.
Qed.

Corollary select_default e : e_nmat e = Some 0%N -> select e = (ODefault, []).
Proof. intros H. unfold select. rewrite H. reflexivity. Qed.

(* non-vacuity: a table on which the first stages fail and the enumerating family is chosen by information index *)
Example select_example :
  fst (select {| e_excl := false; e_nmat := None; e_nmax := 1000%N; e_pat := []; e_eag := [];
                 e_laz := [{| c_imp := 200%Q; c_inf := (1#10)%Q; c_dc := None |}];
                 e_enum := [{| c_imp := 1%Q; c_inf := 0%Q; c_dc := None |}] |}) = OChosen S4_all_inf_idx FEnum 0.
Proof. vm_compute. reflexivity. Qed.

(* ---------- score post-processing ---------- *)
From Coq Require Import Qround Lqa.

(* numpy.round as modelled: the nearest integer, a tie goes to the even neighbour *)
Theorem round_half_even_spec q :
  let z := round_half_even q in
  (inject_Z z - (1#2) <= q <= inject_Z z + (1#2))%Q /\
  ((q == inject_Z z + (1#2))%Q \/ (q == inject_Z z - (1#2))%Q -> Z.even z = true).
Proof.
  unfold round_half_even.
  pose proof (Qfloor_le q) as Hlo. pose proof (Qlt_floor q) as Hhi.
  set (f := Qfloor q) in *.
  assert (Hf1 : (inject_Z (f + 1) == inject_Z f + 1)%Q) by (rewrite inject_Z_plus; reflexivity).
  rewrite Hf1 in Hhi.
  destruct (Qlt_bool (q - inject_Z f) (1 # 2)) eqn:E1.
  - apply Qlt_bool_iff in E1. split; [split; lra|]. intros [H|H]; lra.
  - apply Qlt_bool_false in E1. destruct (Qlt_bool (1 # 2) (q - inject_Z f)) eqn:E2.
    + apply Qlt_bool_iff in E2. rewrite Hf1. split; [split; lra|]. intros [H|H]; lra.
    + apply Qlt_bool_false in E2. destruct (Z.even f) eqn:Ev.
      * split; [split; lra|]. intros _. exact Ev.
      * rewrite Hf1. split; [split; lra|]. intros _.
        rewrite Z.even_add. rewrite Ev. reflexivity.
Qed.

Lemma equalize_keeps_scores t : map c_imp (equalize t) = map c_imp t /\ map c_inf (equalize t) = map c_inf t.
Proof. unfold equalize. rewrite !map_map. split; apply map_ext; intros a; reflexivity. Qed.
