From DSG Require Import Base Neighborhood ProblemP MatrixP.
Local Open Scope Z_scope.

Lemma vals_from_in n cur : 0 <= cur < n -> forall k d v, 1 <= d ->
  (In v (vals_from n cur d k) <->
   exists e, d <= e < d + Z.of_nat k /\ ((v = cur + e /\ v < n) \/ (v = cur - e /\ 0 <= v))).
Proof.
  intros Hc. induction k as [|k IH]; intros d v Hd.
  - simpl. split; [intros []|intros [e [He _]]; lia].
  - cbn [vals_from].
    destruct (cur + d <? n) eqn:Ea; destruct (0 <=? cur - d) eqn:Eb; cbn [app];
      try (apply Z.ltb_lt in Ea); try (apply Z.ltb_ge in Ea); try (apply Z.leb_le in Eb); try (apply Z.leb_gt in Eb).
    + (* both *) cbn [In app]. rewrite (IH (d + 1) v ltac:(lia)). split.
      * intros [H|[H|[e [He Hv]]]]; [exists d; lia|exists d; lia|exists e; split; [lia|exact Hv]].
      * intros [e [He Hv]]. destruct (Z.eq_dec e d) as [->|Hne]; [destruct Hv as [[-> _]|[-> _]]; auto|].
        right. right. exists e. split; [lia|exact Hv].
    + cbn [In app]. rewrite (IH (d + 1) v ltac:(lia)). split.
      * intros [H|[e [He Hv]]]; [exists d; lia|exists e; split; [lia|exact Hv]].
      * intros [e [He Hv]]. destruct (Z.eq_dec e d) as [->|Hne]; [destruct Hv as [[-> _]|[-> Hv]]; [auto|lia]|].
        right. exists e. split; [lia|exact Hv].
    + cbn [In app]. rewrite (IH (d + 1) v ltac:(lia)). split.
      * intros [H|[e [He Hv]]]; [exists d; lia|exists e; split; [lia|exact Hv]].
      * intros [e [He Hv]]. destruct (Z.eq_dec e d) as [->|Hne]; [destruct Hv as [[-> Hv]|[-> _]]; [lia|auto]|].
        right. exists e. split; [lia|exact Hv].
    + (* neither: the loop stops, and nothing further away is in range either *)
      cbn [In]. split; [intros []|]. intros [e [He Hv]]. lia.
Qed.

Lemma vals_from_far n cur : forall k d v, In v (vals_from n cur d k) -> d <= Z.abs (v - cur).
Proof.
  induction k as [|k IH]; intros d v H; [destruct H|]. cbn [vals_from] in H.
  destruct (cur + d <? n); destruct (0 <=? cur - d); cbn [app In] in H.
  - destruct H as [<-|[<-|H]]; [lia|lia|apply IH in H; lia].
  - destruct H as [<-|H]; [lia|apply IH in H; lia].
  - destruct H as [<-|H]; [lia|apply IH in H; lia].
  - destruct H.
Qed.

Lemma vals_from_NoDup n cur : forall k d, 1 <= d -> NoDup (vals_from n cur d k).
Proof.
  induction k as [|k IH]; intros d Hd; [constructor|]. cbn [vals_from].
  assert (Hfar : forall v, In v (vals_from n cur (d + 1) k) -> d + 1 <= Z.abs (v - cur)) by (intros v; apply vals_from_far).
  destruct (cur + d <? n); destruct (0 <=? cur - d); cbn [app].
  - constructor; [|constructor; [|apply IH; lia]].
    + intros [H|H]; [lia|apply Hfar in H; lia].
    + intros H. apply Hfar in H. lia.
  - constructor; [|apply IH; lia]. intros H. apply Hfar in H. lia.
  - constructor; [|apply IH; lia]. intros H. apply Hfar in H. lia.
  - constructor.
Qed.

(* a free variable with a requested value in range: every option exactly once, the requested one first *)
Theorem vals_free n cur : 0 <= cur < Z.of_nat n ->
  (exists t, vals n cur false = cur :: t) /\ NoDup (vals n cur false) /\ forall v, In v (vals n cur false) <-> 0 <= v < Z.of_nat n.
Proof.
  intros Hc. unfold vals. split; [eauto|]. split.
  - constructor; [|apply vals_from_NoDup; lia]. intros H. apply vals_from_far in H. lia.
  - intros v. cbn [In]. rewrite (vals_from_in (Z.of_nat n) cur Hc (n - 1) 1 v ltac:(lia)). split.
    + intros [<-|[e [He Hv]]]; lia.
    + intros Hv. destruct (Z.eq_dec v cur) as [->|Hne]; [left; reflexivity|]. right.
      destruct (Z_lt_le_dec cur v).
      * exists (v - cur). split; [lia|left; lia].
      * exists (cur - v). split; [lia|right; lia].
Qed.

Theorem vals_fixed n cur : vals n cur true = [cur].
Proof. reflexivity. Qed.

Definition in_space (vs : list nvar) (x : list Z) : Prop :=
  Forall2 (fun v (nv : nvar) => if snd nv then v = snd (fst nv) else 0 <= v < Z.of_nat (fst (fst nv))) x vs.

Definition requested_ok (vs : list nvar) : Prop := Forall (fun nv : nvar => 0 <= snd (fst nv) < Z.of_nat (fst (fst nv))) vs.

Lemma forall2_vals vs : requested_ok vs -> forall x,
  Forall2 (fun v l => In v l) x (map (fun v : nvar => vals (fst (fst v)) (snd (fst v)) (snd v)) vs) <-> in_space vs x.
Proof.
  unfold in_space. induction vs as [|[[n cur] fx] vs IH]; intros Hok x; simpl.
  - split; intros H; inversion H; constructor.
  - inversion Hok as [|? ? Hh Ht]; subst. simpl in Hh.
    split; intros H; inversion H; subst; constructor; try (apply IH; assumption).
    + simpl. destruct fx; [match goal with Hx : In _ (vals _ _ true) |- _ => destruct Hx as [<-|[]]; reflexivity end|].
      apply (proj2 (proj2 (vals_free n cur Hh))). assumption.
    + simpl in *. destruct fx; [subst; left; reflexivity|]. apply (proj2 (proj2 (vals_free n cur Hh))). assumption.
Qed.

(* the neighbourhood is exactly the space left by the fixed variables, every vector once *)
Theorem neighborhood_exact vs : requested_ok vs -> forall x, In x (neighborhood vs) <-> in_space vs x.
Proof.
  intros Hok x. unfold neighborhood. destruct vs as [|v vs].
  - simpl. unfold in_space. split; [intros [<-|[]]; constructor|intros H; inversion H; left; reflexivity].
  - rewrite product_In. apply forall2_vals, Hok.
Qed.

Theorem neighborhood_NoDup vs : requested_ok vs -> NoDup (neighborhood vs).
Proof.
  intros Hok. unfold neighborhood. destruct vs as [|v vs]; [constructor; [intros []|constructor]|].
  apply product_NoDup. apply Forall_forall. intros l Hl. apply in_map_iff in Hl. destruct Hl as [[[n cur] fx] [<- Hin]].
  simpl. unfold requested_ok in Hok. rewrite Forall_forall in Hok. specialize (Hok _ Hin). simpl in Hok.
  destruct fx; [constructor; [intros []|constructor]|]. apply (vals_free n cur Hok).
Qed.

(* the requested vector itself is tried first *)
Theorem neighborhood_head vs : exists t, neighborhood vs = map (fun v : nvar => snd (fst v)) vs :: t.
Proof.
  unfold neighborhood. destruct vs as [|v0 vs0]; [exists []; reflexivity|].
  set (vs := v0 :: vs0). clearbody vs. clear v0 vs0.
  induction vs as [|[[n cur] fx] vs [t IH]]; [exists []; reflexivity|].
  cbn [map product fst snd]. rewrite IH. unfold vals at 1. cbn [flat_map map app]. eauto.
Qed.

(* so the search finds a feasible vector whenever the space left by the fixed variables contains one, the result is
   feasible, respects the fixed variables and is the requested vector itself when that is feasible *)
Theorem first_feasible_total feas vs : requested_ok vs -> (exists x, in_space vs x /\ feas x = true) ->
  exists y, first_feasible feas vs = Some y /\ feas y = true /\ in_space vs y.
Proof.
  intros Hok [x [Hx Hf]]. unfold first_feasible.
  destruct (find feas (neighborhood vs)) as [y|] eqn:E.
  - exists y. apply find_some in E. destruct E as [Hin Hy]. split; [reflexivity|]. split; [exact Hy|].
    apply (neighborhood_exact vs Hok), Hin.
  - exfalso. assert (Hn : feas x = false) by (apply (find_none _ _ E x), (neighborhood_exact vs Hok), Hx).
    rewrite Hn in Hf. discriminate.
Qed.

Theorem first_feasible_identity feas vs : feas (map (fun v : nvar => snd (fst v)) vs) = true ->
  first_feasible feas vs = Some (map (fun v : nvar => snd (fst v)) vs).
Proof.
  intros H. unfold first_feasible. destruct (neighborhood_head vs) as [t ->]. simpl. rewrite H. reflexivity.
Qed.

Theorem first_feasible_none feas vs : requested_ok vs -> first_feasible feas vs = None ->
  forall x, in_space vs x -> feas x = false.
Proof.
  intros Hok E x Hx. unfold first_feasible in E. apply (find_none _ _ E). apply (neighborhood_exact vs Hok), Hx.
Qed.

(* ---------- the imputation cache ---------- *)
Lemma nvar_eqb_eq a b : nvar_eqb a b = true -> a = b.
Proof.
  destruct a as [[n c] f], b as [[n' c'] f']. unfold nvar_eqb. simpl. intros H.
  apply andb_true_iff in H. destruct H as [H Hf]. apply andb_true_iff in H. destruct H as [Hn Hc].
  apply Nat.eqb_eq in Hn. apply Z.eqb_eq in Hc. apply eqb_prop in Hf. subst. reflexivity.
Qed.

Lemma req_eqb_eq : forall a b, req_eqb a b = true -> a = b.
Proof.
  induction a as [|x a IH]; intros [|y b] H; simpl in H; try discriminate; [reflexivity|].
  apply andb_true_iff in H. destruct H as [H1 H2]. apply nvar_eqb_eq in H1. apply IH in H2. subst. reflexivity.
Qed.

Definition cache_sound (feas : list Z -> bool) (c : icache) : Prop :=
  forall r v, ilookup c r = Some v -> v = first_feasible feas r.

Lemma decode_cached_sound feas c r : cache_sound feas c ->
  snd (decode_cached feas c r) = first_feasible feas r /\ cache_sound feas (fst (decode_cached feas c r)).
Proof.
  intros Hc. unfold decode_cached. destruct (ilookup c r) as [v|] eqn:E; simpl.
  - split; [apply Hc, E|exact Hc].
  - split; [reflexivity|]. intros r' v' H. simpl in H. destruct (req_eqb r r') eqn:Er.
    + apply req_eqb_eq in Er. subst. inversion H. reflexivity.
    + apply Hc, H.
Qed.

(* with the request as the only key, a decode is the same function of the request after any history of decodes *)
Theorem decode_cached_pure feas : forall (hist : list request) r,
  let c := fold_left (fun c q => fst (decode_cached feas c q)) hist [] in
  snd (decode_cached feas c r) = first_feasible feas r.
Proof.
  intros hist r. cbv zeta.
  assert (H : cache_sound feas (fold_left (fun c q => fst (decode_cached feas c q)) hist [])).
  { assert (G : forall c, cache_sound feas c -> cache_sound feas (fold_left (fun c q => fst (decode_cached feas c q)) hist c)).
    { induction hist as [|q t IH]; intros c Hc; simpl; [exact Hc|]. apply IH, (decode_cached_sound feas c q Hc). }
    apply G. intros r' v' H'. discriminate. }
  exact (proj1 (decode_cached_sound feas _ r H)).
Qed.

(* storing the result under every vector tried on the way is not: two variables with two options each, feasible iff the
   first is 1; after decoding (0,1) -- tried (0,1), (0,0), (1,1) -- the request (0,0) answers (1,1), a fresh search (1,0) *)
Definition w_feas (x : list Z) : bool := match x with a :: _ => Z.eqb a 1 | [] => false end.
Definition w_r1 : request := [(2%nat, 0, false); (2%nat, 1, false)].
Definition w_r2 : request := [(2%nat, 0, false); (2%nat, 0, false)].

Theorem decode_cached_all_refuted :
  snd (decode_cached_all w_feas (fst (decode_cached_all w_feas [] w_r1)) w_r2) <> snd (decode_cached_all w_feas [] w_r2) /\
  snd (decode_cached w_feas (fst (decode_cached w_feas [] w_r1)) w_r2) = snd (decode_cached w_feas [] w_r2).
Proof. vm_compute. split; [discriminate|reflexivity]. Qed.
