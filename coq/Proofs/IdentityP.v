From DSG Require Import Base Identity.
From Coq Require Import Permutation Sorted.
Open Scope N_scope.

Lemma insert_perm x l : Permutation (x :: l) (insert x l).
Proof.
  induction l as [|y t IH]; simpl; [apply Permutation_refl|].
  destruct (x <=? y); [apply Permutation_refl|].
  eapply perm_trans; [apply perm_swap|]. apply perm_skip, IH.
Qed.

Lemma isort_perm l : Permutation l (isort l).
Proof.
  induction l as [|x t IH]; simpl; [constructor|].
  eapply perm_trans; [apply perm_skip, IH|apply insert_perm].
Qed.

Lemma isort_length l : length (isort l) = length l.
Proof. symmetry. apply Permutation_length, isort_perm. Qed.

Lemma insert_sorted x l : StronglySorted N.le l -> StronglySorted N.le (insert x l).
Proof.
  induction 1 as [|y t Hs IH Hall]; simpl; [repeat constructor|].
  destruct (N.leb_spec x y) as [Hle|Hgt].
  - constructor; [constructor; assumption|]. constructor; [exact Hle|].
    eapply Forall_impl; [|exact Hall]. intros z Hz. lia.
  - constructor; [exact IH|].
    apply Forall_forall. intros z Hz. apply (Permutation_in _ (Permutation_sym (insert_perm x t))) in Hz.
    destruct Hz as [<-|Hz]; [lia|]. rewrite Forall_forall in Hall. apply Hall, Hz.
Qed.

Lemma isort_sorted l : StronglySorted N.le (isort l).
Proof. induction l as [|x t IH]; simpl; [constructor|apply insert_sorted, IH]. Qed.

(* a sorted list is determined by its multiset of elements *)
Lemma sorted_perm_eq : forall l1 l2, StronglySorted N.le l1 -> StronglySorted N.le l2 -> Permutation l1 l2 -> l1 = l2.
Proof.
  induction l1 as [|x t IH]; intros l2 H1 H2 Hp.
  - apply Permutation_nil in Hp. subst; reflexivity.
  - destruct l2 as [|y u]; [apply Permutation_sym, Permutation_nil in Hp; discriminate|].
    inversion H1 as [|? ? Hs1 Ha1]; subst. inversion H2 as [|? ? Hs2 Ha2]; subst.
    rewrite Forall_forall in Ha1, Ha2.
    assert (x = y).
    { assert (Hx : In x (y :: u)) by (apply (Permutation_in _ Hp); left; reflexivity).
      assert (Hy : In y (x :: t)) by (apply (Permutation_in _ (Permutation_sym Hp)); left; reflexivity).
      destruct Hx as [->|Hx]; [reflexivity|]. destruct Hy as [->|Hy]; [reflexivity|].
      specialize (Ha1 y Hy). specialize (Ha2 x Hx). lia. }
    subst y. f_equal. apply IH; [assumption|assumption|]. eapply Permutation_cons_inv; eauto.
Qed.

Lemma isort_perm_eq l1 l2 : Permutation l1 l2 -> isort l1 = isort l2.
Proof.
  intros Hp. apply sorted_perm_eq; [apply isort_sorted|apply isort_sorted|].
  eapply perm_trans; [apply Permutation_sym, isort_perm|]. eapply perm_trans; [exact Hp|apply isort_perm].
Qed.

Lemma listN_eqb_spec a b : listN_eqb a b = true <-> a = b.
Proof.
  revert b. induction a as [|x s IH]; destruct b as [|y t]; simpl; try (split; discriminate); [tauto|].
  rewrite andb_true_iff, N.eqb_eq, IH. split; [intros [-> ->]; reflexivity|intros E; inversion E; auto].
Qed.

Lemma key_eqb_spec a b : key_eqb a b = true <-> a = b.
Proof.
  unfold key_eqb. rewrite !andb_true_iff, !listN_eqb_spec. destruct a, b; simpl. split.
  - intros [[[-> ->] ->] ->]. reflexivity.
  - intros E. inversion E. auto.
Qed.

(* a copy (the same nodes, edges and start nodes in any insertion order, the same constraint list) is the same graph *)
Theorem copy_same a b :
  Permutation (g_nodes a) (g_nodes b) -> Permutation (g_edges a) (g_edges b) -> Permutation (g_start a) (g_start b) ->
  g_cons a = g_cons b -> same_graph a b = true.
Proof.
  intros Hn He Hs Hc. unfold same_graph. apply key_eqb_spec. unfold key_of.
  rewrite (isort_perm_eq _ _ Hn), (isort_perm_eq _ _ He), (isort_perm_eq _ _ Hs), Hc. reflexivity.
Qed.

(* every single structural edit makes the graph different *)
Theorem add_node_differs g n : same_graph (add_node g n) g = false.
Proof.
  apply not_true_is_false. intros H. apply key_eqb_spec in H. apply (f_equal k_nodes) in H. simpl in H.
  apply (f_equal (@length N)) in H. change (insert n (isort (g_nodes g))) with (isort (n :: g_nodes g)) in H.
  rewrite !isort_length in H. simpl in H. lia.
Qed.

Theorem add_edge_differs g e : same_graph (add_edge g e) g = false.
Proof.
  apply not_true_is_false. intros H. apply key_eqb_spec in H. apply (f_equal k_edges) in H. simpl in H.
  apply (f_equal (@length N)) in H. change (insert e (isort (g_edges g))) with (isort (e :: g_edges g)) in H.
  rewrite !isort_length in H. simpl in H. lia.
Qed.

Theorem add_start_differs g n : same_graph (add_start g n) g = false.
Proof.
  apply not_true_is_false. intros H. apply key_eqb_spec in H. apply (f_equal k_start) in H. simpl in H.
  apply (f_equal (@length N)) in H. change (insert n (isort (g_start g))) with (isort (n :: g_start g)) in H.
  rewrite !isort_length in H. simpl in H. lia.
Qed.

Theorem add_con_differs g c : same_graph (add_con g c) g = false.
Proof.
  apply not_true_is_false. intros H. apply key_eqb_spec in H. apply (f_equal k_cons) in H. simpl in H.
  apply (f_equal (@length N)) in H. rewrite app_length in H. simpl in H. lia.
Qed.

(* symmetric: removing is the inverse edit *)
Theorem same_graph_sym a b : same_graph a b = same_graph b a.
Proof.
  unfold same_graph. destruct (key_eqb (key_of a) (key_of b)) eqn:E.
  - apply key_eqb_spec in E. rewrite E. symmetry. apply key_eqb_spec. reflexivity.
  - symmetry. apply not_true_is_false. intros H. apply key_eqb_spec in H. rewrite H in E.
    assert (key_eqb (key_of a) (key_of a) = true) by (apply key_eqb_spec; reflexivity). congruence.
Qed.

(* the numeric hash is a function of the key: equal graphs hash equally; with an injective tuple hash on the keys that
   occur, different graphs hash differently *)
Section Hash.
  Variable h : gkey -> N.
  Theorem same_graph_same_hash a b : same_graph a b = true -> h (key_of a) = h (key_of b).
  Proof. intros H. apply key_eqb_spec in H. rewrite H. reflexivity. Qed.
  Hypothesis h_inj : forall k1 k2, h k1 = h k2 -> k1 = k2.
  Theorem hash_decides a b : (h (key_of a) = h (key_of b)) <-> same_graph a b = true.
  Proof. split; [intros H; apply key_eqb_spec, h_inj, H|apply same_graph_same_hash]. Qed.
End Hash.
