From DSG Require Import Base Dsg Matrix ConnChoice Persist.
Local Open Scope nat_scope.

Section HeapP.
  Variable V : Type.

  Lemma replace_nth_length (h : list V) i f : length (replace_nth V h i f) = length h.
  Proof. revert i. induction h as [|v t IH]; intros [|k]; simpl; try reflexivity. rewrite IH. reflexivity. Qed.

  Lemma replace_nth_other (h : list V) i f k : k <> i -> nth_error (replace_nth V h i f) k = nth_error h k.
  Proof.
    revert i k. induction h as [|v t IH]; intros [|i] [|k] Hne; simpl; try reflexivity; [contradiction Hne; reflexivity|].
    apply IH. intros ->. apply Hne. reflexivity.
  Qed.

  Lemma pstep_old (h : list V) o i : i < length h -> targets V o i = false -> nth_error (pstep V h o) i = nth_error h i.
  Proof.
    intros Hi Ht. destruct o as [j f|j f]; simpl.
    - destruct (nth_error h j); [|reflexivity]. apply nth_error_app1. exact Hi.
    - apply replace_nth_other. simpl in Ht. apply Nat.eqb_neq in Ht. intros ->. apply Ht. reflexivity.
  Qed.

  Lemma pstep_length (h : list V) o : length h <= length (pstep V h o).
  Proof.
    destruct o as [j f|j f]; simpl; [destruct (nth_error h j); [rewrite app_length; simpl; lia|lia]|].
    rewrite replace_nth_length. lia.
  Qed.

  (* no operation sequence changes an existing object, unless it stores a value on that very object *)
  Theorem prun_old : forall ops (h : list V) i, i < length h -> forallb (fun o => negb (targets V o i)) ops = true ->
    nth_error (prun V h ops) i = nth_error h i.
  Proof.
    unfold prun. induction ops as [|o t IH]; intros h i Hi Ht; simpl; [reflexivity|].
    simpl in Ht. apply andb_true_iff in Ht. destruct Ht as [Ho Ht]. apply negb_true_iff in Ho.
    rewrite IH; [apply pstep_old; assumption| |exact Ht]. pose proof (pstep_length h o). lia.
  Qed.

  (* so whatever is observed of it -- any function of the value -- stays what it was, at every later time *)
  Corollary observation_stable {O} (obs : V -> O) ops1 ops2 (h : list V) i :
    i < length (prun V h ops1) -> forallb (fun o => negb (targets V o i)) ops2 = true ->
    option_map obs (nth_error (prun V h (ops1 ++ ops2)) i) = option_map obs (nth_error (prun V h ops1) i).
  Proof.
    intros Hi Ht. unfold prun in *. rewrite fold_left_app. f_equal. apply (prun_old ops2); assumption.
  Qed.

  (* a derived object is the function of its parent, whatever happened in between *)
  Theorem derived_value ops (h : list V) i f v : nth_error (prun V h ops) i = Some v ->
    nth_error (prun V h (ops ++ [Derive V i f])) (length (prun V h ops)) = Some (f v).
  Proof.
    intros H. unfold prun in *. rewrite fold_left_app. simpl. rewrite H.
    rewrite nth_error_app2 by lia. rewrite Nat.sub_diag. reflexivity.
  Qed.

  (* storing a value changes that object and no other *)
  Theorem update_value (h : list V) i f v : nth_error h i = Some v -> nth_error (pstep V h (Update V i f)) i = Some (f v).
  Proof.
    simpl. revert i. induction h as [|x t IH]; intros [|k] H; simpl in *; try discriminate.
    - inversion H. reflexivity. - apply IH, H.
  Qed.
End HeapP.

Section CellP.
  Variables (specs : list (node * cnode)) (e : centry).

  Definition cops := list (nat * (list node -> list node)).
  Definition crun (st : cstate) (ops : cops) : cstate :=
    fold_left (fun s p => cderive specs e s (fst p) (snd p)) ops st.

  Lemma cderive_old st i f k : k < length (cs_heap st) ->
    nth_error (cs_heap (cderive specs e st i f)) k = nth_error (cs_heap st) k.
  Proof.
    intros Hk. unfold cderive. destruct (nth_error (cs_heap st) i); [|reflexivity]. simpl.
    apply nth_error_app1, Hk.
  Qed.

  Lemma cderive_length st i f : length (cs_heap st) <= length (cs_heap (cderive specs e st i f)).
  Proof. unfold cderive. destruct (nth_error (cs_heap st) i); simpl; [rewrite app_length; simpl; lia|lia]. Qed.

  Lemma crun_old : forall ops st k, k < length (cs_heap st) ->
    nth_error (cs_heap (crun st ops)) k = nth_error (cs_heap st) k.
  Proof.
    unfold crun. induction ops as [|o t IH]; intros st k Hk; simpl; [reflexivity|].
    rewrite IH; [apply cderive_old, Hk|]. pose proof (cderive_length st (fst o) (snd o)). lia.
  Qed.

  (* the refreshed read of an existing graph is the same after any further derivations *)
  Theorem read_refreshed_stable st ops k : k < length (cs_heap st) ->
    read_refreshed specs e (crun st ops) k = read_refreshed specs e st k.
  Proof. intros Hk. unfold read_refreshed. rewrite crun_old by exact Hk. reflexivity. Qed.
End CellP.

(* the shared read is not: a group with one member under each of two options; the graph with member 10 reads degree {1}
   when it is derived and degree {2} after the graph with member 11 has been derived from the same parent *)
Definition w_specs : list (node * cnode) :=
  [(10%N, {| c_list := Some [1]; c_min := 0; c_rep := false |}); (11%N, {| c_list := Some [2]; c_min := 0; c_rep := false |})].
Definition w_entry : centry := Group 9%N [10%N; 11%N].
Definition w_init : cstate := {| cs_heap := [[1%N; 9%N; 10%N; 11%N]]; cs_cell := entry_spec w_specs [1%N; 9%N; 10%N; 11%N] w_entry |}.

Theorem read_shared_refuted :
  let st1 := cderive w_specs w_entry w_init 0 (filter (fun n => negb (N.eqb n 11))) in
  let st2 := cderive w_specs w_entry st1 0 (filter (fun n => negb (N.eqb n 10))) in
  read_shared st1 1 <> read_shared st2 1 /\
  read_refreshed w_specs w_entry st1 1 = read_refreshed w_specs w_entry st2 1.
Proof. vm_compute. split; [discriminate|reflexivity]. Qed.
