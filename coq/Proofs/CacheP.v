From DSG Require Import Base Matrix Cache.
From Coq Require Import Permutation.

(* ================= the store ================= *)
Section StoreP.
  Variables (S K V : Type) (keyf : S -> K) (keq : K -> K -> bool).
  Hypothesis keq_spec : forall a b, keq a b = true <-> a = b.
  (* ok s v: v is an acceptable result for settings s (for the matrix cache: v is the aggregate matrix of s; for the
     selection cache: v is a working coding of s) *)
  Variable ok : S -> V -> Prop.
  (* settings that share a key accept the same results *)
  Hypothesis key_sound : forall s1 s2, keyf s1 = keyf s2 -> forall v, ok s1 v -> ok s2 v.

  Notation lookup := (lookup K V keq).
  Notation remove := (remove K V keq).
  Notation cstep := (cstep S K V keyf keq).
  Notation crun := (crun S K V keyf keq).

  Definition inv (st : store K V) : Prop := forall k v, lookup st k = Some v -> forall s, keyf s = k -> ok s v.
  Definition fresh_ok (o : cop S V) : Prop := match o with Get _ _ s _ v => ok s v | Reset _ _ _ => True end.
  Definition out_ok (p : cop S V * option V) : Prop :=
    match fst p with
    | Get _ _ s _ _ => exists v, snd p = Some v /\ ok s v
    | Reset _ _ _ => snd p = None
    end.

  Lemma keq_refl k : keq k k = true. Proof. apply keq_spec. reflexivity. Qed.

  Lemma lookup_remove st k k' v : lookup (remove st k) k' = Some v -> lookup st k' = Some v /\ k' <> k.
  Proof.
    induction st as [|[k0 v0] t IH]; simpl; [discriminate|].
    destruct (keq k0 k) eqn:E0; simpl.
    - intros H. destruct (IH H) as [H1 H2]. split; [|exact H2].
      destruct (keq k0 k') eqn:E1; [|exact H1].
      apply keq_spec in E0. apply keq_spec in E1. subst. contradiction H2. reflexivity.
    - destruct (keq k0 k') eqn:E1.
      + intros H. split; [exact H|]. apply keq_spec in E1. subst k'. intros ->. rewrite keq_refl in E0. discriminate.
      + exact IH.
  Qed.

  Lemma inv_remove st k : inv st -> inv (remove st k).
  Proof. intros H k' v Hl s Hs. apply lookup_remove in Hl. eapply H; [apply Hl|exact Hs]. Qed.

  Lemma cstep_inv st o : inv st -> fresh_ok o -> inv (fst (cstep st o)).
  Proof.
    intros Hi Hf. destruct o as [s use fresh|s]; simpl.
    - destruct (if use then lookup st (keyf s) else None) as [v|] eqn:E; simpl; [exact Hi|].
      intros k v Hl s' Hs'. simpl in Hl. destruct (keq (keyf s) k) eqn:Ek.
      + inversion Hl; subst. apply keq_spec in Ek. eapply key_sound; [|exact Hf]. congruence.
      + eapply (inv_remove st (keyf s) Hi); eauto.
    - apply inv_remove, Hi.
  Qed.

  Lemma cstep_out st o : inv st -> fresh_ok o -> out_ok (o, snd (cstep st o)).
  Proof.
    intros Hi Hf. destruct o as [s use fresh|s]; unfold out_ok; simpl; [|reflexivity].
    destruct (if use then lookup st (keyf s) else None) as [v|] eqn:E; simpl.
    - exists v. split; [reflexivity|]. destruct use; [|discriminate]. eapply Hi; [exact E|reflexivity].
    - exists fresh. split; [reflexivity|exact Hf].
  Qed.

  (* every history over one shared store: each Get delivers an acceptable result for the settings it was asked for,
     whatever was stored before by whom, with or without use of the cache, across resets *)
  Theorem crun_transparent : forall h st, inv st -> Forall fresh_ok h -> Forall out_ok (crun st h).
  Proof.
    induction h as [|o t IH]; intros st Hi Hf; simpl; [constructor|].
    inversion Hf; subst. constructor; [apply cstep_out; assumption|].
    apply IH; [apply cstep_inv; assumption|assumption].
  Qed.

  Lemma inv_empty : inv []. Proof. intros k v H. discriminate. Qed.
End StoreP.

(* deterministic computations: every Get returns exactly what a fresh computation returns *)
Theorem cache_transparent_det (S K V : Type) (keyf : S -> K) (keq : K -> K -> bool) (compute : S -> V) :
  (forall a b, keq a b = true <-> a = b) ->
  (forall s1 s2, keyf s1 = keyf s2 -> compute s1 = compute s2) ->
  forall h, Forall (fun o => match o with Get _ _ s _ v => v = compute s | Reset _ _ _ => True end) h ->
  Forall (fun p => match fst p with Get _ _ s _ _ => snd p = Some (compute s) | Reset _ _ _ => snd p = None end)
         (crun S K V keyf keq [] h).
Proof.
  intros Hk Hs h Hf.
  pose proof (crun_transparent S K V keyf keq Hk (fun s v => v = compute s)
                (fun s1 s2 E v Hv => eq_trans Hv (Hs s1 s2 E)) h [] (inv_empty S K V keyf keq _) Hf) as H.
  eapply Forall_impl; [|exact H]. intros [o out] Ho. unfold out_ok in Ho. simpl in *.
  destruct o as [s use fresh|s]; [|exact Ho]. destruct Ho as [v [-> ->]]. reflexivity.
Qed.

(* and the key condition is necessary: two settings with one key and different results make a cached answer wrong *)
Theorem cache_collision_observable (S K V : Type) (keyf : S -> K) (keq : K -> K -> bool) (compute : S -> V) s1 s2 :
  (forall a b, keq a b = true <-> a = b) -> keyf s1 = keyf s2 -> compute s1 <> compute s2 ->
  exists h, Forall (fun o => match o with Get _ _ s _ v => v = compute s | Reset _ _ _ => True end) h /\
            exists v, In (Get S V s2 true (compute s2), Some v) (crun S K V keyf keq [] h) /\ v <> compute s2.
Proof.
  intros Hk Ek Hne. exists [Get S V s1 true (compute s1); Get S V s2 true (compute s2)].
  split; [repeat constructor|]. exists (compute s1). split; [|exact Hne].
  simpl. right. left. rewrite <- Ek. assert (E : keq (keyf s1) (keyf s1) = true) by (apply Hk; reflexivity).
  rewrite E. reflexivity.
Qed.

(* ================= the key ================= *)
Lemma insert_perm {A} (leb : A -> A -> bool) x : forall l, Permutation (x :: l) (insert leb x l).
Proof.
  induction l as [|y t IH]; simpl; [apply Permutation_refl|].
  destruct (leb x y); [apply Permutation_refl|].
  eapply Permutation_trans; [apply perm_swap|]. apply perm_skip, IH.
Qed.

Lemma isort_perm {A} (leb : A -> A -> bool) : forall l, Permutation l (isort leb l).
Proof.
  induction l as [|x t IH]; simpl; [constructor|].
  eapply Permutation_trans; [apply perm_skip, IH|apply insert_perm].
Qed.

Lemma isort_eq_perm {A} (leb : A -> A -> bool) l1 l2 : isort leb l1 = isort leb l2 -> Permutation l1 l2.
Proof.
  intros H. eapply Permutation_trans; [apply isort_perm|]. rewrite H. apply Permutation_sym, isort_perm.
Qed.

Lemma existsb_perm {A} (f : A -> bool) l1 l2 : Permutation l1 l2 -> existsb f l1 = existsb f l2.
Proof.
  induction 1 as [|x l l' _ IH|x y l|l l' l'' _ IH1 _ IH2]; simpl.
  - reflexivity. - rewrite IH; reflexivity. - destruct (f x), (f y); reflexivity. - congruence.
Qed.

Lemma forallb_perm {A} (f : A -> bool) l1 l2 : Permutation l1 l2 -> forallb f l1 = forallb f l2.
Proof.
  induction 1 as [|x l l' _ IH|x y l|l l' l'' _ IH1 _ IH2]; simpl.
  - reflexivity. - rewrite IH; reflexivity. - destruct (f x), (f y); reflexivity. - congruence.
Qed.

Lemma list_max_perm l1 l2 : Permutation l1 l2 -> list_max l1 = list_max l2.
Proof.
  unfold list_max. induction 1 as [|x l l' _ IH|x y l|l l' l'' _ IH1 _ IH2]; simpl; lia.
Qed.

(* two connector specifications that mean the same *)
Definition neqv (a b : cnode) : Prop :=
  c_rep a = c_rep b /\
  match c_list a, c_list b with
  | Some l, Some l' => Permutation l l'
  | None, None => c_min a = c_min b
  | _, _ => False
  end.

Lemma node_key_neqv a b : node_key a = node_key b -> neqv a b.
Proof.
  unfold node_key, neqv. destruct (c_list a) as [l|], (c_list b) as [l'|]; intros H; inversion H; split; auto.
  eapply isort_eq_perm; eauto.
Qed.

Lemma map_key_forall2 : forall a b, map node_key a = map node_key b -> Forall2 neqv a b.
Proof.
  induction a as [|x a IH]; intros [|y b] H; simpl in H; try discriminate; [constructor|].
  inversion H. constructor; [apply node_key_neqv; assumption|apply IH; assumption].
Qed.

Lemma neqv_dropped a b : neqv a b -> dropped a = dropped b.
Proof.
  unfold neqv, dropped. intros [_ H]. destruct (c_list a), (c_list b); try contradiction; [|reflexivity].
  apply forallb_perm, H.
Qed.

Lemma neqv_cap a b m : neqv a b -> cap_by a m = cap_by b m.
Proof.
  unfold neqv, cap_by. intros [_ H]. destruct (c_list a), (c_list b); try contradiction; [|reflexivity].
  rewrite (list_max_perm _ _ H). reflexivity.
Qed.

Lemma neqv_deg a b d : neqv a b -> deg_ok a d = deg_ok b d.
Proof.
  unfold neqv, deg_ok, memn. intros [_ H]. destruct (c_list a), (c_list b); try contradiction.
  - apply existsb_perm, H. - rewrite H. reflexivity.
Qed.

Lemma neqv_eff a b ov : neqv a b -> neqv (eff a ov) (eff b ov).
Proof.
  intros H. destruct ov as [l|]; simpl; [|exact H]. unfold neqv. simpl. split; [apply H|apply Permutation_refl].
Qed.

Lemma eff_nodes_forall2 ovs : forall a b, Forall2 neqv a b -> Forall2 neqv (eff_nodes a ovs) (eff_nodes b ovs).
Proof.
  unfold eff_nodes, enumerate. generalize 0.
  intros k a b H. revert k. induction H as [|x y a b Hxy _ IH]; intros k; simpl; constructor.
  - apply neqv_eff, Hxy. - apply IH.
Qed.

Definition par_contrib (n : cnode) : list nat :=
  if dropped n then [] else match c_list n with Some l => [list_max l] | None => [] end.

Lemma neqv_contrib a b : neqv a b -> par_contrib a = par_contrib b.
Proof.
  intros H. unfold par_contrib. rewrite (neqv_dropped a b H). destruct (dropped b); [reflexivity|].
  destruct H as [_ H]. destruct (c_list a), (c_list b); try contradiction; [|reflexivity].
  rewrite (list_max_perm _ _ H). reflexivity.
Qed.

Lemma flat_contrib a b : Forall2 neqv a b -> flat_map par_contrib a = flat_map par_contrib b.
Proof. induction 1 as [|x y a b Hxy _ IH]; simpl; [reflexivity|]. rewrite (neqv_contrib x y Hxy), IH. reflexivity. Qed.

Lemma par_limit_eqv s1 s2 src1 src2 tgt1 tgt2 :
  s_par s1 = s_par s2 -> Forall2 neqv src1 src2 -> Forall2 neqv tgt1 tgt2 ->
  par_limit s1 src1 tgt1 = par_limit s2 src2 tgt2.
Proof.
  intros Hp Hs Ht. unfold par_limit. rewrite Hp. destruct (s_par s2); [reflexivity|].
  change (fold_right Nat.max 2 (flat_map par_contrib (src1 ++ tgt1)) = fold_right Nat.max 2 (flat_map par_contrib (src2 ++ tgt2))).
  rewrite !flat_map_app, (flat_contrib _ _ Hs), (flat_contrib _ _ Ht). reflexivity.
Qed.

Lemma forall2_nth_error {A B} (R : A -> B -> Prop) : forall la lb, Forall2 R la lb -> forall i,
  match nth_error la i, nth_error lb i with
  | Some a, Some b => R a b
  | None, None => True
  | _, _ => False
  end.
Proof.
  induction 1 as [|x y la lb Hxy _ IH]; intros [|i]; simpl; auto. apply IH.
Qed.

Lemma forall2_length {A B} (R : A -> B -> Prop) la lb : Forall2 R la lb -> length la = length lb.
Proof. induction 1; simpl; [reflexivity|f_equal; assumption]. Qed.

Definition excl_eqv (s1 s2 : settings) : Prop :=
  forall i j, existsb (fun p => (fst p =? i) && (snd p =? j)) (s_excl s1) =
              existsb (fun p => (fst p =? i) && (snd p =? j)) (s_excl s2).

Lemma pair_max_eqv s1 s2 src1 src2 tgt1 tgt2 P i j :
  excl_eqv s1 s2 -> Forall2 neqv src1 src2 -> Forall2 neqv tgt1 tgt2 ->
  pair_max s1 src1 tgt1 P i j = pair_max s2 src2 tgt2 P i j.
Proof.
  intros Hx Hs Ht. unfold pair_max.
  pose proof (forall2_nth_error _ _ _ Hs i) as Hi. pose proof (forall2_nth_error _ _ _ Ht j) as Hj.
  destruct (nth_error src1 i) as [a|], (nth_error src2 i) as [a'|]; try contradiction; [|reflexivity].
  destruct (nth_error tgt1 j) as [b|], (nth_error tgt2 j) as [b'|]; try contradiction; [|reflexivity].
  rewrite (neqv_dropped _ _ Hi), (neqv_dropped _ _ Hj), (Hx i j).
  rewrite (neqv_cap a a' P Hi), (neqv_cap b b' _ Hj).
  destruct Hi as [-> _], Hj as [-> _]. reflexivity.
Qed.

(* settings that mean the same: connector specifications equivalent position by position, the same excluded pairs, the
   same parallel limit *)
Definition seqv (s1 s2 : settings) : Prop :=
  Forall2 neqv (s_src s1) (s_src s2) /\ Forall2 neqv (s_tgt s1) (s_tgt s2) /\ excl_eqv s1 s2 /\ s_par s1 = s_par s2.

Lemma forall2_sym_neqv a b : Forall2 neqv a b -> Forall2 neqv b a.
Proof.
  induction 1 as [|x y a b Hxy _ IH]; constructor; [|exact IH].
  destruct Hxy as [Hr H]. split; [symmetry; exact Hr|].
  destruct (c_list x), (c_list y); try contradiction; [apply Permutation_sym, H|symmetry; exact H].
Qed.

Lemma seqv_sym s1 s2 : seqv s1 s2 -> seqv s2 s1.
Proof.
  intros [Hs [Ht [Hx Hp]]]. repeat split; [apply forall2_sym_neqv, Hs|apply forall2_sym_neqv, Ht| |symmetry; exact Hp].
  intros i j. symmetry. apply Hx.
Qed.

Lemma ValidM_seqv_imp s1 s2 e M : seqv s1 s2 -> ValidM s1 e M -> ValidM s2 e M.
Proof.
  intros [Hs [Ht [Hx Hp]]]. unfold ValidM.
  pose proof (eff_nodes_forall2 (x_src e) _ _ Hs) as Es. pose proof (eff_nodes_forall2 (x_tgt e) _ _ Ht) as Et.
  set (src1 := eff_nodes (s_src s1) (x_src e)) in *. set (src2 := eff_nodes (s_src s2) (x_src e)) in *.
  set (tgt1 := eff_nodes (s_tgt s1) (x_tgt e)) in *. set (tgt2 := eff_nodes (s_tgt s2) (x_tgt e)) in *.
  cbv zeta. rewrite (par_limit_eqv s1 s2 src1 src2 tgt1 tgt2 Hp Es Et).
  rewrite (forall2_length _ _ _ Es), (forall2_length _ _ _ Et).
  intros [H1 [H2 [H3 [H4 H5]]]]. split; [exact H1|]. split; [exact H2|]. split; [|split].
  - intros i j Hi Hj. rewrite <- (pair_max_eqv s1 s2 src1 src2 tgt1 tgt2 _ i j Hx Es Et). apply H3; assumption.
  - intros i a Ha. pose proof (forall2_nth_error _ _ _ Es i) as Hi. rewrite Ha in Hi.
    destruct (nth_error src1 i) as [a1|] eqn:E1; [|contradiction].
    rewrite <- (neqv_deg a1 a _ Hi). apply (H4 i a1 E1).
  - intros j b Hb. pose proof (forall2_nth_error _ _ _ Et j) as Hj. rewrite Hb in Hj.
    destruct (nth_error tgt1 j) as [b1|] eqn:E1; [|contradiction].
    rewrite <- (neqv_deg b1 b _ Hj). apply (H5 j b1 E1).
Qed.

Theorem ValidM_seqv s1 s2 e M : seqv s1 s2 -> (ValidM s1 e M <-> ValidM s2 e M).
Proof. intros H. split; apply ValidM_seqv_imp; [exact H|apply seqv_sym, H]. Qed.

(* equal keys: equivalent settings and the same list of existence patterns (as override dictionaries) *)
Theorem cache_key_seqv s1 p1 s2 p2 : cache_key s1 p1 = cache_key s2 p2 ->
  seqv s1 s2 /\ option_map (map pattern_key) p1 = option_map (map pattern_key) p2.
Proof.
  unfold cache_key. intros H. inversion H as [[Hs Ht Hx Hp Hm]]. split; [|first [exact Hp|reflexivity]].
  repeat split; [apply map_key_forall2, Hs|apply map_key_forall2, Ht| |exact Hm].
  intros i j. apply existsb_perm. eapply isort_eq_perm; eauto.
Qed.

(* so two settings that share a cache entry have exactly the same valid connection matrices under every pattern *)
Theorem shared_entry_same_matrices s1 p1 s2 p2 : cache_key s1 p1 = cache_key s2 p2 ->
  forall e M, ValidM s1 e M <-> ValidM s2 e M.
Proof. intros H e M. apply ValidM_seqv. apply (cache_key_seqv _ _ _ _ H). Qed.

(* the override dictionary determines the pattern (for pattern lists of one length) *)
Lemma ov_items_from_inj : forall a b k, length a = length b ->
  flat_map (fun p : nat * option (list nat) => match snd p with Some l => [(fst p, l)] | None => [] end) (enumerate_from k a) =
  flat_map (fun p : nat * option (list nat) => match snd p with Some l => [(fst p, l)] | None => [] end) (enumerate_from k b) ->
  a = b.
Proof.
  assert (Hlow : forall (c : list (option (list nat))) k i l,
            In (i, l) (flat_map (fun p : nat * option (list nat) => match snd p with Some l => [(fst p, l)] | None => [] end)
                                (enumerate_from k c)) -> k <= i).
  { induction c as [|x c IH]; intros k i l H; simpl in H; [contradiction|].
    apply in_app_or in H. destruct H as [H|H].
    - destruct x; simpl in H; [destruct H as [H|[]]; inversion H; lia|contradiction].
    - apply IH in H. lia. }
  induction a as [|x a IH]; intros [|y b] k Hl H; simpl in Hl; try discriminate; [reflexivity|].
  simpl in H. destruct x as [lx|], y as [ly|]; simpl in H.
  - inversion H. f_equal. apply (IH b (S k)); [lia|assumption].
  - exfalso. assert (Hin : In (k, lx) (flat_map (fun p : nat * option (list nat) => match snd p with Some l => [(fst p, l)] | None => [] end)
                                          (enumerate_from (S k) b))) by (rewrite <- H; left; reflexivity).
    apply Hlow in Hin. lia.
  - exfalso. assert (Hin : In (k, ly) (flat_map (fun p : nat * option (list nat) => match snd p with Some l => [(fst p, l)] | None => [] end)
                                          (enumerate_from (S k) a))) by (rewrite H; left; reflexivity).
    apply Hlow in Hin. lia.
  - f_equal. apply (IH b (S k)); [lia|assumption].
Qed.

Theorem pattern_key_inj e1 e2 : length (x_src e1) = length (x_src e2) -> length (x_tgt e1) = length (x_tgt e2) ->
  pattern_key e1 = pattern_key e2 -> e1 = e2.
Proof.
  intros Hs Ht H. unfold pattern_key, ov_items, enumerate in H. inversion H as [[H1 H2]].
  destruct e1 as [a1 b1], e2 as [a2 b2]. simpl in *.
  rewrite (ov_items_from_inj a1 a2 0 Hs H1), (ov_items_from_inj b1 b2 0 Ht H2). reflexivity.
Qed.

(* ckey_eqb decides equality of keys *)
Lemma list_eqb_spec {A} (eqb : A -> A -> bool) : (forall x y, eqb x y = true <-> x = y) ->
  forall a b, list_eqb eqb a b = true <-> a = b.
Proof.
  intros He. induction a as [|x a IH]; intros [|y b]; simpl; split; intros H; try discriminate; try reflexivity.
  - apply andb_true_iff in H. destruct H as [H1 H2]. apply He in H1. apply IH in H2. subst. reflexivity.
  - inversion H; subst. apply andb_true_iff. split; [apply He; reflexivity|apply IH; reflexivity].
Qed.

Lemma opt_eqb_spec {A} (eqb : A -> A -> bool) : (forall x y, eqb x y = true <-> x = y) ->
  forall a b, opt_eqb eqb a b = true <-> a = b.
Proof.
  intros He [x|] [y|]; simpl; split; intros H; try discriminate; try reflexivity.
  - apply He in H. subst. reflexivity. - inversion H. apply He. reflexivity.
Qed.

Lemma nat_eqb_spec x y : (x =? y) = true <-> x = y. Proof. apply Nat.eqb_eq. Qed.

Lemma item_eqb_spec x y : item_eqb x y = true <-> x = y.
Proof.
  destruct x as [i l], y as [j m]. unfold item_eqb. simpl. rewrite andb_true_iff, Nat.eqb_eq, (list_eqb_spec _ nat_eqb_spec).
  split; [intros [-> ->]; reflexivity|intros H; inversion H; auto].
Qed.

Lemma nk_eqb_spec x y : nk_eqb x y = true <-> x = y.
Proof.
  destruct x as [[l m] r], y as [[l' m'] r']. unfold nk_eqb. simpl.
  rewrite !andb_true_iff, Nat.eqb_eq, eqb_true_iff, (opt_eqb_spec _ (list_eqb_spec _ nat_eqb_spec)).
  split; [intros [[-> ->] ->]; reflexivity|intros H; inversion H; auto].
Qed.

Lemma pk_eqb_spec x y : pk_eqb x y = true <-> x = y.
Proof.
  destruct x as [a b], y as [a' b']. unfold pk_eqb. simpl. rewrite andb_true_iff, !(list_eqb_spec _ item_eqb_spec).
  split; [intros [-> ->]; reflexivity|intros H; inversion H; auto].
Qed.

Lemma pp_eqb_spec x y : pp_eqb x y = true <-> x = y.
Proof.
  destruct x as [a b], y as [a' b']. unfold pp_eqb. simpl. rewrite andb_true_iff, !Nat.eqb_eq.
  split; [intros [-> ->]; reflexivity|intros H; inversion H; auto].
Qed.

Theorem ckey_eqb_spec a b : ckey_eqb a b = true <-> a = b.
Proof.
  destruct a as [[[[s1 t1] x1] p1] m1], b as [[[[s2 t2] x2] p2] m2]. unfold ckey_eqb.
  rewrite !andb_true_iff, !(list_eqb_spec _ nk_eqb_spec), (list_eqb_spec _ pp_eqb_spec),
    (opt_eqb_spec _ (list_eqb_spec _ pk_eqb_spec)), (opt_eqb_spec _ nat_eqb_spec).
  split; [intros [[[[-> ->] ->] ->] ->]; reflexivity|intros H; inversion H; auto 6].
Qed.
