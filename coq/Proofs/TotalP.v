(* TotalP.v — the fuelled functions of Sel.v never run out of fuel on a graph whose start nodes and edge targets are
   declared nodes: closure and enum_adm always return Some (so the theorems stated under "= Some ..." are not vacuous and
   the driver's answer "none" can only mean a malformed description). *)
From DSG Require Import Base Constraint Dsg Sel SelP.
Local Open Scope nat_scope.

Definition universe (g : dsg) : list node := map fst (nodes g).

Definition wf_nodes (g : dsg) : Prop :=
  (forall n, In n (start g) -> In n (universe g)) /\
  (forall e, In e (edges g) -> In (e_tgt e) (universe g)).

Lemma dc_succ_universe g m n : wf_nodes g -> In n (dc_succ g m) -> In n (universe g).
Proof.
  intros [_ He] H. unfold dc_succ in H. apply in_map_iff in H. destruct H as [e [<- Hin]].
  apply filter_In in Hin. apply He, Hin.
Qed.

Lemma sel_opts_universe g c o : wf_nodes g -> In o (sel_opts g c) -> In o (universe g).
Proof.
  intros [_ He] H. unfold sel_opts in H. apply in_map_iff in H. destruct H as [e [<- Hin]].
  apply filter_In in Hin. apply He, Hin.
Qed.

Lemma succs_universe g s m n : wf_nodes g -> In n (succs g s m) -> In n (universe g).
Proof.
  intros Hwf H. unfold succs in H. destruct (is_sel g m).
  - destruct (lookup s m) as [o|]; [|contradiction]. destruct (memN o (sel_opts g m)) eqn:E; [|contradiction].
    destruct H as [<-|[]]. apply memN_In in E. eapply sel_opts_universe; eauto.
  - destruct (is_conn g m); [contradiction|]. eapply dc_succ_universe; eauto.
Qed.

Lemma NoDup_filter_t {A} (f : A -> bool) l : NoDup l -> NoDup (filter f l).
Proof.
  induction 1 as [|x l Hx _ IH]; simpl; [constructor|]. destruct (f x); [|exact IH].
  constructor; [|exact IH]. intros H. apply filter_In in H. apply Hx, H.
Qed.

Lemma NoDup_app_disjoint {A} (a b : list A) : NoDup a -> NoDup b -> (forall x, In x b -> ~ In x a) -> NoDup (a ++ b).
Proof.
  induction a as [|x a IH]; intros Ha Hb Hd; simpl; [exact Hb|].
  inversion Ha; subst. constructor.
  - intros H. apply in_app_or in H. destruct H as [H|H]; [contradiction|]. apply (Hd x H). left; reflexivity.
  - apply IH; [assumption|exact Hb|]. intros y Hy Hya. apply (Hd y Hy). right; exact Hya.
Qed.

Lemma iter_close_total g s : wf_nodes g -> forall fuel W,
  NoDup W -> incl W (universe g) -> length (universe g) <= length W + fuel ->
  exists W', iter_close g s fuel W = Some W'.
Proof.
  intros Hwf. induction fuel as [|f IH]; intros W Hnd Hin Hlen; simpl.
  - destruct (filter (fun n => negb (memN n W)) (dedupN (flat_map (succs g s) W))) as [|y new] eqn:E; [eauto|].
    exfalso.
    assert (Hy : In y (universe g) /\ ~ In y W).
    { assert (Hf : In y (filter (fun n => negb (memN n W)) (dedupN (flat_map (succs g s) W)))) by (rewrite E; left; reflexivity).
      apply filter_In in Hf. destruct Hf as [Hf Hn]. apply negb_true_iff, memN_false in Hn. split; [|exact Hn].
      apply dedupN_In, in_flat_map in Hf. destruct Hf as [m [_ Hs]]. eapply succs_universe; eauto. }
    destruct Hy as [Hyu Hyw].
    assert (Hnd' : NoDup (y :: W)) by (constructor; assumption).
    assert (Hin' : incl (y :: W) (universe g)) by (intros z [<-|Hz]; [exact Hyu|apply Hin, Hz]).
    pose proof (NoDup_incl_length Hnd' Hin') as Hl. unfold universe, node in *. simpl in Hl. lia.
  - destruct (filter (fun n => negb (memN n W)) (dedupN (flat_map (succs g s) W))) as [|y new] eqn:E; [eauto|].
    apply IH.
    + apply NoDup_app_disjoint; [exact Hnd| |].
      * rewrite <- E. apply NoDup_filter_t, dedupN_NoDup.
      * intros x Hx. rewrite <- E in Hx. apply filter_In in Hx. destruct Hx as [_ Hx].
        apply negb_true_iff, memN_false in Hx. exact Hx.
    + intros z Hz. apply in_app_or in Hz. destruct Hz as [Hz|Hz]; [apply Hin, Hz|].
      rewrite <- E in Hz. apply filter_In in Hz. destruct Hz as [Hz _].
      apply dedupN_In, in_flat_map in Hz. destruct Hz as [m [_ Hs]]. eapply succs_universe; eauto.
    + rewrite app_length. simpl. lia.
Qed.

Theorem closure_total g s : wf_nodes g -> exists W, closure g s = Some W.
Proof.
  intros Hwf. unfold closure. apply iter_close_total; [exact Hwf|apply dedupN_NoDup| |].
  - intros n Hn. apply (proj1 Hwf). apply dedupN_In. exact Hn.
  - unfold universe. rewrite map_length. lia.
Qed.

Lemma closure_universe g s W : wf_nodes g -> closure g s = Some W -> incl W (universe g).
Proof.
  intros Hwf H n Hn. pose proof (closure_sound g s W H n Hn) as Hr. clear H Hn.
  induction Hr as [n Hn|m n _ IH Hc Hn|c o _ IH Hs Hl Ho].
  - apply (proj1 Hwf), Hn.
  - eapply dc_succ_universe; eauto.
  - eapply sel_opts_universe; eauto.
Qed.

Lemma concat_opt_some {A} (l : list (option (list A))) : (forall x, In x l -> exists r, x = Some r) -> exists r, concat_opt l = Some r.
Proof.
  induction l as [|x t IH]; intros H; simpl; [eauto|].
  destruct (H x (or_introl eq_refl)) as [r ->]. destruct IH as [r' ->]; [intros y Hy; apply H; right; exact Hy|]. eauto.
Qed.

Lemma enum_total g : wf_nodes g -> forall fuel s,
  Pre g s -> length (universe g) <= length s + fuel -> exists l, enum g fuel s = Some l.
Proof.
  intros Hwf. induction fuel as [|f IH]; intros s HP Hlen; simpl;
    destruct (closure_total g s Hwf) as [W HW]; rewrite HW;
    destruct (pending g s W) as [|c rest] eqn:Hp; eauto.
  - exfalso.
    assert (Hc : In c (pending g s W)) by (rewrite Hp; left; reflexivity).
    apply pending_spec in Hc. destruct Hc as [HcW [_ Hnin]].
    destruct HP as [Hnd HPs].
    assert (Hnd' : NoDup (c :: map fst s)) by (constructor; assumption).
    assert (Hin' : incl (c :: map fst s) (universe g)).
    { intros z [<-|Hz]; [eapply closure_universe; eauto|].
      apply in_map_iff in Hz. destruct Hz as [[c' o'] [<- Hz]]. simpl.
      destruct (HPs _ _ Hz) as [_ [Hr _]].
      destruct (closure_total g s Hwf) as [W' HW']. eapply closure_universe; [exact Hwf|exact HW'|].
      eapply closure_complete; eauto. }
    pose proof (NoDup_incl_length Hnd' Hin') as Hl. unfold universe, node in *. simpl in Hl. rewrite !map_length in *. lia.
  - apply concat_opt_some. intros x Hx. apply in_map_iff in Hx. destruct Hx as [o [<- Ho]].
    apply IH.
    + eapply Pre_step; eauto. rewrite Hp. left; reflexivity.
    + rewrite app_length. simpl. lia.
Qed.

Theorem enum_adm_total g : wf_nodes g -> exists l, enum_adm g = Some l.
Proof.
  intros Hwf. unfold enum_adm. apply enum_total; [exact Hwf|apply Pre_nil|].
  unfold universe. rewrite map_length. simpl. lia.
Qed.

(* ---------- edges that are not derivations ---------- *)
(* an excluded-connection or incompatibility edge never makes its target part of an instance: adding one leaves the
   derivation closure of every assignment unchanged (the implementation followed EXCLUDES edges until a8ef938) *)
Definition add_edge (g : dsg) (e : edge) : dsg :=
  {| nodes := nodes g; edges := e :: edges g; start := start g; cons := cons g |}.

Definition non_deriving (e : edge) : Prop := e_kind e = Excludes \/ e_kind e = Incompat.

Lemma dc_succ_add g e m : non_deriving e -> dc_succ (add_edge g e) m = dc_succ g m.
Proof.
  intros H. unfold dc_succ, add_edge. simpl. destruct H as [H|H]; rewrite H; rewrite andb_false_r; reflexivity.
Qed.

Lemma sel_opts_add g e c : non_deriving e -> sel_opts (add_edge g e) c = sel_opts g c.
Proof.
  intros H. unfold sel_opts, add_edge. simpl. destruct H as [H|H]; rewrite H; simpl; rewrite andb_false_r; reflexivity.
Qed.

Theorem reach_ignores_non_deriving_edges g e s n : non_deriving e -> (Reach (add_edge g e) s n <-> Reach g s n).
Proof.
  intros He. split; intros H.
  - induction H as [n Hn|m n _ IH Hc Hn|c o _ IH Hs Hl Ho].
    + apply R_start. exact Hn.
    + eapply R_edge; [exact IH|exact Hc|]. rewrite (dc_succ_add g e m He) in Hn. exact Hn.
    + eapply R_sel; [exact IH|exact Hs|exact Hl|]. rewrite (sel_opts_add g e c He) in Ho. exact Ho.
  - induction H as [n Hn|m n _ IH Hc Hn|c o _ IH Hs Hl Ho].
    + apply R_start. exact Hn.
    + eapply R_edge; [exact IH|exact Hc|]. rewrite (dc_succ_add g e m He). exact Hn.
    + eapply R_sel; [exact IH|exact Hs|exact Hl|]. rewrite (sel_opts_add g e c He). exact Ho.
Qed.
