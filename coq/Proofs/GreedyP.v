From DSG Require Import Base Constraint Dsg Sel SelP Neighborhood NeighborhoodP Greedy.
Open Scope N_scope.

(* ---------- a successful greedy application ends in a final, conflict-free state ---------- *)
Definition settled (g : dsg) (vars : list gvar) (s : assign) : Prop :=
  exists W rem, closure g s = Some W /\ next_choice g s W rem vars = None /\ final_ok g s W = true.

Lemma greedy_ok g vars x : forall fuel s rem taken s' taken',
  greedy g vars x fuel s rem taken = Some (TOk s' taken') -> settled g vars s'.
Proof.
  induction fuel as [|f IH]; intros s rem taken s' taken' H; cbn [greedy] in H;
    destruct (closure g s) as [W|] eqn:EW; try discriminate;
    destruct (next_choice g s W rem vars) as [[c opts]|] eqn:EN.
  - discriminate.
  - destruct (final_ok g s W) eqn:EF; inversion H; subst. exists W, rem. auto.
  - destruct (avail g W rem opts) as [|o [|o2 av]] eqn:EA; try discriminate.
    + eapply IH; eauto.
    + destruct (0 <=? x c)%Z; [|discriminate].
      destruct (nth_error opts (Z.to_nat (x c))) as [o'|]; [|discriminate].
      destruct (memN o' (o :: o2 :: av)); [|discriminate]. eapply IH; eauto.
  - destruct (final_ok g s W) eqn:EF; inversion H; subst. exists W, rem. auto.
Qed.

(* no active choice is left: every selection choice of vars that was reached has an option *)
Lemma next_choice_none g s W rem vars : next_choice g s W rem vars = None ->
  forall v, In v vars -> memN (fst v) W = true -> assigned s (fst v) = true.
Proof.
  unfold next_choice. intros H v Hv Hm.
  destruct (find (fun v0 => is_pending s W v0 && (length (avail g W rem (snd v0)) <=? 1)%nat) vars); [discriminate|].
  pose proof (find_none _ _ H v Hv) as Hn. unfold is_pending in Hn. rewrite Hm in Hn. simpl in Hn.
  destruct (assigned s (fst v)); [reflexivity|discriminate].
Qed.

(* what is recorded as taken is what the vector asked for *)
Lemma greedy_taken g vars x : forall fuel s rem taken s' taken',
  greedy g vars x fuel s rem taken = Some (TOk s' taken') ->
  (forall c i, In (c, i) taken -> i = x c) -> forall c i, In (c, i) taken' -> i = x c.
Proof.
  induction fuel as [|f IH]; intros s rem taken s' taken' H Ht; cbn [greedy] in H;
    destruct (closure g s) as [W|] eqn:EW; try discriminate;
    destruct (next_choice g s W rem vars) as [[c opts]|] eqn:EN.
  - discriminate.
  - destruct (final_ok g s W); inversion H; subst. exact Ht.
  - destruct (avail g W rem opts) as [|o [|o2 av]] eqn:EA; try discriminate.
    + eapply IH; eauto.
    + destruct (0 <=? x c)%Z; [|discriminate].
      destruct (nth_error opts (Z.to_nat (x c))) as [o'|]; [|discriminate].
      destruct (memN o' (o :: o2 :: av)); [|discriminate].
      eapply IH; [exact H|]. intros c0 i0 Hin. apply in_app_iff in Hin. destruct Hin as [Hin|[Hin|[]]]; [eauto|].
      inversion Hin; subst. reflexivity.
  - destruct (final_ok g s W); inversion H; subst. exact Ht.
Qed.

(* ---------- ... and that state is an admissible architecture of the graph semantics ---------- *)
Definition vars_wf (g : dsg) (vars : list gvar) : Prop :=
  (forall v, In v vars -> is_sel g (fst v) = true /\ incl (snd v) (sel_opts g (fst v))) /\
  (forall c, is_sel g c = true -> In c (map fst vars)).

Lemma next_choice_some g s W rem vars c opts : next_choice g s W rem vars = Some (c, opts) ->
  In (c, opts) vars /\ memN c W = true /\ assigned s c = false.
Proof.
  unfold next_choice. intros H.
  destruct (find (fun v => is_pending s W v && (length (avail g W rem (snd v)) <=? 1)%nat) vars) as [v|] eqn:E1.
  - inversion H; subst. apply find_some in E1. destruct E1 as [Hin Hb]. apply andb_true_iff in Hb. destruct Hb as [Hb _].
    unfold is_pending in Hb. simpl in Hb. apply andb_true_iff in Hb. destruct Hb as [Hm Ha].
    apply negb_true_iff in Ha. auto.
  - apply find_some in H. destruct H as [Hin Hb]. unfold is_pending in Hb. simpl in Hb.
    apply andb_true_iff in Hb. destruct Hb as [Hm Ha]. apply negb_true_iff in Ha. auto.
Qed.

Lemma avail_incl g W rem opts : incl (avail g W rem opts) opts.
Proof. unfold avail. intros o Ho. apply filter_In in Ho. apply Ho. Qed.

Lemma greedy_pre g vars x : vars_wf g vars -> forall fuel s rem taken s' taken',
  Pre g s -> greedy g vars x fuel s rem taken = Some (TOk s' taken') -> Pre g s'.
Proof.
  intros [Hwf _]. induction fuel as [|f IH]; intros s rem taken s' taken' Hp H; cbn [greedy] in H;
    destruct (closure g s) as [W|] eqn:EW; try discriminate;
    destruct (next_choice g s W rem vars) as [[c opts]|] eqn:EN.
  - discriminate.
  - destruct (final_ok g s W); inversion H; subst. exact Hp.
  - destruct (next_choice_some _ _ _ _ _ _ _ EN) as (Hin & HcW & Has).
    destruct (Hwf _ Hin) as [Hsel Hincl]. simpl in Hsel, Hincl.
    assert (Hpend : In c (pending g s W)).
    { apply pending_spec. split; [apply memN_In, HcW|]. split; [exact Hsel|]. apply assigned_false, Has. }
    destruct (avail g W rem opts) as [|o [|o2 av]] eqn:EA; try discriminate.
    + eapply IH; [|exact H]. eapply Pre_step; eauto. apply Hincl, (avail_incl g W rem opts). rewrite EA. left; reflexivity.
    + destruct (0 <=? x c)%Z; [|discriminate].
      destruct (nth_error opts (Z.to_nat (x c))) as [o'|] eqn:En; [|discriminate].
      destruct (memN o' (o :: o2 :: av)); [|discriminate].
      eapply IH; [|exact H]. eapply Pre_step; eauto. apply Hincl. eapply nth_error_In; eauto.
  - destruct (final_ok g s W); inversion H; subst. exact Hp.
Qed.

Theorem greedy_adm g vars x fuel s' taken' :
  vars_wf g vars -> greedy g vars x fuel [] [] [] = Some (TOk s' taken') -> Adm g s'.
Proof.
  intros Hwf H. pose proof (greedy_pre g vars x Hwf _ _ _ _ _ _ (Pre_nil g) H) as Hp.
  destruct (greedy_ok _ _ _ _ _ _ _ _ _ H) as (W & rem & Hcl & Hnone & Hfin).
  eapply leaf_adm; eauto.
  destruct (pending g s' W) as [|c t] eqn:EP; [reflexivity|exfalso].
  assert (Hc : In c (pending g s' W)) by (rewrite EP; left; reflexivity).
  apply pending_spec in Hc. destruct Hc as (HcW & Hsel & Hnin).
  destruct Hwf as [_ Hcov]. specialize (Hcov c Hsel). apply in_map_iff in Hcov. destruct Hcov as (v & Ev & Hv).
  pose proof (next_choice_none _ _ _ _ _ Hnone v Hv) as Ha. rewrite Ev in Ha.
  specialize (Ha (proj2 (memN_In _ _) HcW)). apply assigned_true in Ha. contradiction.
Qed.

(* ---------- one try ---------- *)
Lemma try_vector_sound chk g ovars vars fixed y imp inst :
  try_vector chk g ovars vars fixed y = Some (Some (imp, inst)) ->
  exists s taken, settled g ovars s /\ (vars_wf g ovars -> Adm g s) /\ inst_nodes g s = Some inst /\
                  imp = map (fun v => zlookup taken (fst v)) vars /\
                  (forall c i, In (c, i) taken -> i = req_of vars y c) /\
                  (chk = true -> respects_fixed g vars y fixed taken inst = true).
Proof.
  unfold try_vector. intros H.
  destruct (greedy g ovars (req_of vars y) (length vars + 1) [] [] []) as [[|s taken]|] eqn:EG; try discriminate.
  destruct (inst_nodes g s) as [inst'|] eqn:EI; [|discriminate].
  destruct (negb chk || respects_fixed g vars y fixed taken inst') eqn:ER; [|discriminate].
  inversion H; subst. exists s, taken. split; [eapply greedy_ok; eauto|].
  split; [intros Hwf; eapply greedy_adm; eauto|]. split; [exact EI|]. split; [reflexivity|].
  split; [eapply greedy_taken; [exact EG|]; intros c i []|].
  intros ->. simpl in ER. exact ER.
Qed.

(* ---------- the search ---------- *)
Lemma first_try_some {A} (f : list Z -> option (option A)) : forall l r,
  first_try f l = Some (Some r) -> exists y, In y l /\ f y = Some (Some r).
Proof.
  induction l as [|y t IH]; intros r H; simpl in H; [discriminate|].
  destruct (f y) as [[r'|]|] eqn:E; [|apply IH in H; destruct H as (y' & Hin & Hy); exists y'; split; [right|]; assumption|discriminate].
  inversion H; subst. exists y. split; [left; reflexivity|exact E].
Qed.

Lemma first_try_head {A} (f : list Z -> option (option A)) y t r :
  f y = Some (Some r) -> first_try f (y :: t) = Some (Some r).
Proof. intros H. simpl. rewrite H. reflexivity. Qed.

Definition nvars_of (vars : list gvar) (x : list Z) (fixed : list bool) : list nvar :=
  map (fun p => (length (snd (fst (fst p))), snd (fst p), snd p)) (combine (combine vars x) fixed).

(* soundness: what the decode returns comes from a vector of the neighbourhood of the request -- the fixed entries are the
   requested ones, the others are option indices -- whose greedy application is settled (final, no conflict, constraints
   met) and, with the check on, respects the fixed values *)
Theorem fast_decode_sound chk g ovars vars x fixed imp inst :
  requested_ok (nvars_of vars x fixed) ->
  fast_decode chk g ovars vars x fixed = Some (Some (imp, inst)) ->
  exists y s taken,
    in_space (nvars_of vars x fixed) y /\ settled g ovars s /\ (vars_wf g ovars -> Adm g s) /\ inst_nodes g s = Some inst /\
    imp = map (fun v => zlookup taken (fst v)) vars /\
    (forall c i, In (c, i) taken -> i = req_of vars y c) /\
    (chk = true -> respects_fixed g vars y fixed taken inst = true).
Proof.
  intros Hok H. unfold fast_decode in H. fold (nvars_of vars x fixed) in H.
  apply first_try_some in H. destruct H as (y & Hin & Hy).
  apply try_vector_sound in Hy. destruct Hy as (s & taken & H1 & H1' & H2 & H3 & H4 & H5).
  exists y, s, taken. split; [apply neighborhood_exact; assumption|].
  split; [exact H1|]. split; [exact H1'|]. split; [exact H2|]. split; [exact H3|]. split; [exact H4|exact H5].
Qed.

Lemma nvars_requested : forall vars x fixed, length x = length vars -> length fixed = length vars ->
  map (fun v : nvar => snd (fst v)) (nvars_of vars x fixed) = x.
Proof.
  unfold nvars_of. induction vars as [|v vs IH]; intros [|i x] [|b fx] Hx Hf; simpl in *; try discriminate; try reflexivity.
  f_equal. apply IH; lia.
Qed.

Theorem fast_decode_respects g ovars vars x fixed imp inst :
  requested_ok (nvars_of vars x fixed) ->
  fast_decode true g ovars vars x fixed = Some (Some (imp, inst)) ->
  exists y taken, in_space (nvars_of vars x fixed) y /\ respects_fixed g vars y fixed taken inst = true /\
                  imp = map (fun v => zlookup taken (fst v)) vars.
Proof.
  intros Hok H. destruct (fast_decode_sound true g ovars vars x fixed imp inst Hok H)
    as (y & s & taken & H1 & _ & _ & _ & H4 & _ & H6). exists y, taken. auto.
Qed.

(* a vector that is already valid is returned as it is: its own greedy application decides *)
Theorem fast_decode_identity chk g ovars vars x fixed r :
  length x = length vars -> length fixed = length vars ->
  try_vector chk g ovars vars fixed x = Some (Some r) ->
  fast_decode chk g ovars vars x fixed = Some (Some r).
Proof.
  intros Hx Hf H. unfold fast_decode. fold (nvars_of vars x fixed).
  destruct (neighborhood_head (nvars_of vars x fixed)) as [t Ht]. rewrite Ht.
  rewrite (nvars_requested vars x fixed Hx Hf). apply first_try_head, H.
Qed.

(* the decode without the check of 30ede4f ignores a fixed value: choices 10 (options 2,3 below node 1) and 11 (options 5,6
   below node 4); 3 is incompatible with 5; choice 11 is fixed to option 5 and the free choice 10 asks for 3 *)
Definition g_f20 : dsg :=
  {| nodes := [(0, Generic); (1, Generic); (2, Generic); (3, Generic); (4, Generic); (5, Generic); (6, Generic);
               (10, SelChoice); (11, SelChoice)];
     edges := [(0, 1, Derives); (0, 4, Derives); (1, 10, Derives); (10, 2, Derives); (10, 3, Derives);
               (4, 11, Derives); (11, 5, Derives); (11, 6, Derives); (3, 5, Incompat); (5, 3, Incompat)];
     start := [0]; cons := [] |}.
Definition vars_f20 : list gvar := [(10, [2; 3]); (11, [5; 6])].

Theorem fixed_value_ignored_refuted :
  fast_decode false g_f20 vars_f20 vars_f20 [1; 0]%Z [false; true] = Some (Some ([1; -1]%Z, [0; 1; 4; 3; 6])) /\
  fast_decode true g_f20 vars_f20 vars_f20 [1; 0]%Z [false; true] = Some (Some ([0; 0]%Z, [0; 1; 4; 2; 5])).
Proof. vm_compute. split; reflexivity. Qed.
