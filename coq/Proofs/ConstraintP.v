(* Proofs about Model/Constraint.v *)
From DSG Require Import Base Constraint.
From Coq Require Import Sorted.
Open Scope Z_scope.

Lemma adjb_cons R x l : adjb R (x :: l) = match l with [] => true | y :: _ => R x y && adjb R l end.
Proof. destruct l; reflexivity. Qed.

Lemma adjb_strongly R (P : Z -> Z -> Prop)
  (HR : forall x y, R x y = true <-> P x y) (Htrans : forall x y z, P x y -> P y z -> P x z) :
  forall l, adjb R l = true <-> StronglySorted P l.
Proof.
  induction l as [|x l IH]; [split; constructor|].
  rewrite adjb_cons. destruct l as [|y l].
  - split; intros _; [repeat constructor|reflexivity].
  - rewrite andb_true_iff, IH, HR. split.
    + intros [Hxy Hs]. constructor; [exact Hs|].
      constructor; [exact Hxy|].
      inversion Hs as [|? ? Hs' Hall]; subst.
      eapply Forall_impl; [|exact Hall]. intros z Hz. eapply Htrans; eauto.
    + intros Hs. inversion Hs as [|? ? Hs' Hall]; subst. split; [|exact Hs'].
      inversion Hall; subst; assumption.
Qed.

Lemma adjb_le l : adjb Z.leb l = true <-> StronglySorted Z.le l.
Proof. apply adjb_strongly; [intros; apply Z.leb_le | intros; lia]. Qed.
Lemma adjb_lt l : adjb Z.ltb l = true <-> StronglySorted Z.lt l.
Proof. apply adjb_strongly; [intros; apply Z.ltb_lt | intros; lia]. Qed.

Lemma all_eq_first_spec a : all_eq_first a = true <-> (forall x y, In x a -> In y a -> x = y).
Proof.
  destruct a as [|h t]; simpl; [split; [intros _ ? ? []|reflexivity]|].
  rewrite forallb_forall. split.
  - intros H x y [->|Hx] [->|Hy]; try reflexivity.
    + apply Z.eqb_eq, H, Hy.
    + symmetry; apply Z.eqb_eq, H, Hx.
    + apply H in Hx, Hy. apply Z.eqb_eq in Hx, Hy. congruence.
  - intros H x Hx. apply Z.eqb_eq, H; auto.
Qed.

Lemma is_act_true v : is_act v = true <-> v <> -1.
Proof. unfold is_act. rewrite negb_true_iff, Z.eqb_neq. tauto. Qed.

Lemma pairs_ne_nodup row : pairs_ne row = true <-> NoDup (act row).
Proof.
  induction row as [|x t IH]; simpl; [split; [constructor|reflexivity]|].
  rewrite andb_true_iff, IH, forallb_forall. unfold act in *. simpl.
  destruct (is_act x) eqn:Hx.
  - apply is_act_true in Hx. split.
    + intros [Hall Hnd]. constructor; [|exact Hnd].
      intros Hin. apply filter_In in Hin. destruct Hin as [Hin Hact].
      specialize (Hall x Hin). apply is_act_true in Hact.
      rewrite !orb_true_iff, negb_true_iff, !Z.eqb_eq, Z.eqb_neq in Hall. tauto.
    + intros Hnd. inversion Hnd as [|? ? Hnin Hnd']; subst. split; [|exact Hnd'].
      intros y Hy. rewrite !orb_true_iff, negb_true_iff, !Z.eqb_eq, Z.eqb_neq.
      destruct (Z.eq_dec y (-1)) as [->|Hy1]; [tauto|].
      left; left. intros ->. apply Hnin. apply filter_In. split; [exact Hy|].
      apply is_act_true; exact Hy1.
  - unfold is_act in Hx. rewrite negb_false_iff, Z.eqb_eq in Hx. subst x. split.
    + tauto.
    + intros Hnd. split; [|exact Hnd]. intros y _. rewrite !orb_true_iff. left; right. reflexivity.
Qed.

Lemma filter_len_le {A} (f : A -> bool) l : (length (filter f l) <= length l)%nat.
Proof. induction l as [|x l IH]; simpl; [lia|]. destruct (f x); simpl; lia. Qed.

Lemma short_act row : (length row <= 1)%nat -> (length (act row) <= 1)%nat.
Proof.
  intros H. unfold act. pose proof (filter_len_le is_act row). lia.
Qed.

Lemma short_cases {A} (l : list A) : (length l <= 1)%nat -> l = [] \/ exists x, l = [x].
Proof. destruct l as [|x [|y t]]; simpl; intros; [auto|right; eauto|lia]. Qed.

(* ---------- get_valid_idx_combinations, row by row ---------- *)

Theorem valid_row_linked p row :
  valid_row Linked p row = true <-> (forall x y, In x (act row) -> In y (act row) -> x = y).
Proof.
  unfold valid_row. destruct (Nat.leb_spec (length row) 1) as [Hs|Hs].
  - split; [|reflexivity]. intros _ x y Hx Hy.
    destruct (short_cases _ (short_act _ Hs)) as [E|[z E]]; rewrite E in *; simpl in *; intuition congruence.
  - apply all_eq_first_spec.
Qed.

Theorem valid_row_permutation p row : valid_row Permutation p row = true <-> NoDup (act row).
Proof.
  unfold valid_row. destruct (Nat.leb_spec (length row) 1) as [Hs|Hs].
  - split; [|reflexivity]. intros _.
    destruct (short_cases _ (short_act _ Hs)) as [E|[z E]]; rewrite E; repeat constructor; simpl; tauto.
  - apply pairs_ne_nodup.
Qed.

Lemma short_sorted (P : Z -> Z -> Prop) l : (length l <= 1)%nat -> StronglySorted P l.
Proof. intros H. destruct (short_cases _ H) as [->|[z ->]]; repeat constructor. Qed.

Theorem valid_row_unordered p row : valid_row Unordered p row = true <-> StronglySorted Z.le (act row).
Proof.
  unfold valid_row. destruct (Nat.leb_spec (length row) 1) as [Hs|Hs].
  - split; [|reflexivity]. intros _. apply short_sorted, short_act, Hs.
  - apply adjb_le.
Qed.

Theorem valid_row_norepl row :
  valid_row UnorderedNorepl false row = true <-> StronglySorted Z.lt (act row).
Proof.
  unfold valid_row. destruct (Nat.leb_spec (length row) 1) as [Hs|Hs].
  - split; [|reflexivity]. intros _. apply short_sorted, short_act, Hs.
  - apply adjb_lt.
Qed.

(* with is_all_permanent the option lists were pre-pruned (pre_removed) and indices are relative:
   the code then checks non-decreasing *relative* indices *)
Theorem valid_row_norepl_perm row :
  valid_row UnorderedNorepl true row = true <-> StronglySorted Z.le (act row).
Proof.
  unfold valid_row. destruct (Nat.leb_spec (length row) 1) as [Hs|Hs].
  - split; [|reflexivity]. intros _. apply short_sorted, short_act, Hs.
  - apply adjb_le.
Qed.

(* inactive entries do not constrain: validity depends on the active entries only *)
Theorem valid_row_inactive_ignored t p row row' :
  act row = act row' -> (1 < length row)%nat -> (1 < length row')%nat ->
  valid_row t p row = valid_row t p row'.
Proof.
  intros E H1 H2. unfold valid_row.
  destruct (Nat.leb_spec (length row) 1); [lia|]. destruct (Nat.leb_spec (length row') 1); [lia|].
  destruct t; rewrite ?E; try reflexivity.
  apply eq_true_iff_eq. rewrite !pairs_ne_nodup, E. tauto.
Qed.

(* idx_okb on a fully active vector = valid_row without permanence *)
Lemma act_all v : Forall (fun x => x <> -1) v -> act v = v.
Proof.
  induction 1 as [|x l Hx _ IH]; [reflexivity|]. unfold act in *. simpl.
  destruct (is_act x) eqn:E; [rewrite IH; reflexivity|].
  apply is_act_true in Hx. congruence.
Qed.

Theorem idx_okb_spec t v : Forall (fun x => 0 <= x) v ->
  idx_okb t v = true <->
  match t with
  | Linked => forall x y, In x v -> In y v -> x = y
  | Permutation => NoDup v
  | Unordered => StronglySorted Z.le v
  | UnorderedNorepl => StronglySorted Z.lt v
  end.
Proof.
  intros Hv. assert (Ha : act v = v).
  { apply act_all. eapply Forall_impl; [|exact Hv]. simpl; intros; lia. }
  destruct t; simpl.
  - apply all_eq_first_spec.
  - rewrite pairs_ne_nodup, Ha. tauto.
  - apply adjb_le.
  - apply adjb_lt.
Qed.

(* ---------- option removal is consistent with the index rule, in every order ---------- *)
Close Scope Z_scope.

Definition rel (t : ctype) (x y : nat) : Prop :=
  match t with Linked => x = y | Permutation => x <> y | Unordered => x <= y | UnorderedNorepl => x < y end.

(* relation demanded between choice a (index va) and choice b (index vb), whatever their positions *)
Definition pair_rel (t : ctype) (a b va vb : nat) : Prop :=
  if a <? b then rel t va vb else rel t vb va.

Definition pairwise (t : ctype) (v : list nat) : Prop :=
  forall a b, a < b -> b < length v -> rel t (nth a v 0) (nth b v 0).

Lemma ss_nth (P : nat -> nat -> Prop) l :
  StronglySorted P l <-> (forall i j, i < j -> j < length l -> P (nth i l 0) (nth j l 0)).
Proof.
  induction l as [|x l IH]; simpl.
  - split; [intros _ i j _ Hj; lia|constructor].
  - split.
    + intros Hs i j Hij Hj. inversion Hs as [|? ? Hs' Hall]; subst.
      destruct j as [|j]; [lia|]. destruct i as [|i].
      * rewrite Forall_forall in Hall. apply Hall, nth_In. lia.
      * apply IH; [exact Hs'|lia|lia].
    + intros H. constructor.
      * apply IH. intros i j Hij Hj. apply (H (S i) (S j)); lia.
      * apply Forall_forall. intros y Hy. destruct (In_nth _ _ 0 Hy) as [j [Hj <-]].
        apply (H 0 (S j)); lia.
Qed.

Lemma in_range_filter (f : nat -> bool) n j : In j (filter f (range n)) <-> j < n /\ f j = true.
Proof. unfold range. rewrite filter_In, in_seq. intuition lia. Qed.

(* what taking choice a at position va removes from choice b, for positions inside both lists *)
Lemma removed_pos_spec t n_b a b va vb :
  a <> b -> vb < n_b -> va < n_b ->
  (In vb (removed_pos t n_b b a va) <-> ~ pair_rel t a b va vb).
Proof.
  intros Hab Hvb Hva. unfold removed_pos, pair_rel.
  assert (He : ((va <=? n_b - 1) && negb (n_b =? 0)) = true).
  { apply andb_true_iff; split; [apply Nat.leb_le; lia|apply negb_true_iff, Nat.eqb_neq; lia]. }
  rewrite He. destruct t; simpl.
  - rewrite in_range_filter, negb_true_iff, Nat.eqb_neq.
    destruct (a <? b); intuition lia.
  - destruct (a <? b); simpl; intuition lia.
  - destruct (Nat.ltb_spec b a); destruct (Nat.ltb_spec a b); try lia;
      rewrite in_range_filter, Nat.ltb_lt; intuition lia.
  - destruct (Nat.ltb_spec b a); destruct (Nat.ltb_spec a b); try lia;
      rewrite in_range_filter, Nat.leb_le; intuition lia.
Qed.

Lemma pair_rel_sym t a b va vb : a <> b -> (pair_rel t a b va vb <-> pair_rel t b a vb va).
Proof.
  intros Hab. unfold pair_rel.
  destruct (Nat.ltb_spec a b); destruct (Nat.ltb_spec b a); try lia; tauto.
Qed.

(* a resolution order: `before a b` is a strict total order on the choice positions *)
Definition total_order (n : nat) (before : nat -> nat -> Prop) : Prop :=
  forall a b, a < n -> b < n -> a <> b -> (before a b \/ before b a).

(* Main statement.  Choices 0..n-1 hold n_i options (ns), all active together, v is a complete index vector
   whose entries exist in every sibling's list (e.g. equal option counts).  Taking the choices one after the other in
   ANY total order, removing options from the not-yet-taken siblings after each, admits v  <->  v obeys the index rule. *)
Theorem removal_consistent t ns v before :
  length ns = length v -> total_order (length v) before ->
  (forall a b, a < length v -> b < length v -> nth a v 0 < nth b ns 0) ->
  ((forall a b, a < length v -> b < length v -> a <> b -> before a b ->
       ~ In (nth b v 0) (removed_pos t (nth b ns 0) b a (nth a v 0)))
   <-> pairwise t v).
Proof.
  intros Hlen Htot Hin. split.
  - intros H a b Hab Hb.
    assert (Ha : a < length v) by lia. assert (Hne : a <> b) by lia.
    destruct (Htot a b Ha Hb Hne) as [Hbef|Hbef].
    + specialize (H a b Ha Hb Hne Hbef).
      rewrite removed_pos_spec in H by (auto; apply Hin; lia).
      unfold pair_rel in H. destruct (Nat.ltb_spec a b); [|lia].
      destruct t; simpl in *; lia.
    + assert (Hne' : b <> a) by lia. specialize (H b a Hb Ha Hne' Hbef).
      rewrite removed_pos_spec in H by (auto; apply Hin; lia).
      unfold pair_rel in H. destruct (Nat.ltb_spec b a); [lia|].
      destruct t; simpl in *; lia.
  - intros Hp a b Ha Hb Hne _.
    rewrite removed_pos_spec by (auto; apply Hin; lia).
    intros Hn. apply Hn. unfold pair_rel. destruct (Nat.ltb_spec a b).
    + apply Hp; lia.
    + apply Hp; lia.
Qed.

(* pairwise = the boolean rule used inside Adm (Sel.v) *)
Lemma rel_ss t v : pairwise t v <-> StronglySorted (rel t) v.
Proof. unfold pairwise. rewrite ss_nth. tauto. Qed.

Lemma ss_map (P : nat -> nat -> Prop) (Q : Z -> Z -> Prop) v :
  (forall x y, P x y <-> Q (Z.of_nat x) (Z.of_nat y)) ->
  StronglySorted P v <-> StronglySorted Q (map Z.of_nat v).
Proof.
  intros HPQ. induction v as [|x v IH]; simpl; [split; constructor|]. split.
  - intros Hs. inversion Hs as [|? ? Hs' Hall]; subst. constructor; [apply IH, Hs'|].
    rewrite Forall_forall in Hall. apply Forall_forall. intros z Hz. apply in_map_iff in Hz.
    destruct Hz as [y [<- Hy]]. apply HPQ, Hall, Hy.
  - intros Hs. inversion Hs as [|? ? Hs' Hall]; subst. constructor; [apply IH, Hs'|].
    rewrite Forall_forall in Hall. apply Forall_forall. intros y Hy. apply HPQ, Hall, in_map, Hy.
Qed.

Lemma ss_eq_alleq (l : list Z) : StronglySorted eq l <-> (forall x y, In x l -> In y l -> x = y).
Proof.
  induction l as [|h l IH]; [split; [intros _ ? ? []|constructor]|]. split.
  - intros Hs. inversion Hs as [|? ? Hs' Hall]; subst. rewrite Forall_forall in Hall.
    intros x y [->|Hx] [->|Hy]; auto.
    + symmetry; auto.
    + rewrite <- (Hall x Hx), <- (Hall y Hy). reflexivity.
  - intros H. constructor.
    + apply IH. intros; apply H; right; assumption.
    + apply Forall_forall. intros y Hy. apply H; [left|right]; auto.
Qed.

Lemma ss_neq_nodup (l : list Z) : StronglySorted (fun x y => x <> y) l <-> NoDup l.
Proof.
  induction l as [|h l IH]; [split; constructor|]. split.
  - intros Hs. inversion Hs as [|? ? Hs' Hall]; subst. constructor; [|apply IH, Hs'].
    rewrite Forall_forall in Hall. intros Hin. apply (Hall h Hin). reflexivity.
  - intros Hn. inversion Hn as [|? ? Hnin Hn']; subst. constructor; [apply IH, Hn'|].
    apply Forall_forall. intros y Hy ->. contradiction.
Qed.

Theorem idx_okb_pairwise t v : idx_okb t (map Z.of_nat v) = true <-> pairwise t v.
Proof.
  rewrite idx_okb_spec by (apply Forall_map, Forall_forall; intros; lia).
  rewrite rel_ss. destruct t; simpl.
  - rewrite <- ss_eq_alleq. symmetry. apply ss_map. intros; unfold rel; lia.
  - rewrite <- ss_neq_nodup. symmetry. apply ss_map. intros; unfold rel; lia.
  - symmetry. apply ss_map. intros; unfold rel; lia.
  - symmetry. apply ss_map. intros; unfold rel; lia.
Qed.

(* ---------- pre-removal only removes what no valid combination uses ---------- *)

Lemma sorted_lt_lower v : StronglySorted lt v -> forall i, i < length v -> i <= nth i v 0.
Proof.
  intros Hs. rewrite ss_nth in Hs. induction i as [|i IH]; intros Hi; [lia|].
  specialize (Hs i (S i) (Nat.lt_succ_diag_r i) Hi). specialize (IH ltac:(lia)). lia.
Qed.

Lemma sorted_lt_upper v : StronglySorted lt v ->
  forall k i, i + k + 1 = length v -> nth i v 0 + k <= nth (length v - 1) v 0.
Proof.
  intros Hs. rewrite ss_nth in Hs. induction k as [|k IH]; intros i Hi.
  - replace (length v - 1) with i by lia. lia.
  - specialize (IH (S i) ltac:(lia)). specialize (Hs i (S i) ltac:(lia) ltac:(lia)). lia.
Qed.

(* UNORDERED_NOREPL with all choices permanent: option j of choice i is pre-removed only if no strictly increasing
   complete vector (each entry below its option count) has v_i = j *)
Theorem pre_removed_norepl_sound ns v i j :
  length ns = length v -> pairwise UnorderedNorepl v ->
  (forall a, a < length v -> nth a v 0 < nth a ns 0) ->
  (forall a b, a < length v -> b < length v -> nth a ns 0 = nth b ns 0) ->
  i < length v -> In (i, j) (flat_map (fun p => map (pair (fst p)) (snd p)) (pre_removed UnorderedNorepl ns true)) ->
  nth i v 0 <> j.
Proof.
  intros Hlen Hp Hrange Heqn Hi Hin Hv.
  apply rel_ss in Hp. simpl in Hp.
  apply in_flat_map in Hin. destruct Hin as [[i' l] [Hin1 Hin2]]. simpl in Hin2.
  apply in_map_iff in Hin2. destruct Hin2 as [j' [E Hj]]. inversion E; subst i' j'. clear E.
  unfold pre_removed in Hin1. apply in_map_iff in Hin1. destruct Hin1 as [[i2 n_i] [E Hen]].
  simpl in E. inversion E; subst i2. clear E.
  assert (Hni : n_i = nth i ns 0).
  { clear -Hen. unfold enumerate in Hen.
    assert (G : forall k l, In (i, n_i) (enumerate_from k l) -> k <= i /\ n_i = nth (i - k) l 0).
    { intros k l; revert k; induction l as [|x l IH]; simpl; intros k H; [tauto|].
      destruct H as [H|H].
      - inversion H; subst. rewrite Nat.sub_diag. split; [lia|reflexivity].
      - apply IH in H. destruct H as [H1 H2]. split; [lia|].
        replace (i - k) with (S (i - S k)) by lia. exact H2. }
    apply G in Hen. rewrite Nat.sub_0_r in Hen. tauto. }
  subst l. apply in_range_filter in Hj. destruct Hj as [Hjn Hj].
  apply orb_true_iff in Hj. destruct Hj as [Hj|Hj].
  - apply Nat.ltb_lt in Hj. pose proof (sorted_lt_lower v Hp i Hi). lia.
  - apply Z.leb_le in Hj.
    pose proof (sorted_lt_upper v Hp (length v - (i + 1)) i ltac:(lia)) as Hu.
    pose proof (Hrange (length v - 1) ltac:(lia)) as Hl.
    rewrite (Heqn (length v - 1) i) in Hl by lia. lia.
Qed.

(* PERMUTATION with more choices than options: no valid complete vector exists at all *)
Theorem pre_removed_permutation_sound ns v :
  length ns = length v -> pairwise Permutation v ->
  (forall a, a < length v -> nth a v 0 < fold_right Nat.max 0 ns) ->
  length v <= fold_right Nat.max 0 ns.
Proof.
  intros Hlen Hp Hr. set (m := fold_right Nat.max 0 ns) in *.
  assert (Hnd : NoDup v).
  { apply rel_ss in Hp. simpl in Hp. clear -Hp. induction Hp as [|x l Hs IH Hall]; constructor; auto.
    rewrite Forall_forall in Hall. intros Hin. apply (Hall x Hin). reflexivity. }
  assert (Hincl : incl v (seq 0 m)).
  { intros x Hx. destruct (In_nth _ _ 0 Hx) as [a [Ha <-]]. apply in_seq. specialize (Hr a Ha). lia. }
  pose proof (NoDup_incl_length Hnd Hincl) as H. rewrite seq_length in H. exact H.
Qed.
