From DSG Require Import Base Timeout.

Definition returned (s : state) : Prop := exists o, fst s = MReturned o.

Lemma step_returned p o w e : step p (MReturned o, w) e = (MReturned o, w).
Proof. reflexivity. Qed.

Lemma run_returned_stays p sched : forall o w, fold_left (step p) sched (MReturned o, w) = (MReturned o, w).
Proof. induction sched as [|e t IH]; intros o w; simpl; [reflexivity|apply IH]. Qed.

(* invariant: once returned, the worker is finished or dead (nothing is running any more) *)
Definition quiet (s : state) : Prop :=
  match s with (MReturned _, WRunning _ _) => False | _ => True end.

Lemma step_quiet p s e : quiet s -> quiet (step p s e).
Proof.
  destruct s as [m w]. destruct m as [| |o]; destruct w as [k inj| |]; try destruct inj; destruct e; simpl; intros H;
    try exact I; try exact H;
    repeat (match goal with |- context [if ?b then _ else _] => destruct b end); simpl; exact I.
Qed.

Lemma fold_quiet p : forall sched s, quiet s -> quiet (fold_left (step p) sched s).
Proof. induction sched as [|e t IH]; intros s Hs; simpl; [exact Hs|apply IH, step_quiet, Hs]. Qed.

Theorem nothing_running p sched o w : run p sched = (MReturned o, w) -> w = WDone \/ w = WDead.
Proof.
  intros H. assert (Hq : quiet (run p sched)) by (apply fold_quiet; exact I).
  rewrite H in Hq. destruct w; simpl in Hq; [contradiction|left; reflexivity|right; reflexivity].
Qed.

(* after the expiry only TimeoutError can be returned *)
Lemma joining_timeout p : forall t k inj o w,
  fold_left (step p) t (MJoining, WRunning k inj) = (MReturned o, w) -> o = OTimeout.
Proof.
  induction t as [|e t IH]; intros k inj o w H; simpl in H; [discriminate|].
  destruct inj; destruct e; simpl in H.
  - destruct (p_swallow p).
    + destruct (p_dur p <=? k + 1); [rewrite run_returned_stays in H; inversion H; reflexivity|eapply IH; eauto].
    + rewrite run_returned_stays in H. inversion H; reflexivity.
  - eapply IH; eauto.
  - destruct (p_dur p <=? k + 1); [rewrite run_returned_stays in H; inversion H; reflexivity|eapply IH; eauto].
  - eapply IH; eauto.
Qed.

(* the outcome: the function's own result (value or exception) iff it completed before the expiry, else TimeoutError *)
Lemma run_waiting p : forall sched k inj o w,
  k < p_dur p ->
  fold_left (step p) sched (MWaiting, WRunning k inj) = (MReturned o, w) ->
  (o = p_res p /\ p_dur p <= k + ticks_before_expire sched) \/
  (o = OTimeout /\ has_expire sched = true /\ k + ticks_before_expire sched < p_dur p).
Proof.
  induction sched as [|e t IH]; intros k inj o w Hk H; simpl in H; [discriminate|].
  destruct e; simpl.
  - destruct (Nat.leb_spec (p_dur p) (k + 1)) as [Hd|Hd].
    + rewrite run_returned_stays in H. inversion H; subst. left. split; [reflexivity|lia].
    + destruct (IH (k + 1) false o w ltac:(lia) H) as [[E Hle]|[E [Hx Hlt]]]; [left|right]; repeat split; auto; lia.
  - right. split; [eapply joining_timeout; eauto|]. split; [reflexivity|lia].
Qed.

Theorem outcome_spec p sched o w : 1 <= p_dur p -> run p sched = (MReturned o, w) ->
  (o = p_res p /\ p_dur p <= ticks_before_expire sched) \/
  (o = OTimeout /\ has_expire sched = true /\ ticks_before_expire sched < p_dur p).
Proof. intros Hd H. apply (run_waiting p sched 0 false o w ltac:(lia) H). Qed.

(* a later call starts from the initial state again: its behaviour does not depend on the earlier call *)
Theorem later_call_independent (p1 p2 : prog) (sched1 sched2 : list ev) : run p2 sched2 = fold_left (step p2) sched2 init.
Proof. reflexivity. Qed.

(* outcomes the timing allows *)
Theorem allowed_sound p sched o w dur limit tol :
  1 <= p_dur p -> run p sched = (MReturned o, w) ->
  p_res p <> OTimeout ->
  (* the schedule is consistent with the measured timing: a worker of duration dur runs at least limit-tol and at most
     limit+tol ticks... before the expiry *)
  (dur + tol < limit -> p_dur p <= ticks_before_expire sched) ->
  (limit + tol < dur -> ticks_before_expire sched < p_dur p) ->
  In o (allowed p dur limit tol).
Proof.
  intros Hd H Hne H1 H2. unfold allowed.
  destruct (outcome_spec p sched o w Hd H) as [[-> Hle]|[-> [Hx Hlt]]].
  - destruct (Nat.ltb_spec (dur + tol) limit); [left; reflexivity|].
    destruct (Nat.ltb_spec (limit + tol) dur) as [Hl|Hl]; [specialize (H2 Hl); lia|left; reflexivity].
  - destruct (Nat.ltb_spec (dur + tol) limit) as [Hl|Hl]; [specialize (H1 Hl); lia|].
    destruct (Nat.ltb_spec (limit + tol) dur); [left; reflexivity|right; left; reflexivity].
Qed.

(* ---------- nested limits ---------- *)
Definition nquiet (s : nstate) : Prop :=
  match s with (OReturned _, _, WRunning _ _) => False | _ => True end.

Lemma nstep_quiet p s e : nquiet s -> nquiet (nstep true p s e).
Proof.
  destruct s as [[o m] w]. intros H.
  destruct o as [| |r]; [| |exact H];
    destruct m as [pend|pend rr| |]; destruct w as [k inj| |]; try exact I; try destruct inj; try exact I;
    destruct e; simpl;
    repeat (match goal with |- context [if ?b then _ else _] => destruct b end); simpl; exact I.
Qed.

Lemma nfold_quiet p : forall sched s, nquiet s -> nquiet (fold_left (nstep true p) sched s).
Proof. induction sched as [|e t IH]; intros s Hs; simpl; [exact Hs|apply IH, nstep_quiet, Hs]. Qed.

Theorem nested_nothing_running p sched o m w : nrun true p sched = (OReturned o, m, w) -> w = WDone \/ w = WDead.
Proof.
  intros H. assert (Hq : nquiet (nrun true p sched)) by (apply nfold_quiet; exact I).
  rewrite H in Hq. destruct w; simpl in Hq; [contradiction|left; reflexivity|right; reflexivity].
Qed.

(* the middle thread has ended as well *)
Definition mquiet (s : nstate) : Prop :=
  match s with (OReturned _, MidWaiting _, _) | (OReturned _, MidJoining _ _, _) => False | _ => True end.
Lemma nstep_mquiet fx p s e : mquiet s -> mquiet (nstep fx p s e).
Proof.
  destruct s as [[o m] w]. intros H.
  destruct o as [| |r]; [| |exact H];
    destruct m as [pend|pend rr| |]; destruct w as [k inj| |]; try exact I; try destruct inj; try exact I;
    destruct e; simpl;
    repeat (match goal with |- context [if ?b then _ else _] => destruct b end); simpl; exact I.
Qed.
Lemma nfold_mquiet fx p : forall sched s, mquiet s -> mquiet (fold_left (nstep fx p) sched s).
Proof. induction sched as [|e t IH]; intros s Hs; simpl; [exact Hs|apply IH, nstep_mquiet, Hs]. Qed.
Theorem nested_middle_ended fx p sched o m w : nrun fx p sched = (OReturned o, m, w) -> m = MidDone \/ m = MidDead.
Proof.
  intros H. assert (Hq : mquiet (nrun fx p sched)) by (apply nfold_mquiet; exact I).
  rewrite H in Hq. destruct m; simpl in Hq; try contradiction; [left|right]; reflexivity.
Qed.

(* the caller gets the function's result or TimeoutError, nothing else *)
Definition nout_ok (p : prog) (s : nstate) : Prop :=
  match s with (OReturned o, _, _) => o = p_res p \/ o = OTimeout | _ => True end.
Lemma nstep_out fx p s e : nout_ok p s -> nout_ok p (nstep fx p s e).
Proof.
  destruct s as [[o m] w]. intros H.
  destruct o as [| |r]; [| |exact H];
    destruct m as [pend|pend rr| |]; destruct w as [k inj| |]; try exact I; try destruct inj; try exact I;
    destruct e; simpl;
    repeat (match goal with |- context [if ?b then _ else _] => destruct b end); simpl;
    try exact I; try (left; reflexivity); try (right; reflexivity).
Qed.
Lemma nfold_out fx p : forall sched s, nout_ok p s -> nout_ok p (fold_left (nstep fx p) sched s).
Proof. induction sched as [|e t IH]; intros s Hs; simpl; [exact Hs|apply IH, nstep_out, Hs]. Qed.
Theorem nested_outcome fx p sched o m w : nrun fx p sched = (OReturned o, m, w) -> o = p_res p \/ o = OTimeout.
Proof.
  intros H. assert (Hq : nout_ok p (nrun fx p sched)) by (apply nfold_out; exact I).
  rewrite H in Hq. exact Hq.
Qed.

(* a returned nested call is final *)
Lemma nrun_returned_stays fx p sched : forall o m w, fold_left (nstep fx p) sched (OReturned o, m, w) = (OReturned o, m, w).
Proof. induction sched as [|e t IH]; intros o m w; simpl; [reflexivity|apply IH]. Qed.

(* as found: the outer limit expires first, then the inner wait; the caller has TimeoutError, the function still runs *)
Theorem nested_leak_refuted :
  exists p sched o m k inj, nrun false p sched = (OReturned o, m, WRunning k inj).
Proof.
  exists {| p_dur := 5; p_res := OValue 7; p_swallow := false |}, [NTick; NExpireO; NTick; NExpireI], OTimeout, MidDead, 2, false.
  vm_compute. reflexivity.
Qed.

(* the bounded exploration used by the driver is sound for the leak question: it only lists reachable states *)
Lemma nreach_reachable fx p : forall n s s', In s' (nreach fx p n s) -> exists sched, length sched = n /\ fold_left (nstep fx p) sched s = s'.
Proof.
  induction n as [|n IH]; intros s s' H; simpl in H.
  - destruct H as [<-|[]]. exists []. split; reflexivity.
  - rewrite !in_app_iff in H. destruct H as [H|[H|[H|H]]]; try (simpl in H; contradiction);
      [destruct (IH _ _ H) as (t & Hl & Ht); exists (NTick :: t)|
       destruct (IH _ _ H) as (t & Hl & Ht); exists (NExpireI :: t)|
       destruct (IH _ _ H) as (t & Hl & Ht); exists (NExpireO :: t)]; (split; [simpl; lia|simpl; exact Ht]).
Qed.
