From DSG Require Import Base Timeout.

Definition returned (s : state) : Prop := exists o, fst s = MReturned o.

Lemma step_returned p o w e : step p (MReturned o, w) e = (MReturned o, w).
Proof. reflexivity. Qed.

Lemma run_returned_stays p sched : forall o w, fold_left (step p) sched (MReturned o, w) = (MReturned o, w).
Proof. induction sched as [|e t IH]; intros o w; simpl; [reflexivity|apply IH]. Qed.

(* invariant: once returned, the worker is finished or dead (nothing is running any more) *)
Definition quiet (s : state) : Prop :=
  match s with (MReturned _, WRunning _ _) => False | _ => True end.

Lemma step_quiet p s e : quiet s -> quiet (step p s e).
Proof.
  destruct s as [m w]. destruct m as [| |o]; destruct w as [k inj| |]; try destruct inj; destruct e; simpl; intros H;
    try exact I; try exact H;
    repeat (match goal with |- context [if ?b then _ else _] => destruct b end); simpl; exact I.
Qed.

Lemma fold_quiet p : forall sched s, quiet s -> quiet (fold_left (step p) sched s).
Proof. induction sched as [|e t IH]; intros s Hs; simpl; [exact Hs|apply IH, step_quiet, Hs]. Qed.

Theorem nothing_running p sched o w : run p sched = (MReturned o, w) -> w = WDone \/ w = WDead.
Proof.
  intros H. assert (Hq : quiet (run p sched)) by (apply fold_quiet; exact I).
  rewrite H in Hq. destruct w; simpl in Hq; [contradiction|left; reflexivity|right; reflexivity].
Qed.

(* after the expiry only TimeoutError can be returned *)
Lemma joining_timeout p : forall t k inj o w,
  fold_left (step p) t (MJoining, WRunning k inj) = (MReturned o, w) -> o = OTimeout.
Proof.
  induction t as [|e t IH]; intros k inj o w H; simpl in H; [discriminate|].
  destruct inj; destruct e; simpl in H.
  - destruct (p_swallow p).
    + destruct (p_dur p <=? k + 1); [rewrite run_returned_stays in H; inversion H; reflexivity|eapply IH; eauto].
    + rewrite run_returned_stays in H. inversion H; reflexivity.
  - eapply IH; eauto.
  - destruct (p_dur p <=? k + 1); [rewrite run_returned_stays in H; inversion H; reflexivity|eapply IH; eauto].
  - eapply IH; eauto.
Qed.

(* the outcome: the function's own result (value or exception) iff it completed before the expiry, else TimeoutError *)
Lemma run_waiting p : forall sched k inj o w,
  k < p_dur p ->
  fold_left (step p) sched (MWaiting, WRunning k inj) = (MReturned o, w) ->
  (o = p_res p /\ p_dur p <= k + ticks_before_expire sched) \/
  (o = OTimeout /\ has_expire sched = true /\ k + ticks_before_expire sched < p_dur p).
Proof.
  induction sched as [|e t IH]; intros k inj o w Hk H; simpl in H; [discriminate|].
  destruct e; simpl.
  - destruct (Nat.leb_spec (p_dur p) (k + 1)) as [Hd|Hd].
    + rewrite run_returned_stays in H. inversion H; subst. left. split; [reflexivity|lia].
    + destruct (IH (k + 1) false o w ltac:(lia) H) as [[E Hle]|[E [Hx Hlt]]]; [left|right]; repeat split; auto; lia.
  - right. split; [eapply joining_timeout; eauto|]. split; [reflexivity|lia].
Qed.

Theorem outcome_spec p sched o w : 1 <= p_dur p -> run p sched = (MReturned o, w) ->
  (o = p_res p /\ p_dur p <= ticks_before_expire sched) \/
  (o = OTimeout /\ has_expire sched = true /\ ticks_before_expire sched < p_dur p).
Proof. intros Hd H. apply (run_waiting p sched 0 false o w ltac:(lia) H). Qed.

(* a later call starts from the initial state again: its behaviour does not depend on the earlier call *)
Theorem later_call_independent (p1 p2 : prog) (sched1 sched2 : list ev) : run p2 sched2 = fold_left (step p2) sched2 init.
Proof. reflexivity. Qed.

(* outcomes the timing allows *)
Theorem allowed_sound p sched o w dur limit tol :
  1 <= p_dur p -> run p sched = (MReturned o, w) ->
  p_res p <> OTimeout ->
  (* the schedule is consistent with the measured timing: a worker of duration dur runs at least limit-tol and at most
     limit+tol ticks... before the expiry *)
  (dur + tol < limit -> p_dur p <= ticks_before_expire sched) ->
  (limit + tol < dur -> ticks_before_expire sched < p_dur p) ->
  In o (allowed p dur limit tol).
Proof.
  intros Hd H Hne H1 H2. unfold allowed.
  destruct (outcome_spec p sched o w Hd H) as [[-> Hle]|[-> [Hx Hlt]]].
  - destruct (Nat.ltb_spec (dur + tol) limit); [left; reflexivity|].
    destruct (Nat.ltb_spec (limit + tol) dur) as [Hl|Hl]; [specialize (H2 Hl); lia|left; reflexivity].
  - destruct (Nat.ltb_spec (dur + tol) limit) as [Hl|Hl]; [specialize (H1 Hl); lia|].
    destruct (Nat.ltb_spec (limit + tol) dur); [left; reflexivity|right; left; reflexivity].
Qed.
