(* RowsP.v — "one each": under a faithful encoding (enc_ok) the enumerated rows are pairwise distinct. *)
From DSG Require Import Base Constraint Dsg Sel SelP DesVar Problem ProblemP MatrixP.
Local Open Scope nat_scope.

(* the selection entries of a row *)
Fixpoint sel_proj (E : encoding) (r : list Z) : list Z :=
  match E, r with
  | VSel _ _ :: E', e :: r' => e :: sel_proj E' r'
  | VDv _ _ :: E', _ :: r' => sel_proj E' r'
  | _, _ => []
  end.

Lemma sel_proj_rows_for E s J : forall r, In r (rows_for E s J) -> sel_proj E r = sel_vec E s.
Proof.
  unfold rows_for, sel_vec. induction E as [|v E IH]; simpl; intros r Hr.
  - destruct Hr as [<-|[]]. reflexivity.
  - apply in_flat_map in Hr. destruct Hr as [e [He Hr]]. apply in_map_iff in Hr. destruct Hr as [r' [<- Hr']].
    destruct v as [c opts|n d]; simpl in *.
    + destruct He as [<-|[]]. rewrite (IH r' Hr'). reflexivity.
    + apply IH, Hr'.
Qed.

Lemma NoDup_map_inj {A B} (f : A -> B) l : (forall x y, f x = f y -> x = y) -> NoDup l -> NoDup (map f l).
Proof.
  intros Hinj. induction 1 as [|x l Hx _ IH]; simpl; constructor; [|exact IH].
  intros H. apply in_map_iff in H. destruct H as [y [Hy Hin]]. apply Hinj in Hy. subst. contradiction.
Qed.

Lemma var_entries_NoDup s J v : NoDup (var_entries s J v).
Proof.
  destruct v as [c opts|n [k|lo hi]]; simpl.
  - constructor; [intros []|constructor].
  - destruct (memN n J); [|constructor; [intros []|constructor]].
    apply NoDup_map_inj; [intros x y H; apply Nat2Z.inj, H|apply seq_NoDup].
  - destruct (memN n J); constructor; try (intros []); constructor.
Qed.

Lemma rows_for_NoDup E s J : NoDup (rows_for E s J).
Proof.
  unfold rows_for. apply product_NoDup. apply Forall_forall. intros l Hl.
  apply in_map_iff in Hl. destruct Hl as [v [<- _]]. apply var_entries_NoDup.
Qed.

Lemma nodupZl_spec l : nodupZl l = true -> NoDup l.
Proof.
  induction l as [|x t IH]; simpl; intros H; [constructor|].
  apply andb_true_iff in H. destruct H as [Hx Ht]. constructor; [|apply IH, Ht].
  intros Hin. apply negb_true_iff in Hx.
  assert (E : existsb (fun y => if list_eq_dec Z.eq_dec x y then true else false) t = true).
  { apply existsb_exists. exists x. split; [exact Hin|]. destruct (list_eq_dec Z.eq_dec x x); [reflexivity|contradiction]. }
  rewrite E in Hx. discriminate.
Qed.

Lemma NoDup_app_dis {A} (a b : list A) : NoDup a -> NoDup b -> (forall x, In x a -> ~ In x b) -> NoDup (a ++ b).
Proof.
  induction a as [|x a IH]; intros Ha Hb Hd; simpl; [exact Hb|].
  inversion Ha; subst. constructor.
  - intros H. apply in_app_or in H. destruct H as [H|H]; [contradiction|]. apply (Hd x (or_introl eq_refl) H).
  - apply IH; [assumption|exact Hb|]. intros y Hy. apply Hd. right; exact Hy.
Qed.

Lemma blocks_NoDup g E : forall l rows,
  concat_opt (map (fun s => option_map (rows_for E s) (inst_nodes g s)) l) = Some rows ->
  NoDup (map (sel_vec E) l) ->
  NoDup rows /\ forall r, In r rows -> exists s, In s l /\ sel_proj E r = sel_vec E s.
Proof.
  induction l as [|x t IH]; simpl; intros rows H Hnd.
  - inversion H; subst. split; [constructor|intros r []].
  - destruct (inst_nodes g x) as [J|]; simpl in H; [|discriminate].
    destruct (concat_opt (map (fun s => option_map (rows_for E s) (inst_nodes g s)) t)) as [rest|] eqn:Er; [|discriminate].
    inversion H; subst rows. inversion Hnd as [|? ? Hx Ht]; subst.
    destruct (IH rest eq_refl Ht) as [Hr Hk]. split.
    + apply NoDup_app_dis; [apply rows_for_NoDup|exact Hr|].
      intros r Hin Hin'. destruct (Hk r Hin') as [s' [Hs' Hp]].
      rewrite (sel_proj_rows_for E x J r Hin) in Hp. apply Hx. rewrite Hp. apply in_map, Hs'.
    + intros r Hin. apply in_app_or in Hin. destruct Hin as [Hin|Hin].
      * exists x. split; [left; reflexivity|eapply sel_proj_rows_for; eauto].
      * destruct (Hk r Hin) as [s' [Hs' Hp]]. exists s'. split; [right; exact Hs'|exact Hp].
Qed.

(* one row per (architecture, value combination): no vector is listed twice *)
Theorem rows_of_NoDup g E rows : enc_ok g E = Some true -> rows_of g E = Some rows -> NoDup rows.
Proof.
  unfold enc_ok, rows_of. destruct (enum_adm g) as [l|]; [|discriminate]. intros Hok H.
  inversion Hok as [Hb]. apply andb_true_iff in Hb. destruct Hb as [Hn _].
  apply (blocks_NoDup g E l rows H). apply nodupZl_spec, Hn.
Qed.

