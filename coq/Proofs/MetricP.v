From DSG Require Import Base Dsg Sel SelP Metric.
From Coq Require Import QArith.
Open Scope N_scope.

Theorem classify_obj_only_if perm m : classify perm m = RObj -> m_dir m = true /\ perm = true /\ m_ty m <> Some TNone.
Proof.
  unfold classify. destruct (m_ty m) as [[| | |]|]; destruct (m_dir m), perm, (has_ref m); simpl; intros H;
    try discriminate; repeat split; congruence.
Qed.

Theorem classify_con_only_if perm m : classify perm m = RCon -> m_dir m = true /\ has_ref m = true /\ m_ty m <> Some TNone.
Proof.
  unfold classify. destruct (m_ty m) as [[| | |]|]; destruct (m_dir m), perm, (has_ref m); simpl; intros H;
    try discriminate; repeat split; congruence.
Qed.

Theorem classify_none_unused perm m : m_ty m = Some TNone -> classify perm m = RUnused.
Proof. unfold classify. intros ->. reflexivity. Qed.

(* when both roles are possible the declared role decides; undeclared (or declared "either") is rejected *)
Theorem classify_declared_decides perm m :
  m_dir m = true -> perm = true -> has_ref m = true ->
  classify perm m = match m_ty m with
                    | Some TNone => RUnused | Some TObj => RObj | Some TCon => RCon | _ => RAmbiguous end.
Proof. unfold classify. intros -> -> ->. destruct (m_ty m) as [[| | |]|]; reflexivity. Qed.

(* a metric without direction is never used *)
Theorem classify_no_dir_unused perm m : m_dir m = false -> classify perm m = RUnused.
Proof. unfold classify. intros ->. destruct (m_ty m) as [[| | |]|]; reflexivity. Qed.

(* "exists in every architecture" = permanent: permanent nodes are reached under every assignment *)
Theorem objective_in_every_architecture g ms rs n :
  classify_all g ms = Some rs -> In n (objectives rs) -> forall s, Reach g s n.
Proof.
  unfold classify_all. destruct (permanent g) as [P|] eqn:EP; [|discriminate]. intros H Hin s.
  inversion H; subst rs. clear H. unfold objectives in Hin. apply in_map_iff in Hin.
  destruct Hin as [[n' r] [E Hin]]. simpl in E; subst n'. apply filter_In in Hin. destruct Hin as [Hin Hr].
  simpl in Hr. destruct r; try discriminate.
  apply in_map_iff in Hin. destruct Hin as [m [E Hm]]. inversion E; subst.
  match goal with Hc : classify _ _ = RObj |- _ => apply classify_obj_only_if in Hc; destruct Hc as [_ [Hp _]] end.
  apply (permanent_everywhere g P EP). apply memN_In, Hp.
Qed.

Theorem in_every_arch_sound g n : in_every_arch g n = Some true -> forall s, Adm g s -> Reach g s n.
Proof.
  unfold in_every_arch. destruct (enum_adm g) as [l|] eqn:El; [|discriminate]. intros H s Hs.
  inversion H as [Hf]. rewrite forallb_forall in Hf.
  destruct (enum_adm_complete g l El s Hs) as [s' [Hin Hsame]].
  specialize (Hf s' Hin). destruct (inst_nodes g s') as [J|] eqn:EJ; [|discriminate].
  apply memN_In in Hf. apply (inst_nodes_spec g s' J EJ) in Hf. destruct Hf as [Hr _].
  pose proof (enum_adm_sound g l El s' Hin) as [Hnd' _]. destruct Hs as [Hnd _].
  apply (Reach_order_independent g s' s Hnd' Hnd Hsame). exact Hr.
Qed.

(* with sound flags, an objective exists in every admissible architecture *)
Theorem flagged_objective_everywhere g (ms : list (metric * bool)) n :
  (forall m f, In (m, f) ms -> f = true -> in_every_arch g (m_id m) = Some true) ->
  In n (objectives (classify_flags ms)) -> forall s, Adm g s -> Reach g s n.
Proof.
  intros Hflags Hin. unfold objectives, classify_flags in Hin. apply in_map_iff in Hin.
  destruct Hin as [[n' r] [E Hin]]. simpl in E; subst n'. apply filter_In in Hin. destruct Hin as [Hin Hr].
  simpl in Hr. destruct r; try discriminate.
  apply in_map_iff in Hin. destruct Hin as [[m f] [E Hm]]. simpl in E. inversion E; subst.
  match goal with Hc : classify _ _ = RObj |- _ => apply classify_obj_only_if in Hc; destruct Hc as [_ [Hp _]] end.
  apply in_every_arch_sound. apply (Hflags m f Hm Hp).
Qed.

(* one value per objective and per constraint, in the order of the classification *)
Theorem evaluate_shape ms rs inst vals :
  let '(o, c, _) := evaluate ms rs inst vals in
  length o = length (objectives rs) /\ length c = length (constraints rs).
Proof. unfold evaluate. rewrite !map_length. auto. Qed.

Theorem evaluate_values ms rs inst vals :
  let '(o, c, mv) := evaluate ms rs inst vals in
  (forall i n, nth_error (objectives rs) i = Some n ->
     nth_error o i = Some (match lookupV vals n with Some v => v | None => VNaN end)) /\
  (forall i n, nth_error (constraints rs) i = Some n ->
     nth_error c i = Some (if memN n inst then match lookupV vals n with Some v => v | None => VNaN end
                           else ref_of ms n)).
Proof.
  unfold evaluate. split; intros i n H.
  - apply (map_nth_error (getv vals) i (objectives rs) H).
  - apply (map_nth_error (fun c => if memN c inst then getv vals c else ref_of ms c) i (constraints rs) H).
Qed.
