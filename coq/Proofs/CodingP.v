From DSG Require Import Base Matrix MatrixP Coding.

Lemma list_eqb_spec {A} (eqb : A -> A -> bool) (H : forall x y, eqb x y = true <-> x = y) :
  forall a b, list_eqb eqb a b = true <-> a = b.
Proof.
  induction a as [|x s IH]; destruct b as [|y t]; simpl; try (split; [discriminate|discriminate]); [tauto|].
  rewrite andb_true_iff, H, IH. split; [intros [-> ->]; reflexivity|intros E; inversion E; auto].
Qed.

Lemma vec_eqb_spec a b : vec_eqb a b = true <-> a = b.
Proof. apply list_eqb_spec. intros; apply Z.eqb_eq. Qed.
Lemma act_eqb_spec a b : act_eqb a b = true <-> a = b.
Proof. apply list_eqb_spec. intros x y; destruct x, y; simpl; split; congruence. Qed.
Lemma mat_eqb_spec a b : mat_eqb a b = true <-> a = b.
Proof. apply list_eqb_spec. intros; apply list_eqb_spec. intros; apply Nat.eqb_eq. Qed.

Lemma in_range_spec : forall nopts x act, in_range nopts x act = true ->
  length x = length nopts /\ length act = length nopts /\
  forall i n v a, nth_error nopts i = Some n -> nth_error x i = Some v -> nth_error act i = Some a ->
    (0 <= v < Z.of_nat n)%Z /\ (a = false -> v = 0%Z).
Proof.
  induction nopts as [|n ns IH]; intros [|v xs] [|a acts] H; simpl in H; try discriminate.
  - split; [reflexivity|]. split; [reflexivity|]. intros i n v a Hi. destruct i; discriminate.
  - rewrite !andb_true_iff in H. destruct H as [[[H1 H2] H3] H4]. destruct (IH _ _ H4) as [L1 [L2 Hn]].
    simpl. split; [congruence|]. split; [congruence|].
    intros i n' v' a' Hi Hv Ha. destruct i as [|i]; simpl in *.
    + inversion Hi; inversion Hv; inversion Ha; subst. split; [lia|].
      intros ->. simpl in H3. apply Z.eqb_eq, H3.
    + eapply Hn; eauto.
Qed.

Section Laws.
  Variables (s : settings) (e : existence) (nopts : list nat) (tbl : list obs).
  Hypothesis Hok : coding_ok s e nopts tbl = true.

  Let H1 : forallb (obs_ok s e nopts tbl) tbl = true.
  Proof. unfold coding_ok in Hok. rewrite !andb_true_iff in Hok. tauto. Qed.
  Let H2 : forallb (fun M => existsb (fun o => mat_eqb (o_mat o) M) tbl) (enum_M s e) = true.
  Proof. unfold coding_ok in Hok. rewrite !andb_true_iff in Hok. tauto. Qed.
  Let H3 : forallb (fun o1 => forallb (fun o2 => negb (vec_eqb (o_out o1) (o_out o2)) || mat_eqb (o_mat o1) (o_mat o2)) tbl) tbl = true.
  Proof. unfold coding_ok in Hok. rewrite !andb_true_iff in Hok. tauto. Qed.

  (* every decode returns a valid matrix of the pattern and a corrected vector within the declared ranges *)
  Theorem coding_valid o : In o tbl -> ValidM s e (o_mat o) /\ in_range nopts (o_out o) (o_act o) = true.
  Proof.
    intros Hin. rewrite forallb_forall in H1. specialize (H1 o Hin). unfold obs_ok in H1.
    rewrite !andb_true_iff in H1. destruct H1 as [[Hv Hr] _]. split; [apply validate_spec, Hv|exact Hr].
  Qed.

  (* decoding the corrected vector reproduces it (with the same activeness and matrix) *)
  Theorem coding_idempotent o : In o tbl ->
    exists o', In o' tbl /\ o_in o' = o_out o /\ o_out o' = o_out o /\ o_act o' = o_act o /\ o_mat o' = o_mat o.
  Proof.
    intros Hin. rewrite forallb_forall in H1. specialize (H1 o Hin). unfold obs_ok in H1.
    rewrite !andb_true_iff in H1. destruct H1 as [_ Hf].
    unfold find_in in Hf. destruct (find (fun o0 => vec_eqb (o_in o0) (o_out o)) tbl) as [o'|] eqn:Ef; [|discriminate].
    apply find_some in Ef. destruct Ef as [Hin' Hi]. rewrite !andb_true_iff in Hf. destruct Hf as [[Ha Hb] Hc].
    exists o'. split; [exact Hin'|]. split; [apply vec_eqb_spec, Hi|]. split; [apply vec_eqb_spec, Ha|].
    split; [apply act_eqb_spec, Hb|apply mat_eqb_spec, Hc].
  Qed.

  (* every valid matrix is the decode of some vector *)
  Theorem coding_onto M : ValidM s e M -> exists o, In o tbl /\ o_mat o = M.
  Proof.
    intros HM. apply enum_M_exact in HM. rewrite forallb_forall in H2. specialize (H2 M HM).
    apply existsb_exists in H2. destruct H2 as [o [Hin Hm]]. exists o. split; [exact Hin|apply mat_eqb_spec, Hm].
  Qed.

  (* equal corrected vectors mean equal matrices *)
  Theorem coding_injective o1 o2 : In o1 tbl -> In o2 tbl -> o_out o1 = o_out o2 -> o_mat o1 = o_mat o2.
  Proof.
    intros Hi1 Hi2 E. rewrite forallb_forall in H3. specialize (H3 o1 Hi1). rewrite forallb_forall in H3.
    specialize (H3 o2 Hi2). apply orb_true_iff in H3. destruct H3 as [Hn|Hm]; [|apply mat_eqb_spec, Hm].
    apply negb_true_iff in Hn. apply vec_eqb_spec in E. congruence.
  Qed.
  (* counting: any list holding all corrected vectors is at least as long as the number of valid connection matrices --
     the design space an encoder lists ("all design vectors") is never smaller than the set of connection sets *)
  Definition mat_of (x : list Z) : matrix :=
    match find (fun o => vec_eqb (o_out o) x) tbl with Some o => o_mat o | None => [] end.

  Theorem coding_count outs : (forall o, In o tbl -> In (o_out o) outs) -> length (enum_M s e) <= length outs.
  Proof.
    intros Hall. rewrite <- (map_length mat_of outs).
    apply NoDup_incl_length; [apply enum_M_NoDup|].
    intros M HM. apply enum_M_exact in HM. destruct (coding_onto M HM) as [o [Hin Hm]].
    apply in_map_iff. exists (o_out o). split; [|apply Hall, Hin].
    unfold mat_of. destruct (find (fun o0 => vec_eqb (o_out o0) (o_out o)) tbl) as [o'|] eqn:Ef.
    - apply find_some in Ef. destruct Ef as [Hin' Hv]. apply vec_eqb_spec in Hv.
      rewrite <- Hm. apply coding_injective; assumption.
    - exfalso. apply (find_none _ _ Ef) in Hin. assert (Ht : vec_eqb (o_out o) (o_out o) = true) by (apply vec_eqb_spec; reflexivity).
      congruence.
  Qed.
End Laws.

Theorem verdict_zero_iff s e nopts tbl : coding_verdict s e nopts tbl = 0 <-> coding_ok s e nopts tbl = true.
Proof.
  unfold coding_verdict, coding_ok.
  set (A := forallb (fun o => validate s e (o_mat o)) tbl).
  set (B := forallb (fun o => in_range nopts (o_out o) (o_act o)) tbl).
  set (C := forallb (obs_ok s e nopts tbl) tbl).
  set (D := forallb (fun M => existsb (fun o => mat_eqb (o_mat o) M) tbl) (enum_M s e)).
  set (E := forallb (fun o1 => forallb (fun o2 => negb (vec_eqb (o_out o1) (o_out o2)) || mat_eqb (o_mat o1) (o_mat o2)) tbl) tbl).
  assert (HCA : C = true -> A = true).
  { unfold C, A. rewrite !forallb_forall. intros H o Ho. specialize (H o Ho). unfold obs_ok in H.
    rewrite !andb_true_iff in H. tauto. }
  assert (HCB : C = true -> B = true).
  { unfold C, B. rewrite !forallb_forall. intros H o Ho. specialize (H o Ho). unfold obs_ok in H.
    rewrite !andb_true_iff in H. tauto. }
  destruct A, B, C, D, E; simpl; split; intros H; try reflexivity; try discriminate;
    try (specialize (HCA eq_refl); discriminate); try (specialize (HCB eq_refl); discriminate).
Qed.
