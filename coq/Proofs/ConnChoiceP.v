From DSG Require Import Base Dsg Matrix MatrixP ConnChoice.

(* the aggregated degree list of a grouping connector = exactly the sums of one allowed degree per (finite) member *)
Lemma sums_spec : forall ls d, In d (sums ls) <-> exists ds, Forall2 (fun x l => In x l) ds ls /\ d = sumn ds.
Proof.
  induction ls as [|l t IH]; simpl; intros d.
  - split.
    + intros [<-|[]]. exists []. split; [constructor|reflexivity].
    + intros [ds [H ->]]. inversion H. left; reflexivity.
  - rewrite in_flat_map. split.
    + intros [x [Hx Hd]]. apply in_map_iff in Hd. destruct Hd as [d' [<- Hd']]. apply IH in Hd'.
      destruct Hd' as [ds [Hf ->]]. exists (x :: ds). split; [constructor; assumption|reflexivity].
    + intros [ds [Hf ->]]. inversion Hf as [|x l' ds' t' Hx Hf']; subst. exists x. split; [exact Hx|].
      apply in_map_iff. exists (sumn ds'). split; [reflexivity|]. apply IH. exists ds'. auto.
Qed.

Lemma memn_In x l : memn x l = true <-> In x l.
Proof.
  unfold memn. rewrite existsb_exists. split.
  - intros [y [Hy E]]. apply Nat.eqb_eq in E. subst; assumption.
  - intros H. exists x. split; [assumption|apply Nat.eqb_refl].
Qed.

Lemma dedup_nat_In x l : In x (dedup_nat l) <-> In x l.
Proof.
  induction l as [|y t IH]; simpl; [tauto|]. destruct (memn y t) eqn:E.
  - rewrite IH. split; [auto|]. intros [->|H]; [apply memn_In, E|exact H].
  - simpl. rewrite IH. tauto.
Qed.

Theorem combined_finite_spec ms d :
  (forall m, In m ms -> c_list m <> None) ->
  (deg_ok (combined ms) d = true <->
   exists ds, Forall2 (fun x m => match c_list m with Some l => In x l | None => False end) ds ms /\ d = sumn ds).
Proof.
  intros Hfin. unfold combined.
  assert (E : existsb (fun m => match c_list m with None => true | Some _ => false end) ms = false).
  { apply not_true_is_false. intros H. apply existsb_exists in H. destruct H as [m [Hin Hm]].
    specialize (Hfin m Hin). destruct (c_list m); [discriminate|congruence]. }
  rewrite E. unfold deg_ok. simpl. rewrite memn_In, dedup_nat_In, sums_spec. split.
  - intros [ds [Hf ->]]. exists ds. split; [|reflexivity].
    clear -Hf Hfin. revert ds Hf. induction ms as [|m t IH]; intros ds Hf; inversion Hf; subst; constructor.
    + destruct (c_list m); [assumption|]. match goal with H : In _ [] |- _ => destruct H end.
    + apply IH; [intros m' Hm'; apply Hfin; right; exact Hm'|assumption].
  - intros [ds [Hf ->]]. exists ds. split; [|reflexivity].
    clear -Hf. revert ds Hf. induction ms as [|m t IH]; intros ds Hf; inversion Hf; subst; constructor.
    + destruct (c_list m); [assumption|contradiction].
    + apply IH; assumption.
Qed.

(* the offered connection sets are exactly the images of the valid matrices of the present connectors *)
Lemma fold_min_le : forall t x y, In y (x :: t) -> (fold_right Nat.min x t <= y)%nat.
Proof.
  induction t as [|a t IH]; intros x y Hy; simpl in *.
  - destruct Hy as [->|[]]. lia.
  - destruct Hy as [->|[->|Hy]].
    + specialize (IH y y (or_introl eq_refl)). lia.
    + lia.
    + specialize (IH x y (or_intror Hy)). lia.
Qed.

Lemma list_min_le l y : In y l -> (list_min l <= y)%nat.
Proof. destruct l as [|x t]; [intros []|]. unfold list_min. apply fold_min_le. Qed.

(* with or without open-ended members: a grouping connector accepts every sum of degrees its present members accept *)
Theorem combined_accepts_sums ms ds :
  Forall2 (fun x m => deg_ok m x = true) ds ms -> deg_ok (combined ms) (sumn ds) = true.
Proof.
  intros Hf. unfold combined.
  destruct (existsb (fun m => match c_list m with None => true | Some _ => false end) ms) eqn:E.
  - unfold deg_ok. simpl. apply Nat.leb_le. clear E.
    induction Hf as [|x m ds' ms' Hx Hf' IH]; simpl; [lia|].
    assert (Hm : (match c_list m with None => c_min m | Some l => list_min l end <= x)%nat).
    { unfold deg_ok in Hx. destruct (c_list m) as [l|].
      - apply list_min_le, memn_In, Hx.
      - apply Nat.leb_le, Hx. }
    lia.
  - unfold deg_ok. simpl. rewrite memn_In, dedup_nat_In, sums_spec. exists ds. split; [|reflexivity].
    induction Hf as [|x m ds' ms' Hx Hf' IH]; simpl; [constructor|].
    simpl in E. apply orb_false_iff in E. destruct E as [Em Et]. constructor; [|apply IH, Et].
    unfold deg_ok in Hx. destruct (c_list m) as [l|]; [apply memn_In, Hx|discriminate].
Qed.

Theorem conn_sets_exact specs I cc es :
  In es (conn_sets specs I cc) <->
  let '(s, sids, tids) := settings_for specs I cc in
  exists M, ValidM s (no_existence s) M /\ es = edges_of sids tids M.
Proof.
  unfold conn_sets. destruct (settings_for specs I cc) as [[s sids] tids]. rewrite in_map_iff. split.
  - intros [M [<- HM]]. exists M. split; [apply enum_M_exact, HM|reflexivity].
  - intros [M [HM ->]]. exists M. split; [reflexivity|apply enum_M_exact, HM].
Qed.

(* only present connectors take part: an absent connector is in no offered edge *)
Lemma present_tops I es n : In n (map top (present I es)) -> In n I.
Proof.
  intros H. apply in_map_iff in H. destruct H as [e [<- He]]. unfold present in He. apply filter_In in He.
  destruct He as [_ Hm]. unfold memN in Hm. apply existsb_exists in Hm. destruct Hm as [y [Hy E]].
  apply N.eqb_eq in E. subst. exact Hy.
Qed.

Theorem edges_valid_sound specs I cc es :
  edges_valid specs I cc es = true ->
  let '(s, sids, tids) := settings_for specs I cc in
  ValidM s (no_existence s) (matrix_of sids tids es) /\
  forall e, In e es -> In (fst e) I /\ In (snd e) I.
Proof.
  unfold edges_valid, settings_for.
  set (src := present I (cc_src cc)). set (tgt := present I (cc_tgt cc)).
  intros H. apply andb_true_iff in H. destruct H as [H1 H2]. split; [apply validate_spec, H2|].
  intros e He. rewrite forallb_forall in H1. specialize (H1 e He). apply andb_true_iff in H1. destruct H1 as [Ha Hb].
  unfold memN in Ha, Hb. apply existsb_exists in Ha, Hb. destruct Ha as [a [Ha Ea]], Hb as [b [Hb Eb]].
  apply N.eqb_eq in Ea, Eb. subst. split; eapply present_tops; eassumption.
Qed.
