From DSG Require Import Base Constraint Dsg Sel SelP Sup.
Open Scope N_scope.

Lemma sup_assign_lookup src_inst src_s : forall maps s c m,
  sup_assign src_inst src_s maps = Some s -> NoDup (map fst maps) -> In (c, m) maps ->
  exists o, resolve_one src_inst src_s m = Some o /\ lookup s c = Some o.
Proof.
  induction maps as [|[c0 m0] t IH]; simpl; intros s c m H Hnd Hin; [destruct Hin|].
  destruct (resolve_one src_inst src_s m0) as [o0|] eqn:E0; [|discriminate].
  destruct (sup_assign src_inst src_s t) as [rest|] eqn:Er; [|discriminate].
  inversion H; subst s. inversion Hnd as [|? ? Hnin Hnd']; subst.
  destruct Hin as [E|Hin].
  - inversion E; subst. exists o0. split; [exact E0|]. simpl. rewrite N.eqb_refl. reflexivity.
  - destruct (IH rest c m eq_refl Hnd' Hin) as [o [H1 H2]]. exists o. split; [exact H1|].
    simpl. destruct (N.eqb_spec c0 c) as [->|Hne]; [|exact H2].
    exfalso. apply Hnin. apply in_map_iff. exists (c, m). auto.
Qed.

Lemma nodupN_NoDup l : nodupN l = true -> NoDup l.
Proof.
  induction l as [|x t IH]; simpl; intros H; [constructor|].
  apply andb_true_iff in H. destruct H as [H1 H2]. constructor; [|apply IH, H2].
  apply negb_true_iff in H1. apply memN_false, H1.
Qed.

(* a successful resolution is final, is exactly the derivation closure of the mapped options, and every mapped choice that
   is reached has taken the option its mapping assigns to the source architecture *)
Theorem resolve_spec g maps src_inst src_s s I :
  resolve g maps src_inst src_s = Some (s, I) ->
  (forall n, In n I <-> (Reach g s n /\ is_choice g n = false)) /\
  (forall c, is_sel g c = true -> Reach g s c -> exists o, lookup s c = Some o) /\
  (forall c m, In (c, m) maps -> exists o, resolve_one src_inst src_s m = Some o /\ lookup s c = Some o).
Proof.
  unfold resolve. destruct (maps_ok g maps) eqn:Eok; simpl; [|discriminate].
  destruct (sup_assign src_inst src_s maps) as [s0|] eqn:Es; [|discriminate].
  destruct (closure g s0) as [W|] eqn:Ec; [|discriminate].
  destruct (pending g s0 W) as [|c0 r] eqn:Ep; [|discriminate].
  intros H. inversion H; subst s I. clear H.
  unfold maps_ok in Eok. rewrite !andb_true_iff in Eok. destruct Eok as [[Hnd _] _]. apply nodupN_NoDup in Hnd.
  split; [|split].
  - intros n. unfold inst_of. rewrite filter_In, negb_true_iff, (closure_spec _ _ _ Ec). tauto.
  - intros c Hsel Hr. destruct (lookup s0 c) as [o|] eqn:El; [eauto|]. exfalso.
    assert (Hc : In c (pending g s0 W)).
    { apply pending_spec. repeat split; auto; [apply (closure_complete _ _ _ Ec), Hr|apply lookup_none, El]. }
    rewrite Ep in Hc. destruct Hc.
  - intros c m Hin. apply (sup_assign_lookup _ _ _ _ _ _ Es Hnd Hin).
Qed.

(* option mapping: the source's selected option decides; None key when the source choice's originating node is absent *)
Theorem resolve_one_option src_inst src_s c origin sopts cond tbl o :
  resolve_one src_inst src_s (MOpt c origin sopts cond tbl) = Some o ->
  (In origin src_inst /\ exists so, lookup src_s c = Some so /\ assocO tbl (Some so) = Some o) \/
  (~ In origin src_inst /\ assocO tbl None = Some o).
Proof.
  simpl. destruct (memN origin src_inst) eqn:Em.
  - destruct (lookup src_s c) as [so|]; [|discriminate]. intros H. left. split; [apply memN_In, Em|eauto].
  - intros H. right. split; [apply memN_false, Em|exact H].
Qed.

(* existence mapping: the first listed source node that exists decides, else the default *)
Theorem resolve_one_existence src_inst src_s tbl d o :
  resolve_one src_inst src_s (MExist tbl d) = Some o ->
  (exists pre n post, tbl = pre ++ (n, o) :: post /\ In n src_inst /\ forall p, In p pre -> ~ In (fst p) src_inst) \/
  ((forall p, In p tbl -> ~ In (fst p) src_inst) /\ d = Some o).
Proof.
  simpl. induction tbl as [|[n v] t IH]; simpl.
  - intros H. right. split; [intros p []|exact H].
  - destruct (memN n src_inst) eqn:Em.
    + intros H. inversion H; subst. left. exists [], n, t. split; [reflexivity|]. split; [apply memN_In, Em|intros p []].
    + intros H. destruct (IH H) as [[pre [n' [post [E [Hin Hpre]]]]]|[Hall Hd]].
      * left. exists ((n, v) :: pre), n', post. split; [simpl; rewrite E; reflexivity|]. split; [exact Hin|].
        intros p [<-|Hp]; [apply memN_false, Em|apply Hpre, Hp].
      * right. split; [|exact Hd]. intros p [<-|Hp]; [apply memN_false, Em|apply Hall, Hp].
Qed.

(* incomplete or duplicate mappings are rejected; so is a mapping that cannot be resolved for this source *)
Theorem resolve_rejects g maps src_inst src_s :
  (maps_ok g maps = false \/ sup_assign src_inst src_s maps = None) -> resolve g maps src_inst src_s = None.
Proof.
  unfold resolve. intros [H|H]; [rewrite H; reflexivity|].
  destruct (maps_ok g maps); simpl; [rewrite H|]; reflexivity.
Qed.

(* completeness of an accepted option mapping: every source option is mapped, and the inactive case is mapped whenever the
   source choice exists conditionally — so resolution cannot get stuck on such a mapping *)
Theorem maps_ok_complete g maps c sc origin sopts cond tbl :
  maps_ok g maps = true -> In (c, MOpt sc origin sopts cond tbl) maps ->
  (forall o, In o sopts -> exists v, assocO tbl (Some o) = Some v) /\
  (cond = true -> exists v, assocO tbl None = Some v).
Proof.
  unfold maps_ok. rewrite !andb_true_iff. intros [[_ _] H] Hin. rewrite forallb_forall in H.
  specialize (H _ Hin). simpl in H. rewrite !andb_true_iff in H. destruct H as [[_ H1] H2]. split.
  - intros o Ho. rewrite forallb_forall in H1. specialize (H1 o Ho).
    destruct (assocO tbl (Some o)) as [v|]; [eauto|discriminate].
  - intros ->. simpl in H2. destruct (assocO tbl None) as [v|]; [eauto|discriminate].
Qed.
