(* Proofs about Model/Matrix.v: the enumerator and the validator are exact w.r.t. the declarative ValidM; no duplicates. *)
From DSG Require Import Base Matrix.

(* ---------- generic list lemmas ---------- *)
Lemma product_In {A} (ls : list (list A)) r :
  In r (product ls) <-> Forall2 (fun x l => In x l) r ls.
Proof.
  revert r. induction ls as [|l t IH]; simpl; intros r.
  - split; [intros [<-|[]]; constructor|intros H; inversion H; left; reflexivity].
  - rewrite in_flat_map. split.
    + intros [x [Hx Hr]]. apply in_map_iff in Hr. destruct Hr as [r' [<- Hr']]. constructor; [exact Hx|apply IH, Hr'].
    + intros H. inversion H as [|x l' r' t' Hx Hr']; subst. exists x. split; [exact Hx|].
      apply in_map_iff. exists r'. split; [reflexivity|apply IH, Hr'].
Qed.

Lemma NoDup_map_cons {A} (x : A) l : NoDup l -> NoDup (map (cons x) l).
Proof.
  induction 1 as [|y l Hy Hnd IH]; simpl; constructor; auto.
  intros Hin. apply in_map_iff in Hin. destruct Hin as [z [E Hz]]. inversion E; subst. contradiction.
Qed.

Lemma NoDup_flat_map_disjoint {A B} (f : A -> list B) l :
  NoDup l -> (forall x, In x l -> NoDup (f x)) ->
  (forall x y b, In x l -> In y l -> x <> y -> In b (f x) -> In b (f y) -> False) ->
  NoDup (flat_map f l).
Proof.
  induction 1 as [|x l Hx Hnd IH]; simpl; intros Hf Hdis; [constructor|].
  assert (Hrest : NoDup (flat_map f l)).
  { apply IH; [intros y Hy; apply Hf; right; exact Hy|].
    intros a b c Ha Hb; apply Hdis; right; assumption. }
  assert (Hfx : NoDup (f x)) by (apply Hf; left; reflexivity).
  clear IH. induction (f x) as [|b t IHt] eqn:E; simpl; [exact Hrest|].
  inversion Hfx as [|? ? Hb Ht]; subst. constructor.
  - rewrite in_app_iff. intros [H|H]; [contradiction|].
    apply in_flat_map in H. destruct H as [y [Hy Hby]].
    apply (Hdis x y b); [left; reflexivity|right; exact Hy| |rewrite E; left; reflexivity|exact Hby].
    intros ->. contradiction.
  - assert (G : forall t', (forall b', In b' t' -> In b' (f x)) -> NoDup t' -> NoDup (t' ++ flat_map f l)).
    { clear -Hrest Hdis Hx. induction t' as [|b' t' IH']; simpl; intros Hsub Hnd'; [exact Hrest|].
      inversion Hnd'; subst. constructor.
      - rewrite in_app_iff. intros [H|H]; [contradiction|].
        apply in_flat_map in H. destruct H as [y [Hy Hby]].
        apply (Hdis x y b'); [left; reflexivity|right; exact Hy| |apply Hsub; left; reflexivity|exact Hby].
        intros ->. contradiction.
      - apply IH'; [intros b'' Hb''; apply Hsub; right; exact Hb''|assumption]. }
    apply G; [|exact Ht]. intros b' Hb'. rewrite E. right; exact Hb'.
Qed.

Lemma product_NoDup {A} (ls : list (list A)) : Forall (@NoDup A) ls -> NoDup (product ls).
Proof.
  induction 1 as [|l t Hl Ht IH]; simpl; [constructor; [intros []|constructor]|].
  apply NoDup_flat_map_disjoint; [exact Hl| |].
  - intros x _. apply NoDup_map_cons, IH.
  - intros x y b _ _ Hne Hx Hy. apply in_map_iff in Hx, Hy.
    destruct Hx as [r1 [E1 _]], Hy as [r2 [E2 _]]. subst b. inversion E2. congruence.
Qed.

Lemma NoDup_filter' {A} (f : A -> bool) l : NoDup l -> NoDup (filter f l).
Proof.
  induction 1 as [|x l Hx Hnd IH]; simpl; [constructor|].
  destruct (f x); [constructor; [|exact IH]|exact IH]. rewrite filter_In. tauto.
Qed.

Lemma forall2_nth {A B} (R : A -> B -> Prop) da db : forall la lb,
  Forall2 R la lb <-> (length la = length lb /\ forall i, i < length la -> R (nth i la da) (nth i lb db)).
Proof.
  induction la as [|a la IH]; intros lb; split.
  - intros H. inversion H. split; [reflexivity|intros i Hi; simpl in Hi; lia].
  - intros [Hl _]. destruct lb; [constructor|discriminate].
  - intros H. inversion H as [|? b ? lb' Hab Hr]; subst. apply IH in Hr. destruct Hr as [Hl Hn].
    split; [simpl; congruence|]. intros i Hi. destruct i; [exact Hab|]. apply Hn. simpl in Hi. lia.
  - intros [Hl Hn]. destruct lb as [|b lb]; [discriminate|]. constructor.
    + apply (Hn 0). simpl; lia.
    + apply IH. split; [simpl in Hl; congruence|]. intros i Hi. apply (Hn (S i)). simpl; lia.
Qed.

Lemma enumerate_from_length {A} (l : list A) k : length (enumerate_from k l) = length l.
Proof. revert k; induction l as [|x l IH]; simpl; intros k; [reflexivity|rewrite IH; reflexivity]. Qed.

Lemma enumerate_from_nth {A} (d : A) (l : list A) : forall k i, i < length l ->
  nth i (enumerate_from k l) (0, d) = (k + i, nth i l d).
Proof.
  induction l as [|x l IH]; simpl; intros k i Hi; [lia|].
  destruct i as [|i]; [rewrite Nat.add_0_r; reflexivity|].
  rewrite IH by lia. f_equal. lia.
Qed.

Lemma enumerate_forallb {A} (f : nat * A -> bool) (l : list A) :
  forallb f (enumerate l) = true <-> forall i a, nth_error l i = Some a -> f (i, a) = true.
Proof.
  unfold enumerate. assert (G : forall k, forallb f (enumerate_from k l) = true <->
                                          forall i a, nth_error l i = Some a -> f (k + i, a) = true).
  { induction l as [|x l IH]; simpl; intros k.
    - split; [intros _ i a H; destruct i; discriminate|reflexivity].
    - rewrite andb_true_iff, IH. split.
      + intros [H1 H2] i a Hi. destruct i as [|i]; simpl in Hi.
        * inversion Hi; subst. rewrite Nat.add_0_r. exact H1.
        * replace (k + S i) with (S k + i) by lia. apply H2, Hi.
      + intros H. split; [specialize (H 0 x eq_refl); rewrite Nat.add_0_r in H; exact H|].
        intros i a Hi. replace (S k + i) with (k + S i) by lia. apply H. exact Hi. }
  apply G.
Qed.

(* ---------- vectors below caps ---------- *)
Lemma in_seq0 x c : In x (seq 0 (S c)) <-> x <= c.
Proof. rewrite in_seq. lia. Qed.

Lemma bounded_vectors_In caps r : In r (bounded_vectors caps) <-> Forall2 (fun x c => x <= c) r caps.
Proof.
  unfold bounded_vectors. rewrite product_In. revert r. induction caps as [|c t IH]; cbn [map]; intros r.
  - split; intros H; inversion H; constructor.
  - split; intros H; inversion H as [|x l r' t' Hx Hr]; subst; constructor.
    + apply in_seq0, Hx.
    + apply IH, Hr.
    + apply in_seq0, Hx.
    + apply IH, Hr.
Qed.

Lemma bounded_vectors_NoDup caps : NoDup (bounded_vectors caps).
Proof.
  unfold bounded_vectors. apply product_NoDup. apply Forall_forall. intros l Hl.
  apply in_map_iff in Hl. destruct Hl as [c [<- _]]. apply seq_NoDup.
Qed.

(* ---------- rows ---------- *)
Lemma nth_map_seq {A} (f : nat -> A) n j d : j < n -> nth j (map f (seq 0 n)) d = f j.
Proof.
  intros Hj. rewrite (nth_indep (map f (seq 0 n)) d (f 0)) by (rewrite map_length, seq_length; exact Hj).
  rewrite (map_nth f). rewrite seq_nth by exact Hj. reflexivity.
Qed.

Lemma row_options_In s src tgt P i a r :
  In r (row_options s src tgt P i a) <->
  (deg_ok a (rowsum r) = true /\ length r = length tgt /\
   forall j, j < length tgt -> nth j r 0 <= pair_max s src tgt P i j).
Proof.
  unfold row_options. rewrite filter_In, bounded_vectors_In.
  rewrite (forall2_nth (fun x c => x <= c) 0 0). rewrite map_length, seq_length. split.
  - intros [[Hl Hn] Hd]. split; [exact Hd|]. split; [exact Hl|]. intros j Hj.
    specialize (Hn j ltac:(lia)). rewrite nth_map_seq in Hn by exact Hj. exact Hn.
  - intros [Hd [Hl Hn]]. split; [|exact Hd]. split; [exact Hl|]. intros j Hj.
    rewrite nth_map_seq by lia. apply Hn. lia.
Qed.

Lemma cols_ok_spec tgt M : cols_ok tgt M = true <-> forall j b, nth_error tgt j = Some b -> deg_ok b (colsum M j) = true.
Proof. unfold cols_ok. apply (enumerate_forallb (fun p => deg_ok (snd p) (colsum M (fst p)))). Qed.

(* ---------- the enumerator is exact ---------- *)
Theorem enum_M_exact s e M : In M (enum_M s e) <-> ValidM s e M.
Proof.
  unfold enum_M, ValidM, matrix in *. cbv zeta.
  set (src := eff_nodes (s_src s) (x_src e)). set (tgt := eff_nodes (s_tgt s) (x_tgt e)).
  set (P := par_limit s src tgt).
  rewrite filter_In, product_In, cols_ok_spec.
  rewrite (forall2_nth (fun (x : list nat) (l : list (list nat)) => In x l) [] []).
  rewrite map_length. unfold enumerate at 1. rewrite enumerate_from_length.
  set (dn := {| c_list := None; c_min := 0; c_rep := true |}).
  assert (Hrow : forall i, i < length src ->
            nth i (map (fun p => row_options s src tgt P (fst p) (snd p)) (enumerate src)) [] =
            row_options s src tgt P i (nth i src dn)).
  { intros i Hi.
    rewrite (nth_indep (map (fun p => row_options s src tgt P (fst p) (snd p)) (enumerate src)) []
               ((fun p => row_options s src tgt P (fst p) (snd p)) (0, dn)))
      by (rewrite map_length; unfold enumerate; rewrite enumerate_from_length; exact Hi).
    rewrite (map_nth (fun p => row_options s src tgt P (fst p) (snd p))).
    unfold enumerate. rewrite (enumerate_from_nth dn) by exact Hi. reflexivity. }
  split.
  - intros [[Hl Hn] Hc]. split; [exact Hl|].
    assert (Hr : forall i, i < length src -> In (nth i M []) (row_options s src tgt P i (nth i src dn))).
    { intros i Hi. rewrite <- Hrow by exact Hi. apply Hn. lia. }
    split; [|split; [|split; [|exact Hc]]].
    + apply Forall_forall. intros r Hr'. destruct (In_nth _ _ [] Hr') as [i [Hi <-]].
      specialize (Hr i ltac:(lia)). apply row_options_In in Hr. tauto.
    + intros i j Hi Hj. specialize (Hr i Hi). apply row_options_In in Hr. destruct Hr as [_ [_ Hr]]. apply Hr, Hj.
    + intros i a Ha. assert (Hi : i < length src) by (apply nth_error_Some; congruence).
      specialize (Hr i Hi). apply row_options_In in Hr. destruct Hr as [Hr _].
      rewrite (nth_error_nth src i dn Ha) in Hr. exact Hr.
  - intros [Hl [Hlen [Hcap [Hrow' Hc]]]]. split; [|exact Hc]. split; [exact Hl|].
    intros i Hi. rewrite Hl in Hi. rewrite Hrow by exact Hi. apply row_options_In.
    split; [|split].
    + apply Hrow'. apply nth_error_nth'. exact Hi.
    + rewrite Forall_forall in Hlen. apply Hlen, nth_In. lia.
    + intros j Hj. apply Hcap; assumption.
Qed.

Theorem enum_M_NoDup s e : NoDup (enum_M s e).
Proof.
  unfold enum_M. apply NoDup_filter', product_NoDup. apply Forall_forall. intros l Hl.
  apply in_map_iff in Hl. destruct Hl as [p [<- _]]. unfold row_options. apply NoDup_filter', bounded_vectors_NoDup.
Qed.

(* ---------- the validator decides ValidM ---------- *)
Theorem validate_spec s e M : validate s e M = true <-> ValidM s e M.
Proof.
  unfold validate, ValidM, matrix in *. cbv zeta.
  set (src := eff_nodes (s_src s) (x_src e)). set (tgt := eff_nodes (s_tgt s) (x_tgt e)).
  set (P := par_limit s src tgt).
  rewrite !andb_true_iff, Nat.eqb_eq, cols_ok_spec.
  rewrite (enumerate_forallb (fun p => deg_ok (snd p) (rowsum (nth (fst p) M [])))).
  rewrite !forallb_forall.
  split.
  - intros [[[[Hl Hlen] Hcap] Hrow] Hc]. split; [exact Hl|]. split; [|split; [|split; [exact Hrow|exact Hc]]].
    + apply Forall_forall. intros r Hr. apply Nat.eqb_eq, Hlen, Hr.
    + intros i j Hi Hj. specialize (Hcap i ltac:(apply in_seq; lia)). rewrite forallb_forall in Hcap.
      apply Nat.leb_le, Hcap, in_seq. lia.
  - intros [Hl [Hlen [Hcap [Hrow Hc]]]]. repeat split; auto.
    + intros r Hr. rewrite Forall_forall in Hlen. apply Nat.eqb_eq, Hlen, Hr.
    + intros i Hi. apply in_seq in Hi. apply forallb_forall. intros j Hj. apply in_seq in Hj.
      apply Nat.leb_le, Hcap; lia.
Qed.

Theorem validate_iff_enumerated s e M : validate s e M = true <-> In M (enum_M s e).
Proof. rewrite validate_spec, enum_M_exact. tauto. Qed.

Theorem count_is_length s e : count_M s e = length (enum_M s e).
Proof. reflexivity. Qed.

(* an absent node (override [0]) takes no connection in any valid matrix *)
Theorem absent_source_unconnected s e M i :
  ValidM s e M -> nth_ov (x_src e) i = Some [0] -> i < length (s_src s) -> rowsum (nth i M []) = 0.
Proof.
  intros [Hl [Hlen [Hcap [Hrow Hc]]]] Hov Hi.
  set (src := eff_nodes (s_src s) (x_src e)) in *.
  assert (Hlen_src : length src = length (s_src s)).
  { unfold src, eff_nodes. rewrite map_length. unfold enumerate. apply enumerate_from_length. }
  set (dn := {| c_list := None; c_min := 0; c_rep := true |}).
  assert (Ha : nth_error src i = Some (eff (nth i (s_src s) dn) (Some [0]))).
  { unfold src, eff_nodes. erewrite map_nth_error.
    2:{ unfold enumerate. rewrite (nth_error_nth' _ (0, dn)) by (rewrite enumerate_from_length; exact Hi).
        rewrite (enumerate_from_nth dn) by exact Hi. reflexivity. }
    simpl. rewrite Hov. reflexivity. }
  specialize (Hrow i _ Ha). unfold deg_ok in Hrow. simpl in Hrow.
  rewrite orb_false_r in Hrow. apply Nat.eqb_eq in Hrow. exact Hrow.
Qed.
