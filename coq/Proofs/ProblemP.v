(* Proofs about Model/Problem.v *)
From DSG Require Import Base Constraint Dsg Sel DesVar Problem SelP DesVarP.
From Coq Require Import QArith.
Open Scope N_scope.

Lemma find_some_in {A} (f : A -> bool) l x : find f l = Some x -> In x l /\ f x = true.
Proof. apply find_some. Qed.

Lemma subsetN_spec a b : subsetN a b = true <-> incl a b.
Proof.
  unfold subsetN. rewrite forallb_forall. split.
  - intros H x Hx. apply memN_In, H, Hx.
  - intros H x Hx. apply memN_In, H, Hx.
Qed.

Lemma same_set_spec a b : same_set a b = true <-> (forall n, In n a <-> In n b).
Proof.
  unfold same_set. rewrite andb_true_iff, !subsetN_spec. unfold incl. split.
  - intros [H1 H2] n. split; auto.
  - intros H. split; intros n Hn; apply H, Hn.
Qed.

(* ---------- decode_witness is sound ---------- *)
Theorem decode_witness_sound g E k x x' act inst dvv s :
  decode_witness g E k x x' act inst dvv = Some (Some s) ->
  Adm g s /\ exists J, inst_nodes g s = Some J /\ (forall n, In n J <-> In n inst) /\
                       vars_ok k s J dvv E x x' act = true.
Proof.
  unfold decode_witness. destruct (enum_adm g) as [l|] eqn:El; [|discriminate].
  intros H. inversion H as [Hf]. apply find_some_in in Hf. destruct Hf as [Hin Hok].
  split; [apply (enum_adm_sound g l El s Hin)|].
  destruct (inst_nodes g s) as [J|]; [|discriminate]. exists J.
  apply andb_true_iff in Hok. destruct Hok as [H1 H2].
  split; [reflexivity|]. split; [apply same_set_spec, H1|exact H2].
Qed.

(* the instance is the derivation closure of an admissible assignment: no choice node left, nothing missing *)
Theorem decode_instance_is_closure g E k x x' act inst dvv s :
  decode_witness g E k x x' act inst dvv = Some (Some s) ->
  Adm g s /\ (forall n, In n inst <-> (Reach g s n /\ is_choice g n = false)).
Proof.
  intros H. destruct (decode_witness_sound _ _ _ _ _ _ _ _ _ H) as [Ha [J [HJ [Hs _]]]].
  split; [exact Ha|]. intros n. rewrite <- Hs. apply (inst_nodes_spec g s J HJ).
Qed.

(* position-wise reading of vars_ok *)
Lemma vars_ok_nth k s J dvv : forall E x x' act, vars_ok k s J dvv E x x' act = true ->
  length x = length E /\ length x' = length E /\ length act = length E /\
  forall i v, nth_error E i = Some v ->
    exists xi xi' a, nth_error x i = Some xi /\ nth_error x' i = Some xi' /\ nth_error act i = Some a /\
                     var_ok k s J dvv v xi xi' a = true.
Proof.
  induction E as [|v E IH]; intros x x' act H; destruct x as [|xi xt], x' as [|xi' xt'], act as [|a at']; simpl in H;
    try discriminate.
  - repeat split; auto. intros i v Hn. destruct i; discriminate.
  - apply andb_true_iff in H. destruct H as [H1 H2]. destruct (IH _ _ _ H2) as [L1 [L2 [L3 Hn]]].
    simpl. repeat split; try congruence. intros i v' Hi. destruct i as [|i]; simpl in *.
    + inversion Hi; subst. exists xi, xi', a. auto.
    + apply Hn, Hi.
Qed.

Lemma index_of_nth o : forall opts i, index_of o opts = Some i -> nth_error opts i = Some o.
Proof.
  induction opts as [|y t IH]; simpl; intros i H; [discriminate|].
  destruct (N.eqb_spec y o) as [->|Hne].
  - inversion H; subst. reflexivity.
  - destruct (index_of o t) as [j|]; [|discriminate]. simpl in H. inversion H; subst. simpl. apply IH. reflexivity.
Qed.


(* an active selection variable holds the index of the option that the choice took; the choice was reached and the
   option is part of the instance *)
Theorem active_sel_describes g E x x' act inst dvv s i c opts xi' :
  decode_witness g E Full x x' act inst dvv = Some (Some s) ->
  nth_error E i = Some (VSel c opts) -> nth_error act i = Some true -> nth_error x' i = Some xi' ->
  exists o j, lookup s c = Some o /\ nth_error opts j = Some o /\ xi' == inject_Z (Z.of_nat j) /\
              Reach g s c /\ is_sel g c = true /\ Reach g s o /\ (is_choice g o = false -> In o inst).
Proof.
  intros H HE Ha Hx'. destruct (decode_witness_sound _ _ _ _ _ _ _ _ _ H) as [HA [J [HJ [Hs Hv]]]].
  destruct (vars_ok_nth _ _ _ _ _ _ _ _ Hv) as [_ [_ [_ Hn]]].
  destruct (Hn i _ HE) as [xi [xi2 [a [H1 [H2 [H3 H4]]]]]].
  rewrite Ha in H3. inversion H3; subst a. rewrite Hx' in H2. inversion H2; subst xi2.
  simpl in H4. apply andb_true_iff in H4. destruct H4 as [Hq Hnn]. unfold sel_entry in *.
  destruct (lookup s c) as [o|] eqn:El; [|simpl in Hnn; discriminate].
  destruct (index_of o opts) as [j|] eqn:Ei; [|simpl in Hnn; discriminate].
  exists o, j. split; [reflexivity|]. split; [apply index_of_nth, Ei|]. split; [apply Qeq_bool_iff, Hq|].
  destruct HA as [Hnd [Hdom [Hopt [Hinc Hcons]]]].
  assert (Hc : In c (map fst s)) by (apply in_map_iff; exists (c, o); split; [reflexivity|apply lookup_in, El]).
  apply Hdom in Hc. destruct Hc as [Hsel Hr].
  assert (Hro : Reach g s o) by (eapply R_sel; eauto; apply Hopt, lookup_in, El).
  split; [exact Hr|]. split; [exact Hsel|]. split; [exact Hro|].
  intros Hnc. apply Hs. apply (inst_nodes_spec g s J HJ). split; assumption.
Qed.

(* an inactive variable is reported at its canonical value *)
Theorem inactive_canonical g E x x' act inst dvv s i v xi' :
  decode_witness g E Full x x' act inst dvv = Some (Some s) ->
  nth_error E i = Some v -> nth_error act i = Some false -> nth_error x' i = Some xi' ->
  match v with VSel _ _ => xi' == 0 | VDv n d => xi' == canon d /\ ~ In n inst end.
Proof.
  intros H HE Ha Hx'. destruct (decode_witness_sound _ _ _ _ _ _ _ _ _ H) as [HA [J [HJ [Hs Hv]]]].
  destruct (vars_ok_nth _ _ _ _ _ _ _ _ Hv) as [_ [_ [_ Hn]]].
  destruct (Hn i _ HE) as [xi [xi2 [a [H1 [H2 [H3 H4]]]]]].
  rewrite Ha in H3. inversion H3; subst a. rewrite Hx' in H2. inversion H2; subst xi2.
  destruct v as [c opts|n d]; simpl in H4.
  - apply Qeq_bool_iff, H4.
  - destruct (memN n J) eqn:Em; [simpl in H4; discriminate|].
    apply andb_true_iff in H4. destruct H4 as [H4 _].
    split; [apply Qeq_bool_iff, H4|]. rewrite <- Hs. apply memN_false, Em.
Qed.

(* a design-variable node has a value exactly when it is in the instance; the value is the clamped input and is what the
   corrected vector reports; an absent node is inactive at the canonical value *)
Theorem dv_present_iff_value g E k x x' act inst dvv s i n d xi xi' a :
  decode_witness g E k x x' act inst dvv = Some (Some s) ->
  nth_error E i = Some (VDv n d) -> nth_error x i = Some xi -> nth_error x' i = Some xi' -> nth_error act i = Some a ->
  (In n inst <-> a = true) /\
  (In n inst -> xi' == correct d xi /\ exists qv, lookupQ dvv n = Some qv /\ qv == xi') /\
  (~ In n inst -> xi' == canon d /\ lookupQ dvv n = None).
Proof.
  intros H HE Hx Hx' Ha. destruct (decode_witness_sound _ _ _ _ _ _ _ _ _ H) as [HA [J [HJ [Hs Hv]]]].
  destruct (vars_ok_nth _ _ _ _ _ _ _ _ Hv) as [_ [_ [_ Hn]]].
  destruct (Hn i _ HE) as [yi [yi2 [b [H1 [H2 [H3 H4]]]]]].
  rewrite Hx in H1; inversion H1; subst yi. rewrite Hx' in H2; inversion H2; subst yi2.
  rewrite Ha in H3; inversion H3; subst b. simpl in H4.
  destruct (memN n J) eqn:Em.
  - assert (Hin : In n inst) by (apply Hs, memN_In, Em).
    apply andb_true_iff in H4. destruct H4 as [H4 H5]. apply andb_true_iff in H4. destruct H4 as [H4 H6].
    destruct (lookupQ dvv n) as [qv|]; [|discriminate].
    split; [split; auto|]. split.
    + intros _. split; [apply Qeq_bool_iff, H6|]. exists qv. split; [reflexivity|apply Qeq_bool_iff, H5].
    + intros Hn'. contradiction.
  - assert (Hnin : ~ In n inst) by (rewrite <- Hs; apply memN_false, Em).
    apply andb_true_iff in H4. destruct H4 as [H4 H5]. apply andb_true_iff in H4. destruct H4 as [H4 H6].
    apply negb_true_iff in H4. subst a.
    split; [split; [contradiction|discriminate]|]. split; [contradiction|].
    intros _. split; [apply Qeq_bool_iff, H6|]. destruct (lookupQ dvv n); [discriminate|reflexivity].
Qed.

(* the stored value of a present design-variable node lies in its declared domain *)
Theorem dv_value_in_domain g E k x x' act inst dvv s i n d xi' :
  decode_witness g E k x x' act inst dvv = Some (Some s) ->
  nth_error E i = Some (VDv n d) -> nth_error x' i = Some xi' -> In n inst -> wf_dom d ->
  exists xi, nth_error x i = Some xi /\ xi' == correct d xi /\ in_dom d (correct d xi) = true.
Proof.
  intros H HE Hx' Hin Hwf. destruct (decode_witness_sound _ _ _ _ _ _ _ _ _ H) as [HA [J [HJ [Hs Hv]]]].
  destruct (vars_ok_nth _ _ _ _ _ _ _ _ Hv) as [_ [_ [_ Hn]]].
  destruct (Hn i _ HE) as [yi [yi2 [b [H1 [H2 [H3 H4]]]]]].
  rewrite Hx' in H2; inversion H2; subst yi2. simpl in H4.
  assert (Em : memN n J = true) by (apply memN_In, Hs, Hin). rewrite Em in H4.
  apply andb_true_iff in H4. destruct H4 as [H4 _]. apply andb_true_iff in H4. destruct H4 as [_ H4].
  exists yi. split; [exact H1|]. split; [apply Qeq_bool_iff, H4|apply in_dom_correct, Hwf].
Qed.

(* ---------- rows_of ---------- *)
Lemma product_In {A} (ls : list (list A)) r :
  In r (product ls) <-> Forall2 (fun x l => In x l) r ls.
Proof.
  revert r. induction ls as [|l t IH]; simpl; intros r.
  - split; [intros [<-|[]]; constructor|intros H; inversion H; left; reflexivity].
  - rewrite in_flat_map. split.
    + intros [x [Hx Hr]]. apply in_map_iff in Hr. destruct Hr as [r' [<- Hr']]. constructor; [exact Hx|apply IH, Hr'].
    + intros H. inversion H as [|x l' r' t' Hx Hr']; subst. exists x. split; [exact Hx|].
      apply in_map_iff. exists r'. split; [reflexivity|apply IH, Hr'].
Qed.

Lemma forall2_map_entries s J : forall E r,
  Forall2 (fun x l => In x l) r (map (var_entries s J) E) <-> Forall2 (fun e v => In e (var_entries s J v)) r E.
Proof.
  induction E as [|v E IH]; simpl; intros r; split; intros H; inversion H; subst; constructor; auto; apply IH; assumption.
Qed.

Theorem rows_of_spec g E rows : rows_of g E = Some rows ->
  forall r, In r rows <->
    exists s J, Adm g s /\ inst_nodes g s = Some J /\ (exists l, enum_adm g = Some l /\ In s l) /\
                Forall2 (fun e v => In e (var_entries s J v)) r E.
Proof.
  unfold rows_of. destruct (enum_adm g) as [l|] eqn:El; [|discriminate]. intros H r.
  rewrite (concat_opt_in _ _ H). split.
  - intros [y [Hy Hr]]. apply in_map_iff in Hy. destruct Hy as [s [Hs Hin]].
    destruct (inst_nodes g s) as [J|] eqn:EJ; [|discriminate]. simpl in Hs. inversion Hs; subst y.
    exists s, J. split; [apply (enum_adm_sound g l El s Hin)|]. split; [exact EJ|]. split; [exists l; auto|].
    unfold rows_for in Hr. apply product_In in Hr. apply forall2_map_entries, Hr.
  - intros [s [J [Ha [HJ [[l' [El' Hin]] Hf]]]]]. inversion El'; subst l'.
    exists (rows_for E s J). split.
    + apply in_map_iff. exists s. rewrite HJ. split; [reflexivity|exact Hin].
    + unfold rows_for. apply product_In. apply forall2_map_entries, Hf.
Qed.

(* every admissible architecture has its rows listed (completeness w.r.t. the declarative Adm) *)
Theorem rows_of_complete g E rows s : rows_of g E = Some rows -> Adm g s ->
  exists s' J', same s' s /\ inst_nodes g s' = Some J' /\
                forall r, Forall2 (fun e v => In e (var_entries s' J' v)) r E -> In r rows.
Proof.
  intros H Ha. pose proof H as H0. unfold rows_of in H. destruct (enum_adm g) as [l|] eqn:El; [|discriminate].
  destruct (enum_adm_complete g l El s Ha) as [s' [Hin Hsame]].
  assert (Hmem : In (option_map (rows_for E s') (inst_nodes g s'))
                    (map (fun s0 => option_map (rows_for E s0) (inst_nodes g s0)) l)).
  { apply in_map_iff. exists s'. auto. }
  destruct (concat_opt_all _ _ H _ Hmem) as [y Hy].
  destruct (inst_nodes g s') as [J'|] eqn:EJ'; [|discriminate].
  exists s', J'. split; [exact Hsame|]. split; [exact EJ'|]. intros r Hf.
  apply (rows_of_spec g E rows H0). exists s', J'. split; [apply (enum_adm_sound g l El s' Hin)|].
  split; [exact EJ'|]. split; [exists l; auto|exact Hf].
Qed.

Theorem n_valid_is_length g E rows : rows_of g E = Some rows -> n_valid g E = Some (N.of_nat (length rows)).
Proof. unfold n_valid. intros ->. reflexivity. Qed.

(* an active entry of a valid row refers to something that exists in that architecture *)
Theorem row_active_only_if_exists g E rows r : rows_of g E = Some rows -> In r rows ->
  exists s J, Adm g s /\ inst_nodes g s = Some J /\
    forall i v e, nth_error E i = Some v -> nth_error r i = Some e -> (e <> -1)%Z ->
      match v with
      | VSel c opts => (exists o, lookup s c = Some o) /\ Reach g s c
      | VDv n d => In n J
      end.
Proof.
  intros H Hin. apply (rows_of_spec g E rows H) in Hin. destruct Hin as [s [J [Ha [HJ [_ Hf]]]]].
  exists s, J. split; [exact Ha|]. split; [exact HJ|].
  intros i v e HE Hr Hne. clear H. revert i r Hf HE Hr. induction E as [|v0 E IH]; intros i r Hf HE Hr.
  - destruct i; discriminate.
  - inversion Hf as [|e0 v0' r' E' He Hf']; subst. destruct i as [|i]; simpl in *.
    + inversion HE; subst v0. inversion Hr; subst e0. destruct v as [c opts|n d]; simpl in He.
      * destruct He as [He|[]]. unfold sel_entry in He. destruct (lookup s c) as [o|] eqn:El; [|congruence].
        split; [eauto|]. destruct Ha as [_ [Hdom _]].
        apply Hdom. apply in_map_iff. exists (c, o). split; [reflexivity|apply lookup_in, El].
      * destruct (memN n J) eqn:Em; [apply memN_In, Em|]. exfalso.
        destruct d as [k|lo hi]; destruct He as [He|[]]; congruence.
    + apply (IH i r' Hf' HE Hr).
Qed.
