(* Proofs about Model/Sel.v: closure = Reach; monotonicity; order independence; enum_adm is exact. *)
From DSG Require Import Base Constraint Dsg Sel.
From Coq Require Import Permutation.
Open Scope N_scope.

(* ---------- helpers ---------- *)
Lemma memN_In x l : memN x l = true <-> In x l.
Proof.
  unfold memN. rewrite existsb_exists. split.
  - intros [y [Hy E]]. apply N.eqb_eq in E. subst; assumption.
  - intros H. exists x. split; [assumption|apply N.eqb_refl].
Qed.

Lemma memN_false x l : memN x l = false <-> ~ In x l.
Proof. rewrite <- memN_In. destruct (memN x l); intuition congruence. Qed.

Lemma dedupN_In x l : In x (dedupN l) <-> In x l.
Proof.
  induction l as [|y t IH]; simpl; [tauto|].
  destruct (memN y t) eqn:E.
  - rewrite IH. split; [auto|]. intros [->|H]; [apply memN_In, E|exact H].
  - simpl. rewrite IH. tauto.
Qed.

Lemma dedupN_NoDup l : NoDup (dedupN l).
Proof.
  induction l as [|y t IH]; simpl; [constructor|].
  destruct (memN y t) eqn:E; [exact IH|].
  constructor; [|exact IH]. rewrite dedupN_In. apply memN_false, E.
Qed.

Lemma filter_nil {A} (f : A -> bool) l : filter f l = [] -> forall x, In x l -> f x = false.
Proof.
  induction l as [|y t IH]; simpl; intros H x Hx; [destruct Hx|].
  destruct (f y) eqn:E; [discriminate|]. destruct Hx as [->|Hx]; [exact E|apply IH; assumption].
Qed.

Lemma NoDup_app_snoc {A} (l : list A) x : NoDup l -> ~ In x l -> NoDup (l ++ [x]).
Proof.
  induction l as [|y t IH]; simpl; intros Hnd Hn; [constructor; [intros []|constructor]|].
  inversion Hnd as [|? ? Hy Hnd']; subst. constructor.
  - rewrite in_app_iff. intros [H|[H|[]]]; [contradiction|]. apply Hn. left; symmetry; exact H.
  - apply IH; [exact Hnd'|]. intros H. apply Hn. right; exact H.
Qed.

Lemma is_choice_false g m : is_choice g m = false <-> is_sel g m = false /\ is_conn g m = false.
Proof. unfold is_choice. apply orb_false_iff. Qed.

(* ---------- lookup ---------- *)
Lemma lookup_in s c o : lookup s c = Some o -> In (c, o) s.
Proof.
  induction s as [|[c' o'] t IH]; simpl; [discriminate|].
  destruct (N.eqb_spec c' c) as [->|Hne]; intros H.
  - inversion H; subst. left; reflexivity.
  - right. apply IH, H.
Qed.

Lemma in_lookup s c o : NoDup (map fst s) -> In (c, o) s -> lookup s c = Some o.
Proof.
  induction s as [|[c' o'] t IH]; simpl; intros Hnd Hin; [destruct Hin|].
  inversion Hnd as [|? ? Hnin Hnd']; subst.
  destruct Hin as [E|Hin].
  - inversion E; subst. rewrite N.eqb_refl. reflexivity.
  - destruct (N.eqb_spec c' c) as [->|Hne]; [|apply IH; assumption].
    exfalso. apply Hnin. apply in_map_iff. exists (c, o). split; [reflexivity|assumption].
Qed.

Lemma lookup_none s c : lookup s c = None <-> ~ In c (map fst s).
Proof.
  induction s as [|[c' o'] t IH]; simpl; [tauto|].
  destruct (N.eqb_spec c' c) as [->|Hne].
  - split; [discriminate|]. intros H. exfalso. apply H. left; reflexivity.
  - rewrite IH. split; [intros H [E|H']; [congruence|contradiction]|intros H H'; apply H; right; exact H'].
Qed.

Lemma lookup_app_l s t c o : lookup s c = Some o -> lookup (s ++ t) c = Some o.
Proof.
  induction s as [|[c' o'] s' IH]; simpl; [discriminate|].
  destruct (c' =? c); [tauto|exact IH].
Qed.

Lemma lookup_app_r s t c : lookup s c = None -> lookup (s ++ t) c = lookup t c.
Proof.
  induction s as [|[c' o'] s' IH]; simpl; [reflexivity|].
  destruct (c' =? c); [discriminate|exact IH].
Qed.

Definition sub (s s' : assign) : Prop := forall c o, lookup s c = Some o -> lookup s' c = Some o.
Definition same (s s' : assign) : Prop := forall p, In p s <-> In p s'.

Lemma same_lookup s s' : NoDup (map fst s) -> NoDup (map fst s') -> same s s' -> forall c, lookup s c = lookup s' c.
Proof.
  intros H1 H2 Hs c. destruct (lookup s c) as [o|] eqn:E.
  - symmetry. apply in_lookup; [exact H2|]. apply Hs, lookup_in, E.
  - destruct (lookup s' c) as [o'|] eqn:E'; [|reflexivity].
    apply lookup_in, Hs, (in_lookup _ _ _ H1) in E'. congruence.
Qed.

(* ---------- Reach and succs ---------- *)
Lemma succs_spec g s m n :
  In n (succs g s m) <->
  (is_choice g m = false /\ In n (dc_succ g m)) \/
  (is_sel g m = true /\ lookup s m = Some n /\ In n (sel_opts g m)).
Proof.
  unfold succs, is_choice. destruct (is_sel g m) eqn:Es; simpl.
  - destruct (lookup s m) as [o|] eqn:El.
    + destruct (memN o (sel_opts g m)) eqn:Em.
      * simpl. split.
        -- intros [->|[]]. right. repeat split; auto. apply memN_In, Em.
        -- intros [[H _]|[_ [H _]]]; [discriminate|]. inversion H; subst. left; reflexivity.
      * simpl. split; [tauto|]. intros [[H _]|[_ [H H']]]; [discriminate|].
        inversion H; subst. apply memN_In in H'. congruence.
    + simpl. split; [tauto|]. intros [[H _]|[_ [H _]]]; discriminate.
  - destruct (is_conn g m) eqn:Ec; simpl.
    + split; [tauto|]. intros [[H _]|[H _]]; discriminate.
    + split; [intros H; left; auto|]. intros [[_ H]|[H _]]; [exact H|discriminate].
Qed.

Lemma Reach_step g s m n : Reach g s m -> In n (succs g s m) -> Reach g s n.
Proof.
  intros Hm Hn. apply succs_spec in Hn. destruct Hn as [[H1 H2]|[H1 [H2 H3]]].
  - eapply R_edge; eauto.
  - eapply R_sel; eauto.
Qed.

Lemma Reach_closed g s (P : node -> Prop) :
  (forall n, In n (start g) -> P n) -> (forall m n, P m -> In n (succs g s m) -> P n) ->
  forall n, Reach g s n -> P n.
Proof.
  intros Hs Hc n H. induction H as [n Hn|m n Hm IH Hc' Hin|c o Hc' IH Hsel Hl Hin].
  - apply Hs, Hn.
  - apply (Hc m n IH). apply succs_spec. left; auto.
  - apply (Hc c o IH). apply succs_spec. right; auto.
Qed.

Theorem Reach_mono g s s' : sub s s' -> forall n, Reach g s n -> Reach g s' n.
Proof.
  intros Hsub n H. induction H as [n Hn|m n Hm IH Hc Hin|c o Hc IH Hsel Hl Hin].
  - apply R_start, Hn.
  - eapply R_edge; eauto.
  - eapply R_sel; eauto.
Qed.

(* the instance depends on the set of (choice, option) pairs only — not on the order in which they were taken *)
Theorem Reach_order_independent g s s' :
  NoDup (map fst s) -> NoDup (map fst s') -> same s s' -> forall n, Reach g s n <-> Reach g s' n.
Proof.
  intros H1 H2 Hs n. split; apply Reach_mono; intros c o Hl.
  - rewrite <- (same_lookup s s' H1 H2 Hs). exact Hl.
  - rewrite (same_lookup s s' H1 H2 Hs). exact Hl.
Qed.

(* ---------- closure = Reach ---------- *)
Lemma iter_close_sound g s : forall fuel W W',
  (forall x, In x W -> Reach g s x) -> iter_close g s fuel W = Some W' -> forall x, In x W' -> Reach g s x.
Proof.
  induction fuel as [|f IH]; intros W W' HW H x Hx; simpl in H.
  - destruct (filter _ _) eqn:E; [|discriminate]. inversion H; subst. apply HW, Hx.
  - destruct (filter (fun n => negb (memN n W)) (dedupN (flat_map (succs g s) W))) as [|y new] eqn:E.
    + inversion H; subst. apply HW, Hx.
    + apply (IH (W ++ y :: new) W'); [|exact H|exact Hx].
      intros z Hz. apply in_app_or in Hz. destruct Hz as [Hz|Hz]; [apply HW, Hz|].
      rewrite <- E in Hz. apply filter_In in Hz. destruct Hz as [Hz _].
      apply dedupN_In, in_flat_map in Hz. destruct Hz as [m [Hm Hz]].
      eapply Reach_step; [apply HW, Hm|exact Hz].
Qed.

Lemma iter_close_closed g s : forall fuel W W',
  iter_close g s fuel W = Some W' ->
  incl W W' /\ (forall m n, In m W' -> In n (succs g s m) -> In n W').
Proof.
  assert (Hbase : forall W, filter (fun n => negb (memN n W)) (dedupN (flat_map (succs g s) W)) = [] ->
                            forall m n, In m W -> In n (succs g s m) -> In n W).
  { intros W E m n Hm Hn. pose proof (filter_nil _ _ E n) as Hf.
    assert (Hin : In n (dedupN (flat_map (succs g s) W))).
    { apply dedupN_In, in_flat_map. exists m; auto. }
    apply Hf in Hin. apply negb_false_iff, memN_In in Hin. exact Hin. }
  induction fuel as [|f IH]; intros W W' H; simpl in H.
  - destruct (filter _ _) eqn:E; [|discriminate]. inversion H; subst.
    split; [apply incl_refl|apply Hbase, E].
  - destruct (filter (fun n => negb (memN n W)) (dedupN (flat_map (succs g s) W))) as [|y new] eqn:E.
    + inversion H; subst. split; [apply incl_refl|apply Hbase, E].
    + destruct (IH _ _ H) as [Hi Hc]. split; [|exact Hc].
      intros z Hz. apply Hi, in_or_app. left; exact Hz.
Qed.

Theorem closure_sound g s W : closure g s = Some W -> forall n, In n W -> Reach g s n.
Proof.
  unfold closure. intros H. eapply iter_close_sound; [|exact H].
  intros x Hx. apply R_start, dedupN_In, Hx.
Qed.

Theorem closure_complete g s W : closure g s = Some W -> forall n, Reach g s n -> In n W.
Proof.
  unfold closure. intros H. destruct (iter_close_closed _ _ _ _ _ H) as [Hi Hc].
  apply Reach_closed.
  - intros n Hn. apply Hi, dedupN_In, Hn.
  - exact Hc.
Qed.

Theorem closure_spec g s W : closure g s = Some W -> forall n, In n W <-> Reach g s n.
Proof. intros H n. split; [apply (closure_sound _ _ _ H)|apply (closure_complete _ _ _ H)]. Qed.

Theorem inst_nodes_spec g s I : inst_nodes g s = Some I ->
  forall n, In n I <-> (Reach g s n /\ is_choice g n = false).
Proof.
  unfold inst_nodes. destruct (closure g s) as [W|] eqn:E; simpl; [|discriminate].
  intros H n. inversion H; subst. unfold inst_of. rewrite filter_In, negb_true_iff, (closure_spec _ _ _ E). tauto.
Qed.

(* ---------- enumeration ---------- *)
Definition Pre (g : dsg) (s : assign) : Prop :=
  NoDup (map fst s) /\
  forall c o, In (c, o) s -> is_sel g c = true /\ Reach g s c /\ In o (sel_opts g c).

Lemma Pre_nil g : Pre g [].
Proof. split; [constructor|intros c o []]. Qed.

Lemma assigned_false s c : assigned s c = false <-> ~ In c (map fst s).
Proof. unfold assigned. rewrite <- lookup_none. destruct (lookup s c); split; congruence. Qed.

Lemma assigned_true s c : assigned s c = true <-> In c (map fst s).
Proof.
  pose proof (assigned_false s c). destruct (assigned s c); split; try congruence; intros H'; try reflexivity.
  - destruct (in_dec N.eq_dec c (map fst s)); [assumption|]. apply H in n. discriminate.
  - exfalso. apply (proj1 H); [reflexivity|exact H'].
Qed.

Lemma sub_app s t : sub s (s ++ t).
Proof. intros c o. apply lookup_app_l. Qed.

Lemma pending_spec g s W c : In c (pending g s W) <-> In c W /\ is_sel g c = true /\ ~ In c (map fst s).
Proof. unfold pending. rewrite filter_In, andb_true_iff, negb_true_iff, assigned_false. tauto. Qed.

Lemma Pre_step g s W c o :
  Pre g s -> closure g s = Some W -> In c (pending g s W) -> In o (sel_opts g c) -> Pre g (s ++ [(c, o)]).
Proof.
  intros [Hnd Hp] Hcl Hc Ho. apply pending_spec in Hc. destruct Hc as [HcW [Hsel Hnin]]. split.
  - rewrite map_app. simpl. apply NoDup_app_snoc; assumption.
  - intros c' o' Hin. apply in_app_or in Hin. destruct Hin as [Hin|[E|[]]].
    + destruct (Hp _ _ Hin) as [H1 [H2 H3]]. repeat split; auto.
      eapply Reach_mono; [apply sub_app|exact H2].
    + inversion E; subst. repeat split; auto.
      eapply Reach_mono; [apply sub_app|]. apply (closure_sound _ _ _ Hcl), HcW.
Qed.

Lemma conflict_free_spec g W : conflict_free g W = true <->
  forall a b, In (a, b) (incompat g) -> ~ (In a W /\ In b W).
Proof.
  unfold conflict_free. rewrite forallb_forall. split.
  - intros H a b Hin [Ha Hb]. specialize (H (a, b) Hin). simpl in H.
    apply memN_In in Ha, Hb. rewrite Ha, Hb in H. discriminate.
  - intros H [a b] Hin. simpl. apply negb_true_iff, andb_false_iff.
    destruct (memN a W) eqn:Ea; [|left; reflexivity]. destruct (memN b W) eqn:Eb; [|right; reflexivity].
    exfalso. apply (H a b Hin). split; apply memN_In; assumption.
Qed.

Lemma leaf_adm g s W :
  Pre g s -> closure g s = Some W -> pending g s W = [] -> final_ok g s W = true -> Adm g s.
Proof.
  intros [Hnd Hp] Hcl Hpend Hfin. unfold final_ok in Hfin. apply andb_true_iff in Hfin. destruct Hfin as [Hcf Hco].
  unfold Adm. split; [exact Hnd|]. split; [|split; [|split; [|exact Hco]]].
  - intros c. split.
    + intros Hin. apply in_map_iff in Hin. destruct Hin as [[c' o] [E Hin]]. simpl in E; subst.
      destruct (Hp _ _ Hin) as [H1 [H2 _]]. split; assumption.
    + intros [Hsel Hr]. destruct (in_dec N.eq_dec c (map fst s)) as [|Hn]; [assumption|]. exfalso.
      assert (Hc : In c (pending g s W)).
      { apply pending_spec. repeat split; auto. apply (closure_complete _ _ _ Hcl), Hr. }
      rewrite Hpend in Hc. destruct Hc.
  - intros c o Hin. apply (Hp _ _ Hin).
  - intros a b Hin [Ha Hb]. apply (proj1 (conflict_free_spec g W) Hcf a b Hin).
    split; apply (closure_complete _ _ _ Hcl); assumption.
Qed.

Lemma concat_opt_in {A} (l : list (option (list A))) r :
  concat_opt l = Some r -> forall x, In x r <-> exists y, In (Some y) l /\ In x y.
Proof.
  revert r. induction l as [|[y|] t IH]; simpl; intros r H x.
  - inversion H; subst. split; [intros []|intros [y [[] _]]].
  - destruct (concat_opt t) as [r'|]; [|discriminate]. inversion H; subst.
    rewrite in_app_iff, (IH r' eq_refl). split.
    + intros [Hx|[y' [H1 H2]]]; [exists y; auto|exists y'; auto].
    + intros [y' [[E|H1] H2]]; [inversion E; subst; left; exact H2|right; exists y'; auto].
  - discriminate.
Qed.

Lemma concat_opt_all {A} (l : list (option (list A))) r :
  concat_opt l = Some r -> forall o, In o l -> exists y, o = Some y.
Proof.
  revert r. induction l as [|[y|] t IH]; simpl; intros r H o Ho; [destruct Ho| |discriminate].
  destruct (concat_opt t) as [r'|]; [|discriminate].
  destruct Ho as [<-|Ho]; [eexists; reflexivity|eapply IH; eauto].
Qed.

(* soundness: everything enumerated is admissible and extends the prefix *)
Theorem enum_sound g : forall fuel s l,
  Pre g s -> enum g fuel s = Some l -> forall s', In s' l -> Adm g s' /\ incl s s'.
Proof.
  induction fuel as [|f IH]; intros s l HP H s' Hin; simpl in H;
    destruct (closure g s) as [W|] eqn:Hcl; try discriminate;
    destruct (pending g s W) as [|c rest] eqn:Hpend; try discriminate.
  - inversion H; subst. destruct (final_ok g s W) eqn:Hf; [|destruct Hin].
    destruct Hin as [<-|[]]. split; [eapply leaf_adm; eauto|apply incl_refl].
  - inversion H; subst. destruct (final_ok g s W) eqn:Hf; [|destruct Hin].
    destruct Hin as [<-|[]]. split; [eapply leaf_adm; eauto|apply incl_refl].
  - apply (concat_opt_in _ _ H) in Hin. destruct Hin as [y [Hy Hin]].
    apply in_map_iff in Hy. destruct Hy as [o [Ho Hoin]].
    assert (HP' : Pre g (s ++ [(c, o)])).
    { eapply Pre_step; eauto. rewrite Hpend. left; reflexivity. }
    destruct (IH _ _ HP' Ho s' Hin) as [Ha Hi]. split; [exact Ha|].
    intros p Hp. apply Hi, in_or_app. left; exact Hp.
Qed.

Lemma Adm_sub (s s' : assign) : NoDup (map fst s') -> incl s s' -> sub s s'.
Proof. intros Hnd Hi c o Hl. apply in_lookup; [exact Hnd|]. apply Hi, lookup_in, Hl. Qed.

(* if no reachable selection choice is unassigned under s, a larger admissible assignment reaches nothing more *)
Lemma Reach_back g s s' W :
  NoDup (map fst s) -> NoDup (map fst s') -> incl s s' -> closure g s = Some W -> pending g s W = [] ->
  forall n, Reach g s' n -> Reach g s n.
Proof.
  intros Hnd Hnd' Hi Hcl Hpend. apply Reach_closed.
  - intros n Hn. apply R_start, Hn.
  - intros m n Hm Hn. apply succs_spec in Hn. destruct Hn as [[H1 H2]|[H1 [H2 H3]]].
    + eapply R_edge; eauto.
    + (* m is a reachable selection choice under s: it is assigned in s, with the same option *)
      destruct (in_dec N.eq_dec m (map fst s)) as [Hin|Hn].
      * apply in_map_iff in Hin. destruct Hin as [[m' o] [E Hin]]. simpl in E; subst m'.
        assert (o = n).
        { apply Hi in Hin. apply (in_lookup _ _ _ Hnd') in Hin. congruence. }
        subst o. eapply R_sel; eauto. apply in_lookup; assumption.
      * exfalso. assert (Hc : In m (pending g s W)).
        { apply pending_spec. repeat split; auto. apply (closure_complete _ _ _ Hcl), Hm. }
        rewrite Hpend in Hc. destruct Hc.
Qed.

Lemma con_row_lookup s s' cn : (forall c, lookup s c = lookup s' c) -> con_row s cn = con_row s' cn.
Proof. intros H. unfold con_row. apply map_ext. intros p. rewrite H. reflexivity. Qed.

Lemma cons_okb_lookup g s s' : (forall c, lookup s c = lookup s' c) -> cons_okb g s = cons_okb g s'.
Proof.
  intros H. unfold cons_okb. induction (cons g) as [|c t IH]; simpl; [reflexivity|].
  rewrite (con_row_lookup s s' _ H), IH. reflexivity.
Qed.

Lemma leaf_complete g s s' W :
  Pre g s -> Adm g s' -> incl s s' -> closure g s = Some W -> pending g s W = [] ->
  final_ok g s W = true /\ same s s'.
Proof.
  intros [Hnd Hp] [Hnd' [Hdom [Hopt [Hinc Hcons]]]] Hi Hcl Hpend.
  assert (Hback := Reach_back g s s' W Hnd Hnd' Hi Hcl Hpend).
  assert (Hsame : same s s').
  { intros [c o]. split; [apply Hi|]. intros Hin.
    assert (Hc : In c (map fst s')) by (apply in_map_iff; exists (c, o); auto).
    apply Hdom in Hc. destruct Hc as [Hsel Hr]. apply Hback in Hr.
    destruct (in_dec N.eq_dec c (map fst s)) as [Hin2|Hn].
    - apply in_map_iff in Hin2. destruct Hin2 as [[c' o'] [E Hin2]]. simpl in E; subst c'.
      assert (o' = o).
      { pose proof (in_lookup _ _ _ Hnd' (Hi _ Hin2)). pose proof (in_lookup _ _ _ Hnd' Hin). congruence. }
      subst; assumption.
    - exfalso. assert (Hc : In c (pending g s W)).
      { apply pending_spec. repeat split; auto. apply (closure_complete _ _ _ Hcl), Hr. }
      rewrite Hpend in Hc. destruct Hc. }
  split; [|exact Hsame].
  unfold final_ok. apply andb_true_iff. split.
  - apply conflict_free_spec. intros a b Hin [Ha Hb]. apply (Hinc a b Hin).
    split; eapply Reach_mono; try (apply (Adm_sub s s' Hnd' Hi)); apply (closure_sound _ _ _ Hcl); assumption.
  - rewrite (cons_okb_lookup g s s'); [exact Hcons|]. apply same_lookup; assumption.
Qed.

(* completeness: every admissible assignment that extends the prefix is enumerated (up to the order of its pairs) *)
Theorem enum_complete g : forall fuel s l s',
  Pre g s -> Adm g s' -> incl s s' -> enum g fuel s = Some l -> exists s'', In s'' l /\ same s'' s'.
Proof.
  induction fuel as [|f IH]; intros s l s' HP HA Hi H; simpl in H;
    destruct (closure g s) as [W|] eqn:Hcl; try discriminate;
    destruct (pending g s W) as [|c rest] eqn:Hpend; try discriminate.
  - inversion H; subst. destruct (leaf_complete g s s' W HP HA Hi Hcl Hpend) as [Hf Hs].
    rewrite Hf. exists s. split; [left; reflexivity|exact Hs].
  - inversion H; subst. destruct (leaf_complete g s s' W HP HA Hi Hcl Hpend) as [Hf Hs].
    rewrite Hf. exists s. split; [left; reflexivity|exact Hs].
  - assert (Hc : In c (pending g s W)) by (rewrite Hpend; left; reflexivity).
    pose proof Hc as Hc'. apply pending_spec in Hc'. destruct Hc' as [HcW [Hsel Hnin]].
    destruct HA as [Hnd' [Hdom [Hopt [Hinc Hcons]]]].
    assert (Hr' : Reach g s' c).
    { eapply Reach_mono; [apply (Adm_sub s s' Hnd' Hi)|]. apply (closure_sound _ _ _ Hcl), HcW. }
    assert (Hcd : In c (map fst s')) by (apply Hdom; auto).
    apply in_map_iff in Hcd. destruct Hcd as [[c' o] [E Hin]]. simpl in E; subst c'.
    pose proof (Hopt _ _ Hin) as Ho.
    assert (Hmem : In (enum g f (s ++ [(c, o)])) (map (fun o => enum g f (s ++ [(c, o)])) (sel_opts g c))).
    { apply in_map_iff. exists o; auto. }
    destruct (concat_opt_all _ _ H _ Hmem) as [lo Hlo].
    assert (HP' : Pre g (s ++ [(c, o)])) by (eapply Pre_step; eauto).
    assert (Hi' : incl (s ++ [(c, o)]) s').
    { intros p Hp. apply in_app_or in Hp. destruct Hp as [Hp|[<-|[]]]; [apply Hi, Hp|exact Hin]. }
    destruct (IH _ _ s' HP' (conj Hnd' (conj Hdom (conj Hopt (conj Hinc Hcons)))) Hi' Hlo) as [s'' [Hs1 Hs2]].
    exists s''. split; [|exact Hs2].
    apply (concat_opt_in _ _ H). exists lo. split; [rewrite <- Hlo; exact Hmem|exact Hs1].
Qed.

(* one each: no two enumerated assignments are the same set of pairs *)
Definition opts_nodup (g : dsg) : Prop := forall c, NoDup (sel_opts g c).

Lemma ordpairs_app {A} (R : A -> A -> Prop) l1 l2 :
  ForallOrdPairs R l1 -> ForallOrdPairs R l2 -> (forall a b, In a l1 -> In b l2 -> R a b) -> ForallOrdPairs R (l1 ++ l2).
Proof.
  induction 1 as [|a l1 Ha H1 IH]; simpl; intros H2 Hx; [exact H2|].
  constructor.
  - apply Forall_app. split; [exact Ha|]. apply Forall_forall. intros b Hb. apply Hx; [left; reflexivity|exact Hb].
  - apply IH; [exact H2|]. intros a' b Ha' Hb. apply Hx; [right; exact Ha'|exact Hb].
Qed.

Theorem enum_distinct g : opts_nodup g -> forall fuel s l,
  Pre g s -> enum g fuel s = Some l -> ForallOrdPairs (fun a b => ~ same a b) l.
Proof.
  intros Hopts. induction fuel as [|f IH]; intros s l HP H; simpl in H;
    destruct (closure g s) as [W|] eqn:Hcl; try discriminate;
    destruct (pending g s W) as [|c rest] eqn:Hpend; try discriminate.
  - inversion H; subst. destruct (final_ok g s W); repeat constructor.
  - inversion H; subst. destruct (final_ok g s W); repeat constructor.
  - assert (Hc : In c (pending g s W)) by (rewrite Hpend; left; reflexivity).
    assert (G : forall opts l, NoDup opts -> incl opts (sel_opts g c) ->
                concat_opt (map (fun o => enum g f (s ++ [(c, o)])) opts) = Some l ->
                ForallOrdPairs (fun a b => ~ same a b) l /\
                (forall a, In a l -> exists o, In o opts /\ In (c, o) a /\ NoDup (map fst a))).
    { induction opts as [|o opts IHo]; simpl; intros l0 Hnd Hincl Hco.
      - inversion Hco; subst. split; [constructor|intros a []].
      - destruct (enum g f (s ++ [(c, o)])) as [lo|] eqn:Elo; [|discriminate].
        destruct (concat_opt (map (fun o0 => enum g f (s ++ [(c, o0)])) opts)) as [r|] eqn:Er; [|discriminate].
        inversion Hco; subst. inversion Hnd as [|? ? Hnin Hnd']; subst.
        assert (HP' : Pre g (s ++ [(c, o)])).
        { eapply Pre_step; eauto. apply Hincl. left; reflexivity. }
        destruct (IHo r Hnd' (fun x Hx => Hincl x (or_intror Hx)) eq_refl) as [Hr1 Hr2].
        assert (Hlo : forall a, In a lo -> In (c, o) a /\ NoDup (map fst a)).
        { intros a Ha. destruct (enum_sound g f _ _ HP' Elo a Ha) as [[Hnda _] Hia]. split; [|exact Hnda].
          apply Hia, in_or_app. right; left; reflexivity. }
        split.
        + apply ordpairs_app; [apply (IH _ _ HP' Elo)|exact Hr1|].
          intros a b Ha Hb Hsame. destruct (Hlo a Ha) as [Hca Hnda].
          destruct (Hr2 b Hb) as [o' [Ho' [Hcb Hndb]]].
          apply Hsame in Hca. pose proof (in_lookup _ _ _ Hndb Hca). pose proof (in_lookup _ _ _ Hndb Hcb).
          assert (o = o') by congruence. subst. contradiction.
        + intros a Ha. apply in_app_or in Ha. destruct Ha as [Ha|Ha].
          * exists o. destruct (Hlo a Ha). split; [left; reflexivity|split; assumption].
          * destruct (Hr2 a Ha) as [o' [H1 [H2 H3]]]. exists o'. split; [right; exact H1|split; assumption]. }
    apply (G (sel_opts g c) l (Hopts c) (incl_refl _) H).
Qed.

(* top level *)
Theorem enum_adm_sound g l : enum_adm g = Some l -> forall s, In s l -> Adm g s.
Proof. intros H s Hs. apply (enum_sound g _ [] l (Pre_nil g) H s Hs). Qed.

Theorem enum_adm_complete g l : enum_adm g = Some l -> forall s, Adm g s -> exists s', In s' l /\ same s' s.
Proof. intros H s Hs. apply (enum_complete g _ [] l s (Pre_nil g) Hs (incl_nil_l _) H). Qed.

Theorem enum_adm_distinct g l : opts_nodup g -> enum_adm g = Some l -> ForallOrdPairs (fun a b => ~ same a b) l.
Proof. intros Ho H. apply (enum_distinct g Ho _ [] l (Pre_nil g) H). Qed.

(* a legal resolution run: every choice is taken when it is active (reachable under the pairs taken so far),
   once, with one of its options *)
Inductive Run (g : dsg) : assign -> Prop :=
| Run_nil : Run g []
| Run_step s c o : Run g s -> Reach g s c -> is_sel g c = true -> ~ In c (map fst s) -> In o (sel_opts g c) ->
                   Run g (s ++ [(c, o)]).

Lemma Run_Pre g s : Run g s -> Pre g s.
Proof.
  induction 1 as [|s c o Hr [Hnd Hp] Hc Hsel Hnin Ho]; [apply Pre_nil|]. split.
  - rewrite map_app. simpl. apply NoDup_app_snoc; assumption.
  - intros c' o' Hin. apply in_app_or in Hin. destruct Hin as [Hin|[E|[]]].
    + destruct (Hp _ _ Hin) as [H1 [H2 H3]]. repeat split; auto. eapply Reach_mono; [apply sub_app|exact H2].
    + inversion E; subst. repeat split; auto. eapply Reach_mono; [apply sub_app|exact Hc].
Qed.

(* Resolving in ANY legal order until no active choice is left yields an instance that is exactly the closure, has all
   start nodes, no choice node, and — if free of incompatible pairs and constraint violations — is admissible *)
Theorem run_final_is_closure g s W I :
  Run g s -> closure g s = Some W -> pending g s W = [] -> inst_nodes g s = Some I ->
  (forall n, In n I <-> (Reach g s n /\ is_choice g n = false)) /\
  (forall n, In n (start g) -> is_choice g n = false -> In n I) /\
  (forall n, In n I -> is_choice g n = false) /\
  (final_ok g s W = true -> Adm g s).
Proof.
  intros Hrun Hcl Hpend HI. pose proof (inst_nodes_spec g s I HI) as Hspec.
  split; [exact Hspec|]. split; [|split].
  - intros n Hn Hc. apply Hspec. split; [apply R_start, Hn|exact Hc].
  - intros n Hn. apply Hspec in Hn. tauto.
  - intros Hf. eapply leaf_adm; eauto. apply Run_Pre, Hrun.
Qed.

(* two legal runs that took the same pairs (in different orders) denote the same instance *)
Theorem run_order_independent g s s' :
  Run g s -> Run g s' -> same s s' -> forall n, Reach g s n <-> Reach g s' n.
Proof.
  intros H1 H2 Hs. apply Reach_order_independent; [apply (Run_Pre g s H1)|apply (Run_Pre g s' H2)|exact Hs].
Qed.

(* every admissible assignment can be taken in some legal order: the enumeration's own order *)
Lemma enum_runs g : forall fuel s l, Run g s -> enum g fuel s = Some l -> forall s', In s' l -> Run g s'.
Proof.
  induction fuel as [|f IH]; intros s l HR H s' Hin; simpl in H;
    destruct (closure g s) as [W|] eqn:Hcl; try discriminate;
    destruct (pending g s W) as [|c rest] eqn:Hpend; try discriminate.
  - inversion H; subst. destruct (final_ok g s W); [destruct Hin as [<-|[]]; exact HR|destruct Hin].
  - inversion H; subst. destruct (final_ok g s W); [destruct Hin as [<-|[]]; exact HR|destruct Hin].
  - apply (concat_opt_in _ _ H) in Hin. destruct Hin as [y [Hy Hin]].
    apply in_map_iff in Hy. destruct Hy as [o [Ho Hoin]].
    assert (Hc : In c (pending g s W)) by (rewrite Hpend; left; reflexivity).
    apply pending_spec in Hc. destruct Hc as [HcW [Hsel Hnin]].
    eapply IH; [|exact Ho|exact Hin].
    apply Run_step; auto. apply (closure_sound _ _ _ Hcl), HcW.
Qed.

Theorem adm_has_run g l : enum_adm g = Some l -> forall s, Adm g s -> exists s', Run g s' /\ same s' s.
Proof.
  intros H s Hs. destruct (enum_adm_complete g l H s Hs) as [s' [H1 H2]].
  exists s'. split; [|exact H2]. apply (enum_runs g _ [] l (Run_nil g) H s' H1).
Qed.

(* an option that necessarily confirms an incompatible pair is in no admissible assignment *)
Theorem doomed_option g s c o a b :
  In (a, b) (incompat g) -> Reach g (s ++ [(c, o)]) a -> Reach g (s ++ [(c, o)]) b ->
  forall s', Adm g s' -> incl (s ++ [(c, o)]) s' -> False.
Proof.
  intros Hin Ha Hb s' [Hnd [_ [_ [Hinc _]]]] Hi. apply (Hinc a b Hin).
  split; eapply Reach_mono; try (apply (Adm_sub _ s' Hnd Hi)); assumption.
Qed.

(* permanent nodes (closure with no choice taken) are in every admissible architecture *)
Theorem permanent_everywhere g P : permanent g = Some P ->
  forall n, In n P -> forall s, Reach g s n.
Proof.
  intros H n Hn s. eapply Reach_mono; [|apply (closure_sound _ _ _ H), Hn]. intros c o Hl. discriminate.
Qed.

Theorem inst_no_conflict g s I : Adm g s -> inst_nodes g s = Some I ->
  forall a b, In (a, b) (incompat g) -> ~ (In a I /\ In b I).
Proof.
  intros [_ [_ [_ [Hinc _]]]] HI a b Hin [Ha Hb].
  apply (inst_nodes_spec g s I HI) in Ha, Hb. apply (Hinc a b Hin). tauto.
Qed.

Theorem no_over_pruning g l : enum_adm g = Some l ->
  forall s, Adm g s -> (exists s', In s' l /\ same s' s) /\ (exists s', Run g s' /\ same s' s).
Proof.
  intros H s Hs. split; [apply (enum_adm_complete g l H s Hs)|apply (adm_has_run g l H s Hs)].
Qed.

Theorem infeasible_iff g l : enum_adm g = Some l -> (l = [] <-> forall s, ~ Adm g s).
Proof.
  intros H. split.
  - intros -> s Hs. destruct (enum_adm_complete g [] H s Hs) as [s' [[] _]].
  - intros Hn. destruct l as [|s t]; [reflexivity|]. exfalso.
    apply (Hn s). apply (enum_adm_sound g _ H). left; reflexivity.
Qed.
