(* DesVar.v — design-variable values: DesignVariableNode.correct_value, DSG.set_des_var_value (with LINKED
   propagation; the linked value is clamped: repaired code, fix F4), the int()/float() conversion of decode. *)
From DSG Require Import Base.
From Coq Require Import QArith.
Open Scope Q_scope.

Inductive dom := Disc (n : nat) | Cont (lo hi : Q).

Definition Qltb (x y : Q) : bool := negb (Qle_bool y x).

(* generic clamp over a boolean order: `if v < lo then lo elif v > hi then hi else v` *)
Definition clamp {T} (ltb : T -> T -> bool) (lo hi v : T) : T :=
  if ltb v lo then lo else if ltb hi v then hi else v.

Definition clampQ := clamp Qltb.
(* discrete: `if v < 0: 0 elif v >= n: n-1` *)
Definition clampZ (n : nat) (v : Z) : Z :=
  if (v <? 0)%Z then 0%Z else if (Z.of_nat n <=? v)%Z then (Z.of_nat n - 1)%Z else v.

(* Python int() of a real: truncation toward zero *)
Definition truncQ (q : Q) : Z := Z.quot (Qnum q) (Zpos (Qden q)).

(* value stored for a node of domain d when handed v (decode applies int() first for discrete nodes) *)
Definition correct (d : dom) (v : Q) : Q :=
  match d with
  | Disc n => inject_Z (clampZ n (truncQ v))
  | Cont lo hi => clampQ lo hi v
  end.

Definition in_dom (d : dom) (v : Q) : bool :=
  match d with
  | Disc n => Qle_bool 0 v && Qltb v (inject_Z (Z.of_nat n)) && (Z.rem (Qnum v) (Zpos (Qden v)) =? 0)%Z
  | Cont lo hi => Qle_bool lo v && Qle_bool v hi
  end.

(* raw value mapped onto a linked variable: same index, or same relative position within the bounds *)
Definition linked_raw (src tgt : dom) (stored : Q) : option Q :=
  match src, tgt with
  | Disc _, Disc _ => Some stored
  | Cont lo hi, Cont lo' hi' => Some (lo' + ((stored - lo) / (hi - lo)) * (hi' - lo'))
  | _, _ => None
  end.

(* set_des_var_value on node i of a LINKED group (singleton group = unconstrained node):
   list of (position in group, stored value); None = ValueError (mixed discrete/continuous) *)
Fixpoint set_linked (src : dom) (stored : Q) (i : nat) (k : nat) (group : list dom) : option (list (nat * Q)) :=
  match group with
  | [] => Some []
  | d :: t =>
      match set_linked src stored i (S k) t with
      | None => None
      | Some rest =>
          if (k =? i)%nat then Some ((k, stored) :: rest)
          else match linked_raw src d stored with
               | None => None
               | Some raw => Some ((k, correct d raw) :: rest)
               end
      end
  end.

Definition set_value (group : list dom) (i : nat) (v : Q) : option (list (nat * Q)) :=
  match nth_error group i with
  | None => None
  | Some d => let stored := correct d v in set_linked d stored i 0 group
  end.

(* canonical value reported for an inactive variable: 0 | mid-bounds *)
Definition canon (d : dom) : Q := match d with Disc _ => 0 | Cont lo hi => (lo + hi) / 2 end.
