(* Sel.v — semantics of selection choices.
   S level: Reach (derivation closure under an option assignment), Adm (admissible assignment).
   M level: closure (bounded iteration with a built-in fixpoint check), enum_adm (depth-first enumeration). *)
From DSG Require Import Base Constraint Dsg.
Open Scope N_scope.

(* ---------- S: declarative ---------- *)
Inductive Reach (g : dsg) (s : assign) : node -> Prop :=
| R_start n : In n (start g) -> Reach g s n
| R_edge m n : Reach g s m -> is_choice g m = false -> In n (dc_succ g m) -> Reach g s n
| R_sel c o : Reach g s c -> is_sel g c = true -> lookup s c = Some o -> In o (sel_opts g c) -> Reach g s o.

(* index row of a constraint under s: position of the chosen option in the captured list, -1 if the choice is not taken *)
Definition con_row (s : assign) (cn : list (node * list node)) : list Z :=
  map (fun p => match lookup s (fst p) with
                | Some o => match index_of o (snd p) with Some i => Z.of_nat i | None => (-2)%Z end
                | None => (-1)%Z end) cn.

Definition cons_okb (g : dsg) (s : assign) : bool :=
  forallb (fun c : ccon => valid_row (fst c) false (con_row s (snd c)) &&
                           negb (memZ (-2)%Z (con_row s (snd c)))) (cons g).

Definition Adm (g : dsg) (s : assign) : Prop :=
  NoDup (map fst s) /\
  (forall c, In c (map fst s) <-> (is_sel g c = true /\ Reach g s c)) /\
  (forall c o, In (c, o) s -> In o (sel_opts g c)) /\
  (forall a b, In (a, b) (incompat g) -> ~ (Reach g s a /\ Reach g s b)) /\
  cons_okb g s = true.

(* ---------- M: executable ---------- *)
Definition succs (g : dsg) (s : assign) (m : node) : list node :=
  if is_sel g m then
    match lookup s m with Some o => if memN o (sel_opts g m) then [o] else [] | None => [] end
  else if is_conn g m then [] else dc_succ g m.

Fixpoint iter_close (g : dsg) (s : assign) (fuel : nat) (W : list node) : option (list node) :=
  let new := filter (fun n => negb (memN n W)) (dedupN (flat_map (succs g s) W)) in
  match new with
  | [] => Some W
  | _ => match fuel with O => None | S f => iter_close g s f (W ++ new) end
  end.

Definition closure (g : dsg) (s : assign) : option (list node) :=
  iter_close g s (length (nodes g) + 1) (dedupN (start g)).

(* nodes of the architecture instance: everything reached except choice nodes *)
Definition inst_of (g : dsg) (W : list node) : list node := filter (fun n => negb (is_choice g n)) W.
Definition inst_nodes (g : dsg) (s : assign) : option (list node) := option_map (inst_of g) (closure g s).

Definition pending (g : dsg) (s : assign) (W : list node) : list node :=
  filter (fun n => is_sel g n && negb (assigned s n)) W.

Definition conflict_free (g : dsg) (W : list node) : bool :=
  forallb (fun p => negb (memN (fst p) W && memN (snd p) W)) (incompat g).

Definition final_ok (g : dsg) (s : assign) (W : list node) : bool := conflict_free g W && cons_okb g s.

Fixpoint concat_opt {A} (l : list (option (list A))) : option (list A) :=
  match l with
  | [] => Some []
  | None :: _ => None
  | Some x :: t => match concat_opt t with Some r => Some (x ++ r) | None => None end
  end.

Fixpoint enum (g : dsg) (fuel : nat) (s : assign) : option (list assign) :=
  match closure g s with
  | None => None
  | Some W =>
      match pending g s W with
      | [] => Some (if final_ok g s W then [s] else [])
      | c :: _ =>
          match fuel with
          | O => None
          | S f => concat_opt (map (fun o => enum g f (s ++ [(c, o)])) (sel_opts g c))
          end
      end
  end.

Definition enum_adm (g : dsg) : option (list assign) := enum g (length (nodes g) + 1) [].

(* boolean admissibility of a given assignment (used by the harness to classify arbitrary assignments) *)
Definition admb (g : dsg) (s : assign) : option bool :=
  match closure g s with
  | None => None
  | Some W =>
      Some (nodupN (map fst s)
            && forallb (fun p => is_sel g (fst p) && memN (fst p) W && memN (snd p) (sel_opts g (fst p))) s
            && match pending g s W with [] => true | _ => false end
            && final_ok g s W)
  end.

(* permanent nodes = closure with no choice taken (GraphProcessor._get_permanent_nodes) *)
Definition permanent (g : dsg) : option (list node) := closure g [].
