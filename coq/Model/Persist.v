(* Persist.v — design space graphs as persistent values (DSG.copy / get_for_apply_selection_choice /
   get_for_apply_connection_choice / constrain_choices on a copy / GraphProcessor.get_graph): a heap of immutable graph
   values to which every operation appends a value derived from an existing one; and, next to it, the mechanism the
   implementation uses for grouping connectors -- one mutable cell per grouping node, shared by every graph and
   overwritten by each derivation (adsg.py:57,462-465; adsg_nodes.py:282-298) -- with the two ways of reading it. *)
From DSG Require Import Base Dsg Matrix ConnChoice.
Local Open Scope nat_scope.

Section Heap.
  Variable V : Type.

  (* Derive: a new value from object i (copy is Derive i (fun v => v)).  Update: the one kind of operation that is meant to
     change an object -- storing a value on it (set_des_var_value, set_metric_value) -- changes object i itself *)
  Inductive pop := Derive (i : nat) (f : V -> V) | Update (i : nat) (f : V -> V).

  Fixpoint replace_nth (h : list V) (i : nat) (f : V -> V) : list V :=
    match h, i with
    | [], _ => []
    | v :: t, O => f v :: t
    | v :: t, S k => v :: replace_nth t k f
    end.

  Definition pstep (h : list V) (o : pop) : list V :=
    match o with
    | Derive i f => match nth_error h i with Some v => h ++ [f v] | None => h end
    | Update i f => replace_nth h i f
    end.

  Definition targets (o : pop) (i : nat) : bool := match o with Update j _ => j =? i | Derive _ _ => false end.

  Definition prun (h : list V) (ops : list pop) : list V := fold_left pstep ops h.
End Heap.

(* for the driver: values are opaque identifiers of observations, an operation names its parent and the new value *)
Definition prun_ids (h : list N) (ops : list (bool * (nat * N))) : list N :=
  prun N h (map (fun p : bool * (nat * N) =>
                   if fst p then Update N (fst (snd p)) (fun _ : N => snd (snd p))
                   else Derive N (fst (snd p)) (fun _ : N => snd (snd p))) ops).

(* ---------- grouping connectors: the shared cell ---------- *)
Section Cell.
  Variables (specs : list (node * cnode)) (e : centry).

  (* a graph is represented by its node set; the state is the heap of graphs plus the cell of the grouping node *)
  Record cstate := { cs_heap : list (list node); cs_cell : cnode }.

  (* every constructed graph writes the aggregated degree of ITS members into the cell (DSG.__init__) *)
  Definition cderive (st : cstate) (i : nat) (f : list node -> list node) : cstate :=
    match nth_error (cs_heap st) i with
    | Some W => {| cs_heap := cs_heap st ++ [f W]; cs_cell := entry_spec specs (f W) e |}
    | None => st
    end.

  (* reading the degree for graph i: straight from the cell (get_unconnected_connectors before 04fe5a0) ... *)
  Definition read_shared (st : cstate) (i : nat) : cnode := cs_cell st.
  (* ... or after refreshing the cell for graph i (ConnectionChoiceNode._get_assign_nodes; DSG.feasible since 04fe5a0) *)
  Definition read_refreshed (st : cstate) (i : nat) : option cnode :=
    option_map (fun W => entry_spec specs W e) (nth_error (cs_heap st) i).
End Cell.
