(* ConnChoice.v — connection choices at graph level: which connectors exist in an instance, aggregated degree of grouping
   connectors, the resulting matrix settings, the valid connection edge sets. *)
From DSG Require Import Base Dsg Matrix.
Open Scope N_scope.

(* an end of a connection choice: a connector, or a grouping node with its member connectors *)
Inductive centry := Single (n : node) | Group (g : node) (members : list node).
Definition top (e : centry) : node := match e with Single n => n | Group g _ => g end.

Record cchoice := { cc_id : node; cc_src : list centry; cc_tgt : list centry; cc_excl : list (node * node) }.

Definition spec_of (specs : list (node * cnode)) (n : node) : cnode :=
  match find (fun p => fst p =? n) specs with
  | Some p => snd p
  | None => {| c_list := Some []; c_min := 0; c_rep := false |}
  end.

(* all sums of one element per list *)
Fixpoint sums (ls : list (list nat)) : list nat :=
  match ls with
  | [] => [0%nat]
  | l :: t => flat_map (fun x => map (Nat.add x) (sums t)) l
  end.

Fixpoint dedup_nat (l : list nat) : list nat :=
  match l with [] => [] | x :: t => if memn x t then dedup_nat t else x :: dedup_nat t end.

Definition list_min (l : list nat) : nat := match l with [] => 0%nat | x :: t => fold_right Nat.min x t end.

(* ConnectorDegreeGroupingNode.get_combined_deg + get_repeated_allowed over the members that exist *)
Definition combined (ms : list cnode) : cnode :=
  let rep := existsb c_rep ms in
  if existsb (fun m => match c_list m with None => true | Some _ => false end) ms then
    {| c_list := None;
       c_min := sumn (map (fun m => match c_list m with None => c_min m | Some l => list_min l end) ms);
       c_rep := rep |}
  else
    {| c_list := Some (dedup_nat (sums (map (fun m => match c_list m with Some l => l | None => [] end) ms)));
       c_min := 0%nat; c_rep := rep |}.

Definition entry_spec (specs : list (node * cnode)) (I : list node) (e : centry) : cnode :=
  match e with
  | Single n => spec_of specs n
  | Group _ ms => combined (map (spec_of specs) (filter (fun m => memN m I) ms))
  end.

Definition present (I : list node) (es : list centry) : list centry := filter (fun e => memN (top e) I) es.

Fixpoint pos_of (n : node) (l : list node) : option nat :=
  match l with [] => None | x :: t => if x =? n then Some 0%nat else option_map S (pos_of n t) end.

(* matrix settings of a connection choice in an instance with nodes I; plus the ids that rows and columns stand for *)
Definition settings_for (specs : list (node * cnode)) (I : list node) (cc : cchoice) : settings * list node * list node :=
  let src := present I (cc_src cc) in
  let tgt := present I (cc_tgt cc) in
  let sids := map top src in
  let tids := map top tgt in
  let excl := flat_map (fun p => match pos_of (fst p) sids, pos_of (snd p) tids with
                                 | Some i, Some j => [(i, j)] | _, _ => [] end) (cc_excl cc) in
  ({| s_src := map (entry_spec specs I) src; s_tgt := map (entry_spec specs I) tgt; s_excl := excl; s_par := None |},
   sids, tids).

Definition no_existence (s : settings) : existence :=
  {| x_src := map (fun _ => None) (s_src s); x_tgt := map (fun _ => None) (s_tgt s) |}.

(* edges (with multiplicity) that a matrix stands for *)
Definition edges_of (sids tids : list node) (M : matrix) : list (node * node) :=
  flat_map (fun p => let i := fst p in
     flat_map (fun q => repeat (nth i sids 0, nth (fst q) tids 0) (snd q)) (enumerate (snd p))) (enumerate M).

Definition conn_sets (specs : list (node * cnode)) (I : list node) (cc : cchoice) : list (list (node * node)) :=
  let '(s, sids, tids) := settings_for specs I cc in
  map (edges_of sids tids) (enum_M s (no_existence s)).

(* validity of a proposed edge list (validate_conn_edges): every edge joins a present source to a present target, and the
   matrix it stands for is valid *)
Definition matrix_of (sids tids : list node) (es : list (node * node)) : matrix :=
  map (fun s => map (fun t => length (filter (fun e => (fst e =? s) && (snd e =? t)) es)) tids) sids.

Definition edges_valid (specs : list (node * cnode)) (I : list node) (cc : cchoice) (es : list (node * node)) : bool :=
  let '(s, sids, tids) := settings_for specs I cc in
  forallb (fun e => memN (fst e) sids && memN (snd e) tids) es &&
  validate s (no_existence s) (matrix_of sids tids es).
