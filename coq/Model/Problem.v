(* Problem.v — the optimisation problem seen through design vectors (GraphProcessor): encoding description, the set of
   valid vectors (rows_of), counts, and the relation a decode result must satisfy (decode_check).
   Selection choices and design-variable nodes; connection choices are layered on top in ProblemConn.v. *)
From DSG Require Import Base Constraint Dsg Sel DesVar.
From Coq Require Import QArith.
Open Scope N_scope.

(* one design variable: a selection choice with the option list the encoder declared, or a design-variable node *)
Inductive var := VSel (c : node) (opts : list node) | VDv (n : node) (d : dom).
Definition encoding := list var.
(* Full: activeness and values of selection variables are checked; InstOnly: only the instance and the design-variable nodes *)
Inductive enc_kind := Full | InstOnly.

(* entry of a selection variable under assignment s: option index, -1 = choice not active, -2 = option not declared *)
Definition sel_entry (s : assign) (c : node) (opts : list node) : Z :=
  match lookup s c with
  | Some o => match index_of o opts with Some i => Z.of_nat i | None => (-2)%Z end
  | None => (-1)%Z
  end.

Definition var_entries (s : assign) (I : list node) (v : var) : list Z :=
  match v with
  | VSel c opts => [sel_entry s c opts]
  | VDv n (Disc k) => if memN n I then map Z.of_nat (range k) else [(-1)%Z]
  | VDv n (Cont _ _) => if memN n I then [0%Z] else [(-1)%Z]
  end.

(* all valid discrete vectors of one admissible assignment (entries: value, -1 = inactive) *)
Definition rows_for (E : encoding) (s : assign) (I : list node) : list (list Z) := product (map (var_entries s I) E).

Definition sel_vec (E : encoding) (s : assign) : list Z :=
  flat_map (fun v => match v with VSel c opts => [sel_entry s c opts] | VDv _ _ => [] end) E.

Definition rows_of (g : dsg) (E : encoding) : option (list (list Z)) :=
  match enum_adm g with
  | None => None
  | Some l => concat_opt (map (fun s => option_map (rows_for E s) (inst_nodes g s)) l)
  end.

Fixpoint nodupZl (l : list (list Z)) : bool :=
  match l with
  | [] => true
  | x :: t => negb (existsb (fun y => if list_eq_dec Z.eq_dec x y then true else false) t) && nodupZl t
  end.

(* the encoding is faithful: distinct admissible assignments get distinct selection vectors, and every chosen option
   is among the declared ones ("forced" choices without a variable really are determined by the others) *)
Definition enc_ok (g : dsg) (E : encoding) : option bool :=
  match enum_adm g with
  | None => None
  | Some l => Some (nodupZl (map (sel_vec E) l) && forallb (fun s => negb (memZ (-2)%Z (sel_vec E s))) l)
  end.

Definition n_opts_var (v : var) : option nat :=
  match v with VSel _ opts => Some (length opts) | VDv _ (Disc k) => Some k | VDv _ (Cont _ _) => None end.
Definition n_declared (E : encoding) : N :=
  fold_right (fun v acc => match n_opts_var v with Some k => N.of_nat k * acc | None => acc end) 1 E.
Definition n_valid (g : dsg) (E : encoding) : option N := option_map (fun r => N.of_nat (length r)) (rows_of g E).

(* a variable may be inactive in some valid design *)
Definition cond_active_at (rows : list (list Z)) (i : nat) : bool :=
  existsb (fun r => (nth i r 0%Z =? -1)%Z) rows.

(* ---------- what a decode result must satisfy ---------- *)
Fixpoint lookupQ (l : list (node * Q)) (n : node) : option Q :=
  match l with [] => None | (m, q) :: t => if m =? n then Some q else lookupQ t n end.

Definition same_set (a b : list node) : bool := subsetN a b && subsetN b a.

Definition var_ok (k : enc_kind) (s : assign) (I : list node) (dvv : list (node * Q))
           (v : var) (x x' : Q) (a : bool) : bool :=
  match v with
  | VSel c opts =>
      let e := sel_entry s c opts in
      match k with
      | InstOnly => true
      | Full =>
          (* active => the choice was reached and the value is the index of the option taken;
             inactive => canonical value (a reached choice that was resolved automatically may be reported inactive) *)
          if a then Qeq_bool x' (inject_Z e) && (0 <=? e)%Z else Qeq_bool x' 0
      end
  | VDv n d =>
      if memN n I then
        a && Qeq_bool x' (correct d x) && match lookupQ dvv n with Some q => Qeq_bool q x' | None => false end
      else negb a && Qeq_bool x' (canon d) && match lookupQ dvv n with Some _ => false | None => true end
  end.

Fixpoint vars_ok (k : enc_kind) (s : assign) (I : list node) (dvv : list (node * Q))
         (E : encoding) (x x' : list Q) (act : list bool) : bool :=
  match E, x, x', act with
  | [], [], [], [] => true
  | v :: E', xi :: xt, xi' :: xt', a :: at' => var_ok k s I dvv v xi xi' a && vars_ok k s I dvv E' xt xt' at'
  | _, _, _, _ => false
  end.

(* Some s: the admissible assignment that the result denotes; None: the result is not a valid architecture of g *)
Definition decode_witness (g : dsg) (E : encoding) (k : enc_kind) (x x' : list Q) (act : list bool)
           (inst : list node) (dvv : list (node * Q)) : option (option assign) :=
  match enum_adm g with
  | None => None
  | Some l =>
      Some (find (fun s => match inst_nodes g s with
                           | Some J => same_set J inst && vars_ok k s J dvv E x x' act
                           | None => false end) l)
  end.

(* the canonical full vector of an admissible assignment with all design-variable entries taken from x (clamped) *)
Definition canon_sel (e : Z) : Q := if (e <? 0)%Z then 0 else inject_Z e.
