(* Neighborhood.v — the order in which the fast selection-choice encoder tries design vectors
   (FastHierarchyAnalyzer._iter_neighborhood, fast.py:185-224): per variable the requested value first, then the values at
   distance 1, 2, ... (upper neighbour before lower), a fixed variable only its own value; the vectors are the cartesian
   product of these value lists with the first variable varying slowest. *)
From DSG Require Import Base.
Local Open Scope Z_scope.

(* the values at distances d, d+1, ... (k more rounds); the loop stops at the first distance that yields nothing *)
Fixpoint vals_from (n cur d : Z) (k : nat) : list Z :=
  match k with
  | O => []
  | S k' =>
      let a := if cur + d <? n then [cur + d] else [] in
      let b := if 0 <=? cur - d then [cur - d] else [] in
      match a ++ b with
      | [] => []
      | l => l ++ vals_from n cur (d + 1) k'
      end
  end.

Definition vals (n : nat) (cur : Z) (fixed : bool) : list Z :=
  cur :: if fixed then [] else vals_from (Z.of_nat n) cur 1 (n - 1).

(* one variable: number of options, requested value, fixed flag *)
Definition nvar := (nat * Z * bool)%type.

Definition neighborhood (vs : list nvar) : list (list Z) :=
  match vs with
  | [] => [[]]
  | _ => product (map (fun v => vals (fst (fst v)) (snd (fst v)) (snd v)) vs)
  end.

(* the search of get_graph: the first vector of the neighbourhood that is feasible *)
Definition first_feasible (feas : list Z -> bool) (vs : list nvar) : option (list Z) := find feas (neighborhood vs).
