(* Neighborhood.v — the order in which the fast selection-choice encoder tries design vectors
   (FastHierarchyAnalyzer._iter_neighborhood, fast.py:185-224): per variable the requested value first, then the values at
   distance 1, 2, ... (upper neighbour before lower), a fixed variable only its own value; the vectors are the cartesian
   product of these value lists with the first variable varying slowest. *)
From DSG Require Import Base.
Local Open Scope Z_scope.

(* the values at distances d, d+1, ... (k more rounds); the loop stops at the first distance that yields nothing *)
Fixpoint vals_from (n cur d : Z) (k : nat) : list Z :=
  match k with
  | O => []
  | S k' =>
      let a := if cur + d <? n then [cur + d] else [] in
      let b := if 0 <=? cur - d then [cur - d] else [] in
      match a ++ b with
      | [] => []
      | l => l ++ vals_from n cur (d + 1) k'
      end
  end.

Definition vals (n : nat) (cur : Z) (fixed : bool) : list Z :=
  cur :: if fixed then [] else vals_from (Z.of_nat n) cur 1 (n - 1).

(* one variable: number of options, requested value, fixed flag *)
Definition nvar := (nat * Z * bool)%type.

Definition neighborhood (vs : list nvar) : list (list Z) :=
  match vs with
  | [] => [[]]
  | _ => product (map (fun v => vals (fst (fst v)) (snd (fst v)) (snd v)) vs)
  end.

(* the search of get_graph: the first vector of the neighbourhood that is feasible *)
Definition first_feasible (feas : list Z -> bool) (vs : list nvar) : option (list Z) := find feas (neighborhood vs).

(* ---------- the imputation cache of the fast encoder (fast.py get_graph) ---------- *)
(* a request: the variables with their requested values and fixed flags; the cache maps requests to search results *)
Definition request := list nvar.
Definition nvar_eqb (a b : nvar) : bool :=
  Nat.eqb (fst (fst a)) (fst (fst b)) && Z.eqb (snd (fst a)) (snd (fst b)) && Bool.eqb (snd a) (snd b).
Fixpoint req_eqb (a b : request) : bool :=
  match a, b with [], [] => true | x :: a', y :: b' => nvar_eqb x y && req_eqb a' b' | _, _ => false end.

Definition icache := list (request * option (list Z)).
Fixpoint ilookup (c : icache) (r : request) : option (option (list Z)) :=
  match c with [] => None | (k, v) :: t => if req_eqb k r then Some v else ilookup t r end.

(* since 9b483be: only the request itself (values and fixed flags) is a key *)
Definition decode_cached (feas : list Z -> bool) (c : icache) (r : request) : icache * option (list Z) :=
  match ilookup c r with
  | Some v => (c, v)
  | None => let v := first_feasible feas r in ((r, v) :: c, v)
  end.

(* as found: the result is also stored under every vector tried on the way, as a request with the same option counts and
   fixed flags but that vector as requested values; and the flags were not part of the key (modelled by the key being
   rebuilt from the current request's flags) *)
Definition with_values (r : request) (x : list Z) : request :=
  map (fun p => (fst (fst (fst p)), snd p, snd (fst p))) (combine r x).
Fixpoint tried_until (feas : list Z -> bool) (l : list (list Z)) : list (list Z) :=
  match l with [] => [] | x :: t => if feas x then [x] else x :: tried_until feas t end.
Definition decode_cached_all (feas : list Z -> bool) (c : icache) (r : request) : icache * option (list Z) :=
  match ilookup c r with
  | Some v => (c, v)
  | None => let v := first_feasible feas r in
            (map (fun x => (with_values r x, v)) (tried_until feas (neighborhood r)) ++ c, v)
  end.
