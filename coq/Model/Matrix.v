(* Matrix.v — connection matrices: settings, existence patterns, the declarative ValidM, and an executable
   enumerator / validator / counter (AggregateAssignmentMatrixGenerator: get_agg_matrix, validate_matrix, count). *)
From DSG Require Import Base.

(* a connector as seen by the matrix generator: an explicit list of allowed degrees, or a lower bound, written lo..inf *)
Record cnode := { c_list : option (list nat); c_min : nat; c_rep : bool }.
Record settings := { s_src : list cnode; s_tgt : list cnode; s_excl : list (nat * nat); s_par : option nat }.
(* existence pattern: per source / target index an optional override of the allowed degrees ([0] = node absent) *)
Record existence := { x_src : list (option (list nat)); x_tgt : list (option (list nat)) }.

Definition matrix := list (list nat).

Definition list_max (l : list nat) : nat := fold_right Nat.max 0 l.

(* effective node under an override *)
Definition eff (n : cnode) (ov : option (list nat)) : cnode :=
  match ov with Some l => {| c_list := Some l; c_min := 0; c_rep := c_rep n |} | None => n end.

Definition nth_ov (ovs : list (option (list nat))) (i : nat) : option (list nat) := nth i ovs None.

Definition eff_nodes (ns : list cnode) (ovs : list (option (list nat))) : list cnode :=
  map (fun p => eff (snd p) (nth_ov ovs (fst p))) (enumerate ns).

(* a node that cannot take any connection is dropped from the effective problem *)
Definition dropped (n : cnode) : bool :=
  match c_list n with
  | Some l => forallb (Nat.eqb 0) l
  | None => false
  end.

(* parallel-connection limit: explicit (at least 1) or max(2, largest finite degree of the effective, non-dropped nodes) *)
Definition par_limit (s : settings) (src tgt : list cnode) : nat :=
  match s_par s with
  | Some p => Nat.max 1 p
  | None =>
      fold_right Nat.max 2
        (flat_map (fun n => if dropped n then [] else match c_list n with Some l => [list_max l] | None => [] end)
                  (src ++ tgt))
  end.

Definition cap_by (n : cnode) (m : nat) : nat := match c_list n with Some l => Nat.min m (list_max l) | None => m end.

Definition pair_max (s : settings) (src tgt : list cnode) (P : nat) (i j : nat) : nat :=
  match nth_error src i, nth_error tgt j with
  | Some a, Some b =>
      if dropped a || dropped b || existsb (fun p => (fst p =? i) && (snd p =? j)) (s_excl s) then 0
      else let m := cap_by b (cap_by a P) in
           if c_rep a && c_rep b then m else Nat.min m 1
  | _, _ => 0
  end.

Definition deg_ok (n : cnode) (d : nat) : bool :=
  match c_list n with Some l => memn d l | None => c_min n <=? d end.

Definition rowsum (r : list nat) : nat := sumn r.
Definition colsum (M : matrix) (j : nat) : nat := sumn (map (fun r => nth j r 0) M).

(* ---------- S: the valid connection matrices of settings s under existence pattern e ---------- *)
Definition ValidM (s : settings) (e : existence) (M : matrix) : Prop :=
  let src := eff_nodes (s_src s) (x_src e) in
  let tgt := eff_nodes (s_tgt s) (x_tgt e) in
  let P := par_limit s src tgt in
  length M = length src /\
  Forall (fun r => length r = length tgt) M /\
  (forall i j, i < length src -> j < length tgt -> nth j (nth i M []) 0 <= pair_max s src tgt P i j) /\
  (forall i a, nth_error src i = Some a -> deg_ok a (rowsum (nth i M [])) = true) /\
  (forall j b, nth_error tgt j = Some b -> deg_ok b (colsum M j) = true).

(* ---------- M: executable ---------- *)
(* all vectors (m_0..m_{k-1}) with m_j <= caps_j *)
Definition bounded_vectors (caps : list nat) : list (list nat) := product (map (fun c => seq 0 (S c)) caps).

Definition row_options (s : settings) (src tgt : list cnode) (P : nat) (i : nat) (a : cnode) : list (list nat) :=
  filter (fun r => deg_ok a (rowsum r))
         (bounded_vectors (map (fun j => pair_max s src tgt P i j) (seq 0 (length tgt)))).

Definition cols_ok (tgt : list cnode) (M : matrix) : bool :=
  forallb (fun p => deg_ok (snd p) (colsum M (fst p))) (enumerate tgt).

Definition enum_M (s : settings) (e : existence) : list matrix :=
  let src := eff_nodes (s_src s) (x_src e) in
  let tgt := eff_nodes (s_tgt s) (x_tgt e) in
  let P := par_limit s src tgt in
  filter (cols_ok tgt) (product (map (fun p => row_options s src tgt P (fst p) (snd p)) (enumerate src))).

Definition validate (s : settings) (e : existence) (M : matrix) : bool :=
  let src := eff_nodes (s_src s) (x_src e) in
  let tgt := eff_nodes (s_tgt s) (x_tgt e) in
  let P := par_limit s src tgt in
  (length M =? length src) && forallb (fun r => length r =? length tgt) M &&
  forallb (fun i => forallb (fun j => nth j (nth i M []) 0 <=? pair_max s src tgt P i j) (seq 0 (length tgt)))
          (seq 0 (length src)) &&
  forallb (fun p => deg_ok (snd p) (rowsum (nth (fst p) M []))) (enumerate src) &&
  cols_ok tgt M.

Definition count_M (s : settings) (e : existence) : nat := length (enum_M s e).

(* max-conn matrix as the implementation exposes it (get_max_conn_mat) *)
Definition max_conn_mat (s : settings) (e : existence) : matrix :=
  let src := eff_nodes (s_src s) (x_src e) in
  let tgt := eff_nodes (s_tgt s) (x_tgt e) in
  let P := par_limit s src tgt in
  map (fun i => map (fun j => pair_max s src tgt P i j) (seq 0 (length tgt))) (seq 0 (length src)).
