(* Greedy.v — the decode of the fast selection-choice encoder as a function of the graph
   (FastHierarchyAnalyzer.get_graph / _get_graph, fast.py:95-185): a design vector is applied choice by choice on the graph
   ("greedy application"), choices left with one option are taken automatically and reported inactive, an option that is
   incompatible with a confirmed node is no longer available; the vectors of the neighbourhood (Neighborhood.v) are tried in
   order until one gives a feasible instance that respects the fixed values (30ede4f). *)
From DSG Require Import Base Constraint Dsg Sel Neighborhood.
Open Scope N_scope.

(* one selection choice as the analyzer sees it: the choice node and its option nodes, in the analyzer's order *)
Definition gvar := (node * list node)%type.

(* an option is gone once a node it is incompatible with is confirmed *)
Definition conflicts (g : dsg) (W : list node) (o : node) : bool :=
  existsb (fun p => ((fst p =? o) && memN (snd p) W) || ((snd p =? o) && memN (fst p) W)) (incompat g).
(* ... and so is every node that necessarily derives such a node (get_incompatibility_deriving_nodes): a node with a derivation
   edge to a doomed node, and a selection choice all of whose options are doomed. Least fixpoint (per incompatible target,
   see doomed), reached within |nodes| rounds since every round but the last adds a node. *)
Definition d_succ (g : dsg) (m : node) : list node :=
  map e_tgt (filter (fun e => (e_src e =? m) && ekind_eqb (e_kind e) Derives) (edges g)).
Definition doom_step (g : dsg) (D : list node) : list node :=
  filter (fun n => negb (memN n D) &&
                   (if is_sel g n then forallb (fun o => memN o D) (d_succ g n)
                    else if is_conn g n then false
                    else existsb (fun m => memN m D) (d_succ g n)))
         (map fst (nodes g)).
Fixpoint doom_iter (g : dsg) (fuel : nat) (D : list node) : list node :=
  match fuel with
  | O => D
  | S f => match doom_step g D with [] => D | new => doom_iter g f (D ++ new) end
  end.
(* per conflicting node: get_mod_nodes_remove_incompatibilities walks upstream from each incompatible target on its own, so a
   choice counts as exhausted only when all its options fall to the same target *)
Definition doomed (g : dsg) (W : list node) : list node :=
  flat_map (fun t => doom_iter g (length (nodes g)) [t]) (filter (conflicts g W) (map fst (nodes g))).
(* rem: the options the choice constraints have removed so far *)
Definition avail (g : dsg) (W : list node) (rem : list node) (opts : list node) : list node :=
  let D := doomed g W in filter (fun o => negb (memN o D) && negb (memN o rem)) opts.

(* get_constraint_removed_options: choice c took option o; for every constraint that lists c, the options (by position in the
   lists captured when the constraint was made) the other choices of that constraint lose *)
Definition con_removed (cn : ccon) (c o : node) : list node :=
  let entries := snd cn in
  match index_of c (map fst entries) with
  | None => []
  | Some i =>
      match nth_error entries i with
      | None => []
      | Some e_c =>
          match index_of o (snd e_c) with
          | None => []
          | Some k =>
              flat_map (fun p : nat * list nat =>
                          match nth_error entries (fst p) with
                          | Some e_j => flat_map (fun pos => match nth_error (snd e_j) pos with Some n => [n] | None => [] end) (snd p)
                          | None => []
                          end)
                       (removed_options (fst cn) (map (fun e : node * list node => length (snd e)) entries) i k)
          end
      end
  end.
Definition cons_removed (g : dsg) (c o : node) : list node := flat_map (fun cn => con_removed cn c o) (cons g).

Definition is_pending (s : assign) (W : list node) (v : gvar) : bool := memN (fst v) W && negb (assigned s (fst v)).

(* the next choice: choices left with at most one option are resolved first (resolve_single_selection_choices runs after
   every application), otherwise the first active choice in choice order *)
Definition next_choice (g : dsg) (s : assign) (W : list node) (rem : list node) (vars : list gvar) : option gvar :=
  match find (fun v => is_pending s W v && (length (avail g W rem (snd v)) <=? 1)%nat) vars with
  | Some v => Some v
  | None => find (is_pending s W) vars
  end.

Inductive tres := TInfeasible | TOk (s : assign) (taken : list (node * Z)).

(* x: the requested option index per choice *)
Fixpoint greedy (g : dsg) (vars : list gvar) (x : node -> Z) (fuel : nat) (s : assign) (rem : list node)
         (taken : list (node * Z)) : option tres :=
  match closure g s with
  | None => None
  | Some W =>
      match next_choice g s W rem vars with
      | None => Some (if final_ok g s W then TOk s taken else TInfeasible)
      | Some (c, opts) =>
          match fuel with
          | O => None
          | S f =>
              match avail g W rem opts with
              | [] => Some TInfeasible
              | [o] => greedy g vars x f (s ++ [(c, o)]) (rem ++ cons_removed g c o) taken
              | av =>
                  let i := x c in
                  if (0 <=? i)%Z then
                    match nth_error opts (Z.to_nat i) with
                    | Some o => if memN o av
                                then greedy g vars x f (s ++ [(c, o)]) (rem ++ cons_removed g c o) (taken ++ [(c, i)])
                                else Some TInfeasible
                    | None => Some TInfeasible
                    end
                  else Some TInfeasible
              end
          end
      end
  end.

Fixpoint zlookup (t : list (node * Z)) (c : node) : Z :=
  match t with [] => (-1)%Z | (c', i) :: r => if c' =? c then i else zlookup r c end.

(* vector <-> function *)
Fixpoint req_of (vars : list gvar) (x : list Z) (c : node) : Z :=
  match vars, x with
  | (c', _) :: vt, i :: xt => if c' =? c then i else req_of vt xt c
  | _, _ => (-1)%Z
  end.

(* originating node of a choice: the source of the derivation edge into it *)
Definition origin_of (g : dsg) (c : node) : option node :=
  option_map e_src (find (fun e => (e_tgt e =? c) && ekind_eqb (e_kind e) Derives) (edges g)).

(* 30ede4f: a fixed choice that was not applied from the vector must not have been given another option *)
Definition respects_fixed (g : dsg) (vars : list gvar) (x : list Z) (fixed : list bool) (taken : list (node * Z))
           (inst : list node) : bool :=
  forallb (fun p =>
             let '(v, i, fx) := p in
             if fx && (zlookup taken (fst v) =? -1)%Z && (0 <=? i)%Z then
               match nth_error (snd v) (Z.to_nat i), origin_of g (fst v) with
               | Some o, Some m => negb (memN m inst && negb (memN o inst))
               | _, _ => true
               end
             else true)
          (combine (combine vars x) fixed).

(* one try: Some (imputed vector, instance) when the vector gives a feasible instance (that respects the fixed values) *)
(* vars: the choices in design-vector order (the analyzer lists them layer by layer); ovars: the same choices in the order
   in which active choices are taken (get_ordered_next_choice_nodes: by decision id) *)
Definition try_vector (check_fixed : bool) (g : dsg) (ovars vars : list gvar) (fixed : list bool) (x : list Z)
  : option (option (list Z * list node)) :=
  match greedy g ovars (req_of vars x) (length vars + 1) [] [] [] with
  | None => None
  | Some TInfeasible => Some None
  | Some (TOk s taken) =>
      match inst_nodes g s with
      | None => None
      | Some inst =>
          if negb check_fixed || respects_fixed g vars x fixed taken inst
          then Some (Some (map (fun v => zlookup taken (fst v)) vars, inst))
          else Some None
      end
  end.

Fixpoint first_try {A} (f : list Z -> option (option A)) (l : list (list Z)) : option (option A) :=
  match l with
  | [] => Some None
  | x :: t => match f x with
              | None => None
              | Some (Some r) => Some (Some r)
              | Some None => first_try f t
              end
  end.

(* the decode: requested vector x over vars, fixed flags; None = the model gives up (fuel), Some None = no feasible vector *)
Definition fast_decode (check_fixed : bool) (g : dsg) (ovars vars : list gvar) (x : list Z) (fixed : list bool)
  : option (option (list Z * list node)) :=
  first_try (try_vector check_fixed g ovars vars fixed)
            (neighborhood (map (fun p => (length (snd (fst (fst p))), snd (fst p), snd p)) (combine (combine vars x) fixed))).
