(* Sup.v — supplementary design space graphs: choice mappings and their resolution for one source architecture. *)
From DSG Require Import Base Constraint Dsg Sel.
Open Scope N_scope.

(* MOpt: option mapping of a source selection choice (its originating node, its option nodes, whether it exists conditionally,
   and per source option — None = the source choice is inactive — the supplementary option); MExist: existence mapping with priority order and a default *)
Inductive smap :=
| MOpt (src_choice src_origin : node) (src_opts : list node) (src_cond : bool) (tbl : list (option node * node))
| MExist (tbl : list (node * node)) (dflt : option node).

Definition okey_eqb (a b : option node) : bool :=
  match a, b with Some x, Some y => x =? y | None, None => true | _, _ => false end.

Fixpoint assocO (tbl : list (option node * node)) (k : option node) : option node :=
  match tbl with [] => None | (k', v) :: t => if okey_eqb k' k then Some v else assocO t k end.

(* the supplementary option a mapping selects for the source architecture (nodes src_inst, assignment src_s) *)
Definition resolve_one (src_inst : list node) (src_s : assign) (m : smap) : option node :=
  match m with
  | MOpt c origin _ _ tbl =>
      if memN origin src_inst then
        match lookup src_s c with Some o => assocO tbl (Some o) | None => None end
      else assocO tbl None
  | MExist tbl dflt =>
      match find (fun p => memN (fst p) src_inst) tbl with
      | Some p => Some (snd p)
      | None => dflt
      end
  end.

Fixpoint sup_assign (src_inst : list node) (src_s : assign) (maps : list (node * smap)) : option assign :=
  match maps with
  | [] => Some []
  | (c, m) :: t =>
      match resolve_one src_inst src_s m, sup_assign src_inst src_s t with
      | Some o, Some rest => Some ((c, o) :: rest)
      | _, _ => None
      end
  end.

(* checks of add_mapping / initialize_choices that do not depend on the source architecture: every selection choice of the
   supplementary graph is mapped exactly once and every mapped target is an option of its choice *)
Definition maps_ok (g : dsg) (maps : list (node * smap)) : bool :=
  nodupN (map fst maps) &&
  forallb (fun c => memN c (map fst maps)) (sel_choices g) &&
  forallb (fun p => match snd p with
                    | MOpt _ _ sopts cond tbl =>
                        forallb (fun e => memN (snd e) (sel_opts g (fst p))) tbl &&
                        forallb (fun o => match assocO tbl (Some o) with Some _ => true | None => false end) sopts &&
                        (negb cond || match assocO tbl None with Some _ => true | None => false end)
                    | MExist tbl d => forallb (fun e => memN (snd e) (sel_opts g (fst p))) tbl &&
                                      match d with Some o => memN o (sel_opts g (fst p)) | None => false end
                    end) maps.

(* resolve: None = rejected with an error; Some (s, I) = the final supplementary instance *)
Definition resolve (g : dsg) (maps : list (node * smap)) (src_inst : list node) (src_s : assign)
  : option (assign * list node) :=
  if negb (maps_ok g maps) then None else
  match sup_assign src_inst src_s maps with
  | None => None
  | Some s =>
      match closure g s with
      | None => None
      | Some W => match pending g s W with
                  | [] => Some (s, inst_of g W)
                  | _ => None
                  end
      end
  end.
