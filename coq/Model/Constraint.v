(* Constraint.v — executable model of adsg_core/graph/choice_constraints.py
   (get_valid_idx_combinations, get_constraint_removed_options,
    get_constraint_pre_removed_options, count_n_combinations_max). *)
From DSG Require Import Base.
Open Scope Z_scope.

Inductive ctype := Linked | Permutation | Unordered | UnorderedNorepl.

(* -1 marks an inactive entry of an index row *)
Definition is_act (v : Z) : bool := negb (v =? -1).
Definition act (row : list Z) : list Z := filter is_act row.

Fixpoint adjb (R : Z -> Z -> bool) (l : list Z) : bool :=
  match l with
  | x :: ((y :: _) as t) => R x y && adjb R t
  | _ => true
  end.

(* PERMUTATION branch: pairs of *columns* i<j, each pair ok when different or one is -1 *)
Fixpoint pairs_ne (row : list Z) : bool :=
  match row with
  | [] => true
  | x :: t => forallb (fun y => negb (x =? y) || (x =? -1) || (y =? -1)) t && pairs_ne t
  end.

Definition all_eq_first (a : list Z) : bool :=
  match a with [] => true | x :: t => forallb (Z.eqb x) t end.

(* validity of one row; perm = is_all_permanent *)
Definition valid_row (t : ctype) (perm : bool) (row : list Z) : bool :=
  if (length row <=? 1)%nat then true else
  match t with
  | Linked => all_eq_first (act row)
  | Permutation => pairs_ne row
  | Unordered => adjb Z.leb (act row)
  | UnorderedNorepl => if perm then adjb Z.leb (act row) else adjb Z.ltb (act row)
  end.

(* get_valid_idx_combinations: indices of the valid rows *)
Definition valid_idx_rows (t : ctype) (perm : bool) (rows : list (list Z)) : list nat :=
  map fst (filter (fun p => valid_row t perm (snd p)) (enumerate rows)).

(* The documented rule on a vector of option indices of choices that are active together *)
Definition idx_okb (t : ctype) (v : list Z) : bool :=
  match t with
  | Linked => all_eq_first v
  | Permutation => pairs_ne v
  | Unordered => adjb Z.leb v
  | UnorderedNorepl => adjb Z.ltb v
  end.

(* get_constraint_removed_options, on option *positions*: choice i has n_i options
   (positions 0..n_i-1); choice i_taken took position k.  Result: removed positions of choice i. *)
Definition removed_pos (t : ctype) (n_i : nat) (i i_taken : nat) (k : nat) : list nat :=
  let enough := (k <=? n_i - 1)%nat && negb (n_i =? 0)%nat in
  match t with
  | Linked =>
      if enough then filter (fun j => negb (j =? k)%nat) (range n_i)
      else range (n_i - 1)
  | Permutation => if enough then [k] else []
  | Unordered =>
      if (i <? i_taken)%nat then filter (fun j => (k <? j)%nat) (range n_i)
      else filter (fun j => (j <? k)%nat) (range n_i)
  | UnorderedNorepl =>
      if (i <? i_taken)%nat then filter (fun j => (k <=? j)%nat) (range n_i)
      else filter (fun j => (j <=? k)%nat) (range n_i)
  end.

Definition removed_options (t : ctype) (ns : list nat) (i_taken k : nat) : list (nat * list nat) :=
  filter (fun p => negb (match snd p with [] => true | _ => false end))
    (flat_map (fun p => if (fst p =? i_taken)%nat then []
                        else [(fst p, removed_pos t (snd p) (fst p) i_taken k)])
              (enumerate ns)).

(* get_constraint_pre_removed_options; perm = all constrained nodes permanent *)
Definition pre_removed (t : ctype) (ns : list nat) (perm : bool) : list (nat * list nat) :=
  let n_dec := length ns in
  match t with
  | Permutation =>
      if (fold_right Nat.max 0%nat ns <? n_dec)%nat
      then map (fun p => (fst p, range (snd p))) (enumerate ns) else []
  | UnorderedNorepl =>
      if perm then
        map (fun p => let i := fst p in let n_i := snd p in
                      let i_end := (Z.of_nat n_i - Z.of_nat (n_dec - (i + 1)))%Z in
                      (i, filter (fun j => (j <? i)%nat || (i_end <=? Z.of_nat j)%Z) (range n_i)))
            (enumerate ns)
      else []
  | _ => []
  end.

(* count_n_combinations_max for selection choices *)
Definition count_max (t : ctype) (ns : list nat) (perm : bool) : nat :=
  let perm' := match t with UnorderedNorepl => true | _ => perm end in
  length (filter (valid_row t perm')
                 (product (map (fun n => map Z.of_nat (range n)) ns))).
