(* Proc.v — the stateful core of GraphProcessor / HierarchyAnalyzerBase that C05 and C15 are about:
   the analyzer's feasibility mask, the fixed-value mask, the retry loop of get_graph, and fixing at the level of rows.
   The correction search itself (which row is closest) is a Section parameter `pick` with stated hypotheses. *)
From DSG Require Import Base.

Definition mask := nat -> bool.
Definition mand (a b : mask) : mask := fun i => a i && b i.
Definition mclear (a : mask) (r : nat) : mask := fun i => if i =? r then false else a i.
Definition mtrue : mask := fun _ => true.

Section Decode.
  Variable X : Type.                       (* design vectors *)
  Variable feasible_row : nat -> bool.     (* is the materialised instance of row r feasible? *)
  Variable pick : mask -> X -> option nat. (* the correction search among the rows the mask allows *)

  (* get_graph's loop: pick among feasibility-mask AND fixed-mask; an infeasible instance clears its row in the
     ANALYZER's mask and the search is repeated.  inplace = the code as found (include_mask &= mask on an alias). *)
  Fixpoint decode (inplace : bool) (fuel : nat) (feas fixm : mask) (x : X) : option (nat * mask) :=
    match fuel with
    | O => None
    | S f =>
        let feas1 := if inplace then mand feas fixm else feas in
        match pick (mand feas1 fixm) x with
        | None => None
        | Some r => if feasible_row r then Some (r, feas1) else decode inplace f (mclear feas1 r) fixm x
        end
    end.

  (* state of a processor: analyzer feasibility mask + current fixed-value mask *)
  Record pstate := { st_feas : mask; st_fix : mask }.
  Inductive op := Decode (x : X) | SetFixed (m : mask).   (* fix / free both install a new fixed-value mask *)

  Definition step (inplace : bool) (fuel : nat) (s : pstate) (o : op) : pstate * option nat :=
    match o with
    | Decode x => match decode inplace fuel (st_feas s) (st_fix s) x with
                  | Some (r, f') => ({| st_feas := f'; st_fix := st_fix s |}, Some r)
                  | None => (s, None)
                  end
    | SetFixed m => ({| st_feas := st_feas s; st_fix := m |}, None)
    end.

  Definition init : pstate := {| st_feas := mtrue; st_fix := mtrue |}.

  Fixpoint run (inplace : bool) (fuel : nat) (s : pstate) (ops : list op) : pstate :=
    match ops with [] => s | o :: t => run inplace fuel (fst (step inplace fuel s o)) t end.
End Decode.

(* ---------- fixing at the level of enumerated rows (what get_all_discrete_x returns with a fixed variable) ---------- *)
Open Scope Z_scope.
Definition drop_col {A} (i : nat) (r : list A) : list A := firstn i r ++ skipn (S i) r.

(* sel = the variable belongs to a selection choice: rows where it is ACTIVE with value v; otherwise (design-variable node):
   rows where it has value v or is inactive (-1) *)
Definition keep_row (sel : bool) (i : nat) (v : Z) (r : list Z) : bool :=
  let e := nth i r (-1) in if sel then e =? v else (e =? v) || (e =? -1).

Definition restrict_rows (sel : bool) (i : nat) (v : Z) (rows : list (list Z)) : list (list Z) :=
  map (drop_col i) (filter (keep_row sel i v) rows).

(* ---------- returned instances vs the analyzer's graph cache (aliasing) ---------- *)
Close Scope Z_scope.
(* objects hold one payload cell (stands for metric / design-variable values stored on an instance); fresh objects hold 0.
   cache: decode key -> address of the cached object.  alias = the code as found (the cached object itself is returned). *)
Record astate := { heap : list nat; cache : list (nat * nat); refs : list nat (* addresses handed out, oldest first *) }.
Inductive aop := ADecode (key : nat) | AMutate (k : nat) (v : nat).   (* mutate the k-th returned instance *)

Fixpoint assoc (l : list (nat * nat)) (k : nat) : option nat :=
  match l with [] => None | (k', a) :: t => if k' =? k then Some a else assoc t k end.

Fixpoint set_nth (l : list nat) (i v : nat) : list nat :=
  match l, i with
  | [], _ => []
  | _ :: t, O => v :: t
  | x :: t, S j => x :: set_nth t j v
  end.

(* result: new state and, for a decode, the payload the caller sees on the returned instance *)
Definition astep (alias : bool) (s : astate) (o : aop) : astate * option nat :=
  match o with
  | ADecode k =>
      let '(h1, c1, a) :=
        match assoc (cache s) k with
        | Some a => (heap s, cache s, a)
        | None => (heap s ++ [0], (k, length (heap s)) :: cache s, length (heap s))
        end in
      if alias then ({| heap := h1; cache := c1; refs := refs s ++ [a] |}, Some (nth a h1 0))
      else ({| heap := h1 ++ [nth a h1 0]; cache := c1; refs := refs s ++ [length h1] |}, Some (nth a h1 0))
  | AMutate k v =>
      match nth_error (refs s) k with
      | Some a => ({| heap := set_nth (heap s) a v; cache := cache s; refs := refs s |}, None)
      | None => (s, None)
      end
  end.

Definition ainit : astate := {| heap := []; cache := []; refs := [] |}.

Fixpoint arun (alias : bool) (s : astate) (ops : list aop) : astate * list (option nat) :=
  match ops with
  | [] => (s, [])
  | o :: t => let '(s1, out) := astep alias s o in let '(s2, outs) := arun alias s1 t in (s2, out :: outs)
  end.
