(* Base.v — shared executable helpers of the model layer (stdlib only). *)
From Coq Require Export List Bool Arith NArith ZArith Lia.
Export ListNotations.

Definition memN (x : N) (l : list N) : bool := existsb (N.eqb x) l.
Definition memZ (x : Z) (l : list Z) : bool := existsb (Z.eqb x) l.
Definition memn (x : nat) (l : list nat) : bool := existsb (Nat.eqb x) l.

Fixpoint nodupN (l : list N) : bool :=
  match l with [] => true | x :: t => negb (memN x t) && nodupN t end.

Definition subsetN (a b : list N) : bool := forallb (fun x => memN x b) a.

Fixpoint sumZ (l : list Z) : Z := match l with [] => 0%Z | x :: t => (x + sumZ t)%Z end.
Fixpoint sumn (l : list nat) : nat := match l with [] => 0 | x :: t => x + sumn t end.

(* positions 0..n-1 *)
Definition range (n : nat) : list nat := seq 0 n.

(* cartesian product of a list of lists, first coordinate slowest (itertools.product order) *)
Fixpoint product {A} (ls : list (list A)) : list (list A) :=
  match ls with
  | [] => [[]]
  | l :: t => flat_map (fun x => map (cons x) (product t)) l
  end.

Fixpoint enumerate_from {A} (i : nat) (l : list A) : list (nat * A) :=
  match l with [] => [] | x :: t => (i, x) :: enumerate_from (S i) t end.
Definition enumerate {A} (l : list A) := enumerate_from 0 l.

Definition Zrange (lo : Z) (n : nat) : list Z := map (fun i => (lo + Z.of_nat i)%Z) (seq 0 n).
