(* Selector.v — automatic encoder selection (EncoderSelector._get_best_assignment_manager / _get_best, selector.py:90-345):
   the score-table post-processing, the priority-area search and the staged control flow over the four encoder
   families, as pure functions of the score rows of the candidate managers that could be constructed.
   Floating-point scores are modelled by the rationals they denote (every finite double is a rational; all operations
   the selection performs on them are comparisons, a mean and a rounding to hundredths). *)
From DSG Require Import Base.
From Coq Require Import QArith Qround.

(* one constructed candidate: imputation ratio, information index, distance correlation (None = NaN: not computed) *)
Record cand := { c_imp : Q; c_inf : Q; c_dc : option Q }.

Definition Qlt_bool (a b : Q) : bool := negb (Qle_bool b a).

(* ---------- score table post-processing (selector.py:157-172) ---------- *)
Definition same_score (a b : cand) : bool := Qeq_bool (c_imp a) (c_imp b) && Qeq_bool (c_inf a) (c_inf b).

Fixpoint qsum (l : list Q) : Q := match l with [] => 0 | x :: t => x + qsum t end.
Definition qmean (l : list Q) : Q := qsum l / inject_Z (Z.of_nat (length l)).

(* numpy.round: to the nearest integer, halves to the even neighbour *)
Definition round_half_even (q : Q) : Z :=
  let f := Qfloor q in
  let r := q - inject_Z f in
  if Qlt_bool r (1#2) then f
  else if Qlt_bool (1#2) r then (f + 1)%Z
  else if Z.even f then f else (f + 1)%Z.

Definition round100 (q : Q) : Q := inject_Z (round_half_even (q * 100)) / 100.

Definition group_dcs (t : list cand) (a : cand) : list Q :=
  flat_map (fun b => if same_score a b then match c_dc b with Some d => [d] | None => [] end else []) t.

Definition equalize_row (t : list cand) (a : cand) : cand :=
  let raw := if (1 <? length (filter (same_score a) t))%nat
             then match group_dcs t a with [] => c_dc a | l => Some (qmean l) end
             else c_dc a in
  {| c_imp := c_imp a; c_inf := c_inf a; c_dc := option_map round100 raw |}.

Definition equalize (t : list cand) : list cand := map (equalize_row t) t.

(* ---------- _get_best ---------- *)
Inductive result := RNone | RIdx (i : nat) | RRaise.

Record row := { r_idx : nat; r_nimp : Q; r_c : cand }.

Fixpoint qmin_from (m : Q) (l : list Q) : Q :=
  match l with [] => m | x :: t => qmin_from (if Qlt_bool x m then x else m) t end.
Definition qmin (l : list Q) : Q := match l with [] => 1 | x :: t => qmin_from x t end.

Definition mk_rows (knows : bool) (t : list cand) : list row :=
  let m := qmin (map c_imp t) in
  map (fun p => {| r_idx := fst p; r_nimp := if knows then c_imp (snd p) else c_imp (snd p) / m; r_c := snd p |})
      (enumerate t).

Definition in_band (k : nat) (r : row) : bool :=
  match k with
  | 0%nat => Qeq_bool (r_nimp r) 1
  | 1%nat => Qle_bool (r_nimp r) 10
  | 2%nat => Qle_bool (r_nimp r) 40
  | 3%nat => Qle_bool (r_nimp r) 100
  | _ => true
  end.

Inductive cfilter := FThr | FHalf | FPos | FNonneg | FAll.

(* min_distance_correlation = .7 and .5 * .7 as the doubles they are *)
Definition thr : Q := 3152519739159347 # 4503599627370496.
Definition half_thr : Q := 3152519739159347 # 9007199254740992.

Definition corr (by_inf : bool) (r : row) : option Q := if by_inf then Some (c_inf (r_c r)) else c_dc (r_c r).

Definition cpass (by_inf : bool) (f : cfilter) (r : row) : bool :=
  match f with
  | FAll => true
  | _ => match corr by_inf r with
         | None => false
         | Some c => match f with
                     | FThr => Qle_bool thr c
                     | FHalf => Qle_bool half_thr c
                     | FPos => Qlt_bool 0 c
                     | FNonneg => Qle_bool 0 c
                     | FAll => true
                     end
         end
  end.

Definition area := (nat * cfilter)%type.
Definition in_area (by_inf : bool) (a : area) (r : row) : bool := in_band (fst a) r && cpass by_inf (snd a) r.

Definition areas (by_inf : bool) : list area :=
  (if by_inf then [(0, FThr); (1, FThr); (0, FHalf); (1, FHalf); (0, FPos); (1, FPos); (0, FAll); (1, FAll)]
   else [(0, FThr); (1, FThr); (0, FHalf); (1, FHalf); (1, FNonneg)])%nat
  ++ flat_map (fun i => [(i, FThr); (i, FHalf); (i, FPos); (i, FAll)]) [2; 3; 4]%nat.

(* the first element that no other element beats (numpy argmax / argmin: first extremum) *)
Fixpoint first_best (beats : row -> row -> bool) (l : list row) : option row :=
  match l with
  | [] => None
  | r :: t => match first_best beats t with
              | None => Some r
              | Some b => if beats b r then Some b else Some r
              end
  end.

Definition dc_of (r : row) : option Q := c_dc (r_c r).
Definition has_dc (r : row) : bool := match dc_of r with Some _ => true | None => false end.
Definition dc_val (r : row) : Q := match dc_of r with Some d => d | None => 0 end.

Definition best_within (by_inf : bool) (sel : list row) : result :=
  if by_inf then
    match first_best (fun b r => Qlt_bool (r_nimp b) (r_nimp r)) sel with
    | None => RNone
    | Some m =>
        match first_best (fun b r => Qlt_bool (c_inf (r_c r)) (c_inf (r_c b)))
                         (filter (fun r => Qeq_bool (r_nimp r) (r_nimp m)) sel) with
        | Some b => RIdx (r_idx b) | None => RNone
        end
    end
  else
    match first_best (fun b r => Qlt_bool (dc_val r) (dc_val b)) (filter has_dc sel) with
    | None => RNone                                   (* all NaN *)
    | Some m =>
        match first_best (fun b r => Qlt_bool (r_nimp b) (r_nimp r))
                         (filter (fun r => has_dc r && Qeq_bool (dc_val r) (dc_val m)) sel) with
        | Some b => RIdx (r_idx b) | None => RNone
        end
    end.

Fixpoint scan (by_inf : bool) (np : option nat) (i : nat) (ars : list area) (rows : list row) : result :=
  match ars with
  | [] => RRaise
  | a :: rest =>
      if match np with Some n => (n <=? i)%nat | None => false end then RNone
      else match filter (in_area by_inf a) rows with
           | [] => scan by_inf np (S i) rest rows
           | sel => best_within by_inf sel
           end
  end.

Definition get_best (knows : bool) (np : option nat) (by_inf : bool) (t : list cand) : result :=
  match t with [] => RNone | _ => scan by_inf np 0%nat (areas by_inf) (mk_rows knows t) end.

(* ---------- staged selection ---------- *)
Inductive fam := FPat | FEag | FLaz | FEnum.
Inductive stage := S0_pattern | S1_init_all | S1_init_lazy | S2_init_inf_idx | S3_all | S4_all_enum | S4_all_inf_idx.
Inductive outcome := ODefault | OChosen (st : stage) (f : fam) (pos : nat) | ORaise | OBad.

(* what each family would deliver when its managers are created (raw scores of the created managers, in order) *)
Record senv := { e_excl : bool; e_nmat : option N; e_nmax : N;
                 e_pat : list cand; e_eag : list cand; e_laz : list cand; e_enum : list cand }.

Definition trow := (fam * nat * cand)%type.
Definition tag (f : fam) (t : list cand) : list trow := map (fun p => (f, fst p, snd p)) (enumerate (equalize t)).
Definition scores (tt : list trow) : list cand := map snd tt.

Definition pick (st : stage) (tt : list trow) (r : result) (k : outcome) : outcome :=
  match r with
  | RIdx i => match nth_error tt i with Some (f, p, _) => OChosen st f p | None => OBad end
  | RNone => k
  | RRaise => ORaise
  end.

Definition no_dc (c : cand) : bool := match c_dc c with None => true | Some _ => false end.
Definition clear_dc (r : trow) : trow := (fst r, {| c_imp := c_imp (snd r); c_inf := c_inf (snd r); c_dc := None |}).

(* one stage: a row found (or an exception) ends the selection, otherwise the next stage runs *)
Definition stage_or (st : stage) (tt : list trow) (r : result) (c : list fam) (next : outcome * list fam)
  : outcome * list fam :=
  match r with RNone => next | _ => (pick st tt r OBad, c) end.

Definition select (e : senv) : outcome * list fam :=
  match e_nmat e with
  | Some 0%N => (ODefault, [])
  | _ =>
    let knows := match e_nmat e with Some _ => true | None => false end in
    let all := match e_nmat e with Some n => (n <=? e_nmax e)%N | None => false end in
    let s0 := if e_excl e then [] else tag FPat (e_pat e) in
    let c0 := if e_excl e then [] else [FPat] in
    let r0 := if e_excl e then RNone else get_best knows (Some 5%nat) false (scores s0) in
    let s1 := if all then s0 ++ tag FEag (e_eag e) ++ tag FLaz (e_laz e) else s0 ++ tag FLaz (e_laz e) in
    let c1 := c0 ++ (if all then [FEag; FLaz] else [FLaz]) in
    let s3 := if all then s1 else tag FEag (e_eag e) ++ s1 in
    let c3 := if all then c1 else c1 ++ [FEag] in
    let r3 := if all then RNone else get_best knows None false (scores s3) in
    let en := tag FEnum (e_enum e) in
    let s4 := s3 ++ (if forallb no_dc (scores s3) then map clear_dc en else en) in
    let c4 := c3 ++ [FEnum] in
    stage_or S0_pattern s0 r0 c0
      (stage_or (if all then S1_init_all else S1_init_lazy) s1 (get_best knows (Some 4%nat) false (scores s1)) c1
        (stage_or S2_init_inf_idx s1 (get_best knows (Some 4%nat) true (scores s1)) c1
          (stage_or S3_all s3 r3 c3
            (stage_or S4_all_enum s4 (get_best knows None false (scores s4)) c4
              (pick S4_all_inf_idx s4 (get_best knows None true (scores s4)) ORaise, c4)))))
  end.

(* every candidate of the families that get created when no stage succeeds early *)
Definition all_candidates (e : senv) : list cand :=
  (if e_excl e then [] else e_pat e) ++ e_eag e ++ e_laz e ++ e_enum e.
