(* Timeout.v — labelled transition system of run_timeout (time_limiter.py): a main thread waiting on a single-worker pool
   with a timed get, asynchronous exception injection into the worker after expiry, join.
   A worker program: duration in ticks (>= 1), final outcome, and whether it swallows the injected exception once
   (a blanket `except Exception` inside the function) and keeps running. *)
From DSG Require Import Base.

Inductive outcome := OValue (v : nat) | ORaise (e : nat) | OTimeout.
Record prog := { p_dur : nat; p_res : outcome; p_swallow : bool }.

Inductive wst := WRunning (k : nat) (injected : bool) | WDone | WDead.
Inductive mst := MWaiting | MJoining | MReturned (o : outcome).
Inductive ev := Tick | Expire.     (* the worker advances one tick | the timed get of the main thread expires *)

Definition state := (mst * wst)%type.
Definition init : state := (MWaiting, WRunning 0 false).

Definition step (p : prog) (s : state) (e : ev) : state :=
  match s with
  | (MWaiting, WRunning k _) =>
      match e with
      | Tick => if p_dur p <=? k + 1 then (MReturned (p_res p), WDone) else (MWaiting, WRunning (k + 1) false)
      | Expire => (MJoining, WRunning k true)             (* worker alive: inject the exception, then join *)
      end
  | (MJoining, WRunning k true) =>
      match e with
      | Tick => if p_swallow p
                then (if p_dur p <=? k + 1 then (MReturned OTimeout, WDone) else (MJoining, WRunning (k + 1) false))
                else (MReturned OTimeout, WDead)          (* the injected exception ends the worker; join returns *)
      | Expire => s
      end
  | (MJoining, WRunning k false) =>                        (* exception swallowed: the function runs to its end *)
      match e with
      | Tick => if p_dur p <=? k + 1 then (MReturned OTimeout, WDone) else (MJoining, WRunning (k + 1) false)
      | Expire => s
      end
  | _ => s                                                 (* returned: nothing moves any more *)
  end.

Definition run (p : prog) (sched : list ev) : state := fold_left (step p) sched init.

(* number of worker ticks before the first expiry *)
Fixpoint ticks_before_expire (sched : list ev) : nat :=
  match sched with
  | [] => 0
  | Tick :: t => S (ticks_before_expire t)
  | Expire :: _ => 0
  end.
Fixpoint has_expire (sched : list ev) : bool :=
  match sched with [] => false | Expire :: _ => true | Tick :: t => has_expire t end.

(* outcomes the timing allows: duration and limit in the same unit, tol = scheduling jitter *)
Definition allowed (p : prog) (dur limit tol : nat) : list outcome :=
  if dur + tol <? limit then [p_res p]
  else if limit + tol <? dur then [OTimeout]
  else [p_res p; OTimeout].

(* ---------- nested limits: run_timeout(outer, lambda: run_timeout(inner, f)) ----------
   Three threads: the caller (waits for the middle thread with the outer limit), the middle thread (the outer worker; it
   executes the inner run_timeout and waits for the inner worker with the inner limit) and the inner worker (executes f).
   An interrupt sent to a thread that is blocked in a timed wait or a join is pending until that wait returns.
   fixed = false is the limiter as found: the middle thread, woken by its pending interrupt, leaves the inner call without
   interrupting its worker (the interrupt propagates through `with pool`); fixed = true (7b08eac): it first interrupts and
   joins the inner worker and then re-raises. *)
Inductive ost := OWaiting | OJoining | OReturned (o : outcome).
Inductive midst :=
| MidWaiting (pending : bool)                       (* in the timed wait for the inner result *)
| MidJoining (pending : bool) (reraise : bool)      (* inner worker interrupted, joining it; reraise: it was itself interrupted *)
| MidDone | MidDead.
Inductive nev := NTick | NExpireI | NExpireO.
Definition nstate := (ost * midst * wst)%type.
Definition ninit : nstate := (OWaiting, MidWaiting false, WRunning 0 false).

Definition nstep (fixed : bool) (p : prog) (s : nstate) (e : nev) : nstate :=
  match s with
  | (OReturned _, _, _) => s
  | (o, MidWaiting pend, WRunning k false) =>
      match e with
      | NTick =>
          if p_dur p <=? k + 1
          then (if pend then (OReturned OTimeout, MidDead, WDone)      (* woken by the result, the pending interrupt ends it *)
                else (OReturned (p_res p), MidDone, WDone))
          else (o, MidWaiting pend, WRunning (k + 1) false)
      | NExpireI =>
          if pend
          then (if fixed then (o, MidJoining true true, WRunning k true)
                else (OReturned OTimeout, MidDead, WRunning k false))   (* as found: the function is left running *)
          else (o, MidJoining false false, WRunning k true)
      | NExpireO =>
          match o with OWaiting => (OJoining, MidWaiting true, WRunning k false) | _ => s end
      end
  | (o, MidJoining pend rr, WRunning k true) =>
      match e with
      | NTick => if pend || rr then (OReturned OTimeout, MidDead, WDead)
                 else (OReturned OTimeout, MidDone, WDead)              (* the inner TimeoutError is the result *)
      | NExpireI => s
      | NExpireO => match o with OWaiting => (OJoining, MidJoining true rr, WRunning k true) | _ => s end
      end
  | _ => s
  end.

Definition nrun (fixed : bool) (p : prog) (sched : list nev) : nstate := fold_left (nstep fixed p) sched ninit.

(* all states reachable by schedules of exactly n events (for the driver: what can be observed) *)
Fixpoint nreach (fixed : bool) (p : prog) (n : nat) (s : nstate) : list nstate :=
  match n with
  | O => [s]
  | S n' => flat_map (fun e => nreach fixed p n' (nstep fixed p s e)) [NTick; NExpireI; NExpireO]
  end.
Definition nleaks (s : nstate) : bool :=
  match s with (OReturned _, _, WRunning _ _) => true | _ => false end.
Definition nreturned (s : nstate) : option outcome :=
  match s with (OReturned o, _, _) => Some o | _ => None end.
