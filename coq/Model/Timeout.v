(* Timeout.v — labelled transition system of run_timeout (time_limiter.py): a main thread waiting on a single-worker pool
   with a timed get, asynchronous exception injection into the worker after expiry, join.
   A worker program: duration in ticks (>= 1), final outcome, and whether it swallows the injected exception once
   (a blanket `except Exception` inside the function) and keeps running. *)
From DSG Require Import Base.

Inductive outcome := OValue (v : nat) | ORaise (e : nat) | OTimeout.
Record prog := { p_dur : nat; p_res : outcome; p_swallow : bool }.

Inductive wst := WRunning (k : nat) (injected : bool) | WDone | WDead.
Inductive mst := MWaiting | MJoining | MReturned (o : outcome).
Inductive ev := Tick | Expire.     (* the worker advances one tick | the timed get of the main thread expires *)

Definition state := (mst * wst)%type.
Definition init : state := (MWaiting, WRunning 0 false).

Definition step (p : prog) (s : state) (e : ev) : state :=
  match s with
  | (MWaiting, WRunning k _) =>
      match e with
      | Tick => if p_dur p <=? k + 1 then (MReturned (p_res p), WDone) else (MWaiting, WRunning (k + 1) false)
      | Expire => (MJoining, WRunning k true)             (* worker alive: inject the exception, then join *)
      end
  | (MJoining, WRunning k true) =>
      match e with
      | Tick => if p_swallow p
                then (if p_dur p <=? k + 1 then (MReturned OTimeout, WDone) else (MJoining, WRunning (k + 1) false))
                else (MReturned OTimeout, WDead)          (* the injected exception ends the worker; join returns *)
      | Expire => s
      end
  | (MJoining, WRunning k false) =>                        (* exception swallowed: the function runs to its end *)
      match e with
      | Tick => if p_dur p <=? k + 1 then (MReturned OTimeout, WDone) else (MJoining, WRunning (k + 1) false)
      | Expire => s
      end
  | _ => s                                                 (* returned: nothing moves any more *)
  end.

Definition run (p : prog) (sched : list ev) : state := fold_left (step p) sched init.

(* number of worker ticks before the first expiry *)
Fixpoint ticks_before_expire (sched : list ev) : nat :=
  match sched with
  | [] => 0
  | Tick :: t => S (ticks_before_expire t)
  | Expire :: _ => 0
  end.
Fixpoint has_expire (sched : list ev) : bool :=
  match sched with [] => false | Expire :: _ => true | Tick :: t => has_expire t end.

(* outcomes the timing allows: duration and limit in the same unit, tol = scheduling jitter *)
Definition allowed (p : prog) (dur limit tol : nat) : list outcome :=
  if dur + tol <? limit then [p_res p]
  else if limit + tol <? dur then [OTimeout]
  else [p_res p; OTimeout].
