(* Coding.v — a connection encoder seen as a finite decode table, and the checker that decides whether such a table is a
   faithful, total (on the table) and onto coding of the valid connection matrices of (settings, existence pattern). *)
From DSG Require Import Base Matrix.

(* one observed decode: input vector, corrected vector, activeness, matrix *)
Record obs := { o_in : list Z; o_out : list Z; o_act : list bool; o_mat : matrix }.

Fixpoint list_eqb {A} (eqb : A -> A -> bool) (a b : list A) : bool :=
  match a, b with
  | [], [] => true
  | x :: s, y :: t => eqb x y && list_eqb eqb s t
  | _, _ => false
  end.
Definition vec_eqb := list_eqb Z.eqb.
Definition act_eqb := list_eqb Bool.eqb.
Definition mat_eqb : matrix -> matrix -> bool := list_eqb (list_eqb Nat.eqb).

(* corrected vector within the declared ranges; inactive variables at the canonical value 0 *)
Fixpoint in_range (nopts : list nat) (x : list Z) (act : list bool) : bool :=
  match nopts, x, act with
  | [], [], [] => true
  | n :: ns, v :: xs, a :: acts =>
      (0 <=? v)%Z && (v <? Z.of_nat n)%Z && (a || (v =? 0)%Z) && in_range ns xs acts
  | _, _, _ => false
  end.

Definition find_in (tbl : list obs) (x : list Z) : option obs := find (fun o => vec_eqb (o_in o) x) tbl.

Definition obs_ok (s : settings) (e : existence) (nopts : list nat) (tbl : list obs) (o : obs) : bool :=
  validate s e (o_mat o) && in_range nopts (o_out o) (o_act o) &&
  match find_in tbl (o_out o) with
  | Some o' => vec_eqb (o_out o') (o_out o) && act_eqb (o_act o') (o_act o) && mat_eqb (o_mat o') (o_mat o)
  | None => false
  end.

Definition coding_ok (s : settings) (e : existence) (nopts : list nat) (tbl : list obs) : bool :=
  forallb (obs_ok s e nopts tbl) tbl &&
  forallb (fun M => existsb (fun o => mat_eqb (o_mat o) M) tbl) (enum_M s e) &&
  forallb (fun o1 => forallb (fun o2 => negb (vec_eqb (o_out o1) (o_out o2)) || mat_eqb (o_mat o1) (o_mat o2)) tbl) tbl.

(* which clause fails first (for the replay): 0 = ok, 1 = invalid matrix, 2 = out of range, 3 = not idempotent,
   4 = not onto, 5 = not injective *)
Definition coding_verdict (s : settings) (e : existence) (nopts : list nat) (tbl : list obs) : nat :=
  if negb (forallb (fun o => validate s e (o_mat o)) tbl) then 1
  else if negb (forallb (fun o => in_range nopts (o_out o) (o_act o)) tbl) then 2
  else if negb (forallb (obs_ok s e nopts tbl) tbl) then 3
  else if negb (forallb (fun M => existsb (fun o => mat_eqb (o_mat o) M) tbl) (enum_M s e)) then 4
  else if negb (forallb (fun o1 => forallb (fun o2 => negb (vec_eqb (o_out o1) (o_out o2)) || mat_eqb (o_mat o1) (o_mat o2)) tbl) tbl) then 5
  else 0.
