(* Cache.v — the on-disk caches of the connection-encoding layer (matrix cache: matrix.py:523-570; selection cache:
   selector.py:47-67) as a keyed store shared by every process, and the key both use (MatrixGenSettings.get_cache_key,
   matrix.py:414-424) as a structured value: the digest is computed from this value's textual rendering. *)
From DSG Require Import Base Matrix.

(* ---------- the cache key ---------- *)
Fixpoint insert {A} (leb : A -> A -> bool) (x : A) (l : list A) : list A :=
  match l with [] => [x] | y :: t => if leb x y then x :: l else y :: insert leb x t end.
Fixpoint isort {A} (leb : A -> A -> bool) (l : list A) : list A :=
  match l with [] => [] | x :: t => insert leb x (isort leb t) end.

Definition pair_leb (a b : nat * nat) : bool :=
  (fst a <? fst b) || ((fst a =? fst b) && (snd a <=? snd b)).

(* repr(Node): conns (sorted by the constructor) or None, min_conns (None when conns is given), rep *)
Definition node_key (n : cnode) : option (list nat) * nat * bool :=
  match c_list n with
  | Some l => (Some (isort Nat.leb l), 0, c_rep n)
  | None => (None, c_min n, c_rep n)
  end.

(* hash(NodeExistence): the override dictionaries as (index, degrees) items in index order *)
Definition ov_items (ovs : list (option (list nat))) : list (nat * list nat) :=
  flat_map (fun p => match snd p with Some l => [(fst p, l)] | None => [] end) (enumerate ovs).
Definition pattern_key (e : existence) := (ov_items (x_src e), ov_items (x_tgt e)).

Definition key := (list (option (list nat) * nat * bool) * list (option (list nat) * nat * bool) *
                   list (nat * nat) * option (list (list (nat * list nat) * list (nat * list nat))) * option nat)%type.

Definition cache_key (s : settings) (pats : option (list existence)) : key :=
  (map node_key (s_src s), map node_key (s_tgt s), isort pair_leb (s_excl s), option_map (map pattern_key) pats, s_par s).

(* decidable equality of keys, for the driver *)
Definition list_eqb {A} (eqb : A -> A -> bool) : list A -> list A -> bool :=
  fix go a b := match a, b with [] , [] => true | x :: a', y :: b' => eqb x y && go a' b' | _, _ => false end.
Definition opt_eqb {A} (eqb : A -> A -> bool) (a b : option A) : bool :=
  match a, b with None, None => true | Some x, Some y => eqb x y | _, _ => false end.
Definition nk_eqb (a b : option (list nat) * nat * bool) : bool :=
  opt_eqb (list_eqb Nat.eqb) (fst (fst a)) (fst (fst b)) && (snd (fst a) =? snd (fst b)) && Bool.eqb (snd a) (snd b).
Definition item_eqb (a b : nat * list nat) : bool := (fst a =? fst b) && list_eqb Nat.eqb (snd a) (snd b).
Definition pk_eqb (a b : list (nat * list nat) * list (nat * list nat)) : bool :=
  list_eqb item_eqb (fst a) (fst b) && list_eqb item_eqb (snd a) (snd b).
Definition pp_eqb (a b : nat * nat) : bool := (fst a =? fst b) && (snd a =? snd b).
Definition ckey_eqb (a b : key) : bool :=
  match a, b with
  | (s1, t1, x1, p1, m1), (s2, t2, x2, p2, m2) =>
      list_eqb nk_eqb s1 s2 && list_eqb nk_eqb t1 t2 && list_eqb pp_eqb x1 x2 &&
      opt_eqb (list_eqb pk_eqb) p1 p2 && opt_eqb Nat.eqb m1 m2
  end.

(* ---------- the store ---------- *)
Section Store.
  Variables (S K V : Type) (keyf : S -> K) (keq : K -> K -> bool).

  Definition store := list (K * V).

  Fixpoint lookup (st : store) (k : K) : option V :=
    match st with [] => None | (k', v) :: t => if keq k' k then Some v else lookup t k end.
  Definition remove (st : store) (k : K) : store := filter (fun p => negb (keq (fst p) k)) st.

  (* Get s use fresh: get_best_assignment_manager(cache=use) / get_agg_matrix(cache=use) for settings s, where fresh is
     what a computation would deliver if one is run; both write the entry.  Reset s: reset_cache / reset_agg_matrix_cache. *)
  Inductive cop := Get (s : S) (use : bool) (fresh : V) | Reset (s : S).

  Definition cstep (st : store) (o : cop) : store * option V :=
    match o with
    | Get s use fresh =>
        match (if use then lookup st (keyf s) else None) with
        | Some v => (st, Some v)
        | None => ((keyf s, fresh) :: remove st (keyf s), Some fresh)
        end
    | Reset s => (remove st (keyf s), None)
    end.

  (* the outputs of a history, in order; one store serves every process, so a history interleaves all of them *)
  Fixpoint crun (st : store) (h : list cop) : list (cop * option V) :=
    match h with [] => [] | o :: t => (o, snd (cstep st o)) :: crun (fst (cstep st o)) t end.
End Store.
