(* Identity.v — structural identity of design space graphs (DSG.__hash__/__eq__, fingerprint/is_same): the canonical key
   is the sorted start nodes, sorted node identities, sorted edge identities (a multiset) and the constraint identities.
   Edges are given as numeric codes of (source, target, key, type). *)
From DSG Require Import Base.
Open Scope N_scope.

Record sgraph := { g_nodes : list N; g_edges : list N; g_start : list N; g_cons : list N }.

Fixpoint insert (x : N) (l : list N) : list N :=
  match l with [] => [x] | y :: t => if x <=? y then x :: l else y :: insert x t end.
Fixpoint isort (l : list N) : list N := match l with [] => [] | x :: t => insert x (isort t) end.

Record gkey := { k_start : list N; k_nodes : list N; k_edges : list N; k_cons : list N }.

Definition key_of (g : sgraph) : gkey :=
  {| k_start := isort (g_start g); k_nodes := isort (g_nodes g); k_edges := isort (g_edges g); k_cons := g_cons g |}.

Fixpoint listN_eqb (a b : list N) : bool :=
  match a, b with [] , [] => true | x :: s, y :: t => (x =? y) && listN_eqb s t | _, _ => false end.

Definition key_eqb (a b : gkey) : bool :=
  listN_eqb (k_start a) (k_start b) && listN_eqb (k_nodes a) (k_nodes b) &&
  listN_eqb (k_edges a) (k_edges b) && listN_eqb (k_cons a) (k_cons b).

(* the graph-level equality the implementation exposes *)
Definition same_graph (a b : sgraph) : bool := key_eqb (key_of a) (key_of b).

(* single structural edits *)
Definition add_node (g : sgraph) (n : N) : sgraph := {| g_nodes := n :: g_nodes g; g_edges := g_edges g; g_start := g_start g; g_cons := g_cons g |}.
Definition add_edge (g : sgraph) (e : N) : sgraph := {| g_nodes := g_nodes g; g_edges := e :: g_edges g; g_start := g_start g; g_cons := g_cons g |}.
Definition add_start (g : sgraph) (n : N) : sgraph := {| g_nodes := g_nodes g; g_edges := g_edges g; g_start := n :: g_start g; g_cons := g_cons g |}.
Definition add_con (g : sgraph) (c : N) : sgraph := {| g_nodes := g_nodes g; g_edges := g_edges g; g_start := g_start g; g_cons := g_cons g ++ [c] |}.
