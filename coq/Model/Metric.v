(* Metric.v — metric typing (GraphProcessor._get_metrics/_categorize_metrics/_choose_metric_type) and DSGEvaluator.evaluate *)
From DSG Require Import Base Dsg Sel.
From Coq Require Import QArith.
Open Scope N_scope.

Inductive mtype := TNone | TObj | TCon | TBoth.
(* a metric node: id, has a direction, reference value (if any), declared type (if any) *)
Record metric := { m_id : node; m_dir : bool; m_ref : option Q; m_ty : option mtype }.
Inductive role := RObj | RCon | RUnused | RAmbiguous.

Definition has_ref (m : metric) : bool := match m_ref m with Some _ => true | None => false end.

Definition classify (perm : bool) (m : metric) : role :=
  match m_ty m with
  | Some TNone => RUnused
  | ty =>
      let obj := m_dir m && perm in
      let con := m_dir m && has_ref m in
      match obj, con with
      | false, false => RUnused
      | true, false => RObj
      | false, true => RCon
      | true, true => match ty with Some TObj => RObj | Some TCon => RCon | _ => RAmbiguous end
      end
  end.

(* metrics are given in name order; permanent = closure of the initial graph with no choice taken *)
Definition classify_all (g : dsg) (ms : list metric) : option (list (node * role)) :=
  match permanent g with
  | None => None
  | Some P => Some (map (fun m => (m_id m, classify (memN (m_id m) P) m)) ms)
  end.

(* classification with the permanence flags the implementation computed (its notion of "permanent" also follows choices it
   resolves automatically); in_every_arch decides whether such a flag is sound *)
Definition classify_flags (ms : list (metric * bool)) : list (node * role) :=
  map (fun p => (m_id (fst p), classify (snd p) (fst p))) ms.

Definition in_every_arch (g : dsg) (n : node) : option bool :=
  match enum_adm g with
  | None => None
  | Some l => Some (forallb (fun s => match inst_nodes g s with Some J => memN n J | None => false end) l)
  end.

Definition objectives (rs : list (node * role)) : list node :=
  map fst (filter (fun p => match snd p with RObj => true | _ => false end) rs).
Definition constraints (rs : list (node * role)) : list node :=
  map fst (filter (fun p => match snd p with RCon => true | _ => false end) rs).
Definition ambiguous (rs : list (node * role)) : bool :=
  existsb (fun p => match snd p with RAmbiguous => true | _ => false end) rs.

(* evaluation results: a number or not-a-number *)
Inductive mval := VNum (q : Q) | VNaN.
Fixpoint lookupV (l : list (node * mval)) (n : node) : option mval :=
  match l with [] => None | (m, v) :: t => if m =? n then Some v else lookupV t n end.
Definition getv (vals : list (node * mval)) (n : node) : mval :=
  match lookupV vals n with Some v => v | None => VNaN end.

Definition ref_of (ms : list metric) (n : node) : mval :=
  match find (fun m => m_id m =? n) ms with
  | Some m => match m_ref m with Some q => VNum q | None => VNaN end
  | None => VNaN
  end.

(* evaluate: (objective values, constraint values, metric values stored on the instance) *)
Definition evaluate (ms : list metric) (rs : list (node * role)) (inst : list node) (vals : list (node * mval))
  : list mval * list mval * list (node * mval) :=
  (map (getv vals) (objectives rs),
   map (fun c => if memN c inst then getv vals c else ref_of ms c) (constraints rs),
   map (fun m => (m_id m, getv vals (m_id m))) (filter (fun m => memN (m_id m) inst) ms)).
