(* Dsg.v — the design space graph as data: nodes with kinds, typed edges, start nodes, choice constraints. *)
From DSG Require Import Base Constraint.
Open Scope N_scope.

Definition node := N.
Inductive ekind := Derives | Connects | Excludes | Incompat.
Inductive nkind := Generic | SelChoice | ConnChoice | Connector | Grouping | DesVarK | MetricK.

Definition edge := (node * node * ekind)%type.
Definition e_src (e : edge) : node := fst (fst e).
Definition e_tgt (e : edge) : node := snd (fst e).
Definition e_kind (e : edge) : ekind := snd e.

(* a choice constraint: type + per constrained choice the option list captured when the constraint was made *)
Definition ccon := (ctype * list (node * list node))%type.

Record dsg := { nodes : list (node * nkind); edges : list edge; start : list node; cons : list ccon }.

Definition ekind_eqb (a b : ekind) : bool :=
  match a, b with Derives, Derives | Connects, Connects | Excludes, Excludes | Incompat, Incompat => true | _, _ => false end.

Definition kind_of (g : dsg) (n : node) : nkind :=
  match find (fun p => fst p =? n) (nodes g) with Some p => snd p | None => Generic end.

Definition is_sel (g : dsg) (n : node) : bool := match kind_of g n with SelChoice => true | _ => false end.
Definition is_conn (g : dsg) (n : node) : bool := match kind_of g n with ConnChoice => true | _ => false end.
Definition is_choice (g : dsg) (n : node) : bool := is_sel g n || is_conn g n.

(* targets of DERIVES / CONNECTS out-edges (what the confirmed-node traversal follows) *)
Definition dc_succ (g : dsg) (m : node) : list node :=
  map e_tgt (filter (fun e => (e_src e =? m) &&
                              match e_kind e with Derives | Connects => true | _ => false end) (edges g)).

(* option nodes of a selection choice, in edge-list order (the builder lists them in the code's option order) *)
Definition sel_opts (g : dsg) (c : node) : list node :=
  map e_tgt (filter (fun e => (e_src e =? c) && ekind_eqb (e_kind e) Derives) (edges g)).

Definition incompat (g : dsg) : list (node * node) :=
  map (fun e => (e_src e, e_tgt e)) (filter (fun e => ekind_eqb (e_kind e) Incompat) (edges g)).

Definition sel_choices (g : dsg) : list node := map fst (filter (fun p => match snd p with SelChoice => true | _ => false end) (nodes g)).

(* selection-choice assignment: choice -> chosen option (first binding wins) *)
Definition assign := list (node * node).
Fixpoint lookup (s : assign) (c : node) : option node :=
  match s with [] => None | (c', o) :: t => if c' =? c then Some o else lookup t c end.
Definition assigned (s : assign) (c : node) : bool := match lookup s c with Some _ => true | None => false end.

Fixpoint dedupN (l : list N) : list N :=
  match l with [] => [] | x :: t => if memN x t then dedupN t else x :: dedupN t end.

Fixpoint index_of (x : node) (l : list node) : option nat :=
  match l with [] => None | y :: t => if y =? x then Some 0%nat else option_map S (index_of x t) end.
