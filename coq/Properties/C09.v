(* C09 — connection-set enumeration is exact. *)
From DSG Require Import Base Matrix MatrixP.

(* the enumerated matrices are exactly the integer matrices that respect the per-pair limits and whose row and column sums
   are allowed degrees (ValidM), for any settings and any existence pattern *)
Theorem C09_enum_exact : forall s e M, In M (enum_M s e) <-> ValidM s e M.
Proof. exact enum_M_exact. Qed.
Print Assumptions C09_enum_exact.

(* each listed once *)
Theorem C09_enum_nodup : forall s e, NoDup (enum_M s e).
Proof. exact enum_M_NoDup. Qed.
Print Assumptions C09_enum_nodup.

(* the validity test accepts a matrix iff it is in that set *)
Theorem C09_validate : forall s e M, validate s e M = true <-> ValidM s e M.
Proof. exact validate_spec. Qed.
Print Assumptions C09_validate.

Theorem C09_validate_iff_enumerated : forall s e M, validate s e M = true <-> In M (enum_M s e).
Proof. exact validate_iff_enumerated. Qed.
Print Assumptions C09_validate_iff_enumerated.

Theorem C09_count : forall s e, count_M s e = length (enum_M s e).
Proof. exact count_is_length. Qed.
Print Assumptions C09_count.

(* a source that the existence pattern marks absent takes no connection *)
Theorem C09_absent_unconnected : forall s e M i,
  ValidM s e M -> nth_ov (x_src e) i = Some [0] -> i < length (s_src s) -> rowsum (nth i M []) = 0.
Proof. exact absent_source_unconnected. Qed.
Print Assumptions C09_absent_unconnected.

Definition ex_s : settings := {|
  s_src := [{| c_list := None; c_min := 1; c_rep := true |}; {| c_list := Some [0;1]; c_min := 0; c_rep := true |}];
  s_tgt := [{| c_list := Some [1;2]; c_min := 0; c_rep := false |}; {| c_list := None; c_min := 0; c_rep := true |}];
  s_excl := [(1,1)]; s_par := None |}.
Example C09_ex : count_M ex_s {| x_src := [None; None]; x_tgt := [None; None] |} = 8
  /\ count_M ex_s {| x_src := [None; Some [0]]; x_tgt := [None; None] |} = 3
  /\ validate ex_s {| x_src := [None; None]; x_tgt := [None; None] |} [[1;2];[1;0]] = true
  /\ validate ex_s {| x_src := [None; None]; x_tgt := [None; None] |} [[2;0];[0;0]] = false.
Proof. vm_compute. repeat split. Qed.
