(* C05 — decoding is a pure function of graph, fixed values and vector.
   The correction search is a parameter `pick` with two stated hypotheses (answers inside the mask; consistent choice
   function). The theorems are about the mask / cache plumbing around it, for histories of any length. *)
From DSG Require Import Base Proc ProcP Neighborhood NeighborhoodP.

Theorem C05_decode_pure : forall (X : Type) (feasible_row : nat -> bool) (pick : mask -> X -> option nat),
  (forall m x r, pick m x = Some r -> m r = true) ->
  (forall m m' x r, pick m x = Some r -> (forall i, m' i = true -> m i = true) -> m' r = true -> pick m' x = Some r) ->
  forall fuel feas fixm x r feas',
    Inv feasible_row feas -> decode X feasible_row pick false fuel feas fixm x = Some (r, feas') ->
    pick (goal feasible_row fixm) x = Some r /\ Inv feasible_row feas' /\ feasible_row r = true /\ fixm r = true.
Proof. exact decode_pure. Qed.
Print Assumptions C05_decode_pure.

(* same result on a fresh processor and on one that served any sequence of decodes, fix and free operations *)
Theorem C05_any_history : forall (X : Type) (feasible_row : nat -> bool) (pick : mask -> X -> option nat),
  (forall m x r, pick m x = Some r -> m r = true) ->
  (forall m m' x r, pick m x = Some r -> (forall i, m' i = true -> m i = true) -> m' r = true -> pick m' x = Some r) ->
  forall fuel fuel' ops x r r' s1 s2,
    let s := run X feasible_row pick false fuel (init) ops in
    step X feasible_row pick false fuel s (Decode X x) = (s1, Some r) ->
    step X feasible_row pick false fuel' {| st_feas := mtrue; st_fix := st_fix s |} (Decode X x) = (s2, Some r') ->
    r = r'.
Proof. exact decode_after_any_history. Qed.
Print Assumptions C05_any_history.

(* returned instances are independent objects: whatever is stored on earlier ones, a decode hands out a pristine one *)
Theorem C05_independent_instances : forall ops s, AInv s ->
  Forall (fun o => o = None \/ o = Some 0) (snd (arun false s ops)).
Proof. exact decodes_see_pristine_instances. Qed.
Print Assumptions C05_independent_instances.

(* the code as found violated both (fixed by b7e31b6 and e876f05) *)
Theorem C05_inplace_mask_refuted :
  let s := run nat (fun _ => true) pick2 true 3 (init) [SetFixed nat only1; Decode nat 1%nat; SetFixed nat mtrue] in
  snd (step nat (fun _ => true) pick2 true 3 s (Decode nat 0%nat)) = Some 1%nat /\
  snd (step nat (fun _ => true) pick2 true 3 init (Decode nat 0%nat)) = Some 0%nat.
Proof. exact inplace_and_refuted. Qed.
Print Assumptions C05_inplace_mask_refuted.

Theorem C05_aliasing_refuted : snd (arun true ainit [ADecode 7; AMutate 0 42; ADecode 7]) = [Some 0; None; Some 42].
Proof. exact aliasing_refuted. Qed.
Print Assumptions C05_aliasing_refuted.

Example C05_ex_inv : AInv ainit /\ Inv (fun _ => true) mtrue.
Proof. split; [apply AInv_init|apply Inv_true]. Qed.

(* the fast encoder's imputation cache: keyed by the request alone (values and fixed flags; since 9b483be) a decode is the
   same function of the request after any history of decodes ... *)
Theorem C05_fast_cache_pure : forall feas (hist : list request) r,
  let c := fold_left (fun c q => fst (decode_cached feas c q)) hist [] in
  snd (decode_cached feas c r) = first_feasible feas r.
Proof. exact decode_cached_pure. Qed.
Print Assumptions C05_fast_cache_pure.

(* ... storing the result under every vector tried on the way (the code as found, defect F11) is not *)
Theorem C05_fast_cache_all_refuted :
  snd (decode_cached_all w_feas (fst (decode_cached_all w_feas [] w_r1)) w_r2) <> snd (decode_cached_all w_feas [] w_r2) /\
  snd (decode_cached w_feas (fst (decode_cached w_feas [] w_r1)) w_r2) = snd (decode_cached w_feas [] w_r2).
Proof. exact decode_cached_all_refuted. Qed.
Print Assumptions C05_fast_cache_all_refuted.
