(* C11 — connection choices respect connectors in every existence scenario. *)
From DSG Require Import Base Dsg Matrix MatrixP ConnChoice ConnChoiceP.

(* the connection sets offered in an instance are exactly the images of the valid matrices for the connectors present:
   allowed degree per present connector, nothing for absent ones, excluded pairs and forbidden parallels never *)
Theorem C11_sets_exact : forall specs I cc es,
  In es (conn_sets specs I cc) <->
  let '(s, sids, tids) := settings_for specs I cc in
  exists M, ValidM s (no_existence s) M /\ es = edges_of sids tids M.
Proof. exact conn_sets_exact. Qed.
Print Assumptions C11_sets_exact.

(* a grouping connector accepts exactly the sums of its present (finite) members' allowed degrees *)
Theorem C11_grouping_sums : forall ms d,
  (forall m, In m ms -> c_list m <> None) ->
  (deg_ok (combined ms) d = true <->
   exists ds, Forall2 (fun x m => match c_list m with Some l => In x l | None => False end) ds ms /\ d = sumn ds).
Proof. exact combined_finite_spec. Qed.
Print Assumptions C11_grouping_sums.

(* also with open-ended members: the grouping connector accepts every sum of degrees that its present members accept -- the
   minimum is that of the members present, not of all members of the initial graph *)
Theorem C11_grouping_accepts_sums : forall ms ds,
  Forall2 (fun x m => deg_ok m x = true) ds ms -> deg_ok (combined ms) (sumn ds) = true.
Proof. exact combined_accepts_sums. Qed.
Print Assumptions C11_grouping_accepts_sums.

Example C11_ex_open_group :
  deg_ok (combined [{| c_list := None; c_min := 1; c_rep := false |}]) 1 = true /\
  deg_ok (combined [{| c_list := None; c_min := 1; c_rep := false |}; {| c_list := None; c_min := 1; c_rep := false |}]) 1 = false.
Proof. vm_compute. split; reflexivity. Qed.

(* a validated edge list joins present connectors only and stands for a valid matrix *)
Theorem C11_validate_sound : forall specs I cc es,
  edges_valid specs I cc es = true ->
  let '(s, sids, tids) := settings_for specs I cc in
  ValidM s (no_existence s) (matrix_of sids tids es) /\
  forall e, In e es -> In (fst e) I /\ In (snd e) I.
Proof. exact edges_valid_sound. Qed.
Print Assumptions C11_validate_sound.

(* underlying exactness of the matrix enumeration *)
Theorem C11_matrices_exact : forall s e M, In M (enum_M s e) <-> ValidM s e M.
Proof. exact enum_M_exact. Qed.
Print Assumptions C11_matrices_exact.

Definition ex_specs : list (node * cnode) :=
  [(1%N, {| c_list := Some [1%nat]; c_min := 0%nat; c_rep := false |});
   (2%N, {| c_list := Some [0%nat;1%nat]; c_min := 0%nat; c_rep := false |});
   (3%N, {| c_list := None; c_min := 0%nat; c_rep := false |});
   (4%N, {| c_list := Some [0%nat;1%nat]; c_min := 0%nat; c_rep := false |})].
Definition ex_cc : cchoice := {| cc_id := 9%N; cc_src := [Group 8%N [1%N; 2%N]]; cc_tgt := [Single 3%N; Single 4%N]; cc_excl := [] |}.
Example C11_ex : length (conn_sets ex_specs [1;2;3;4;8]%N ex_cc) = 3%nat
  /\ length (conn_sets ex_specs [1;3;4;8]%N ex_cc) = 2%nat
  /\ conn_sets ex_specs [1;3;8]%N ex_cc = [[(8,3)]]%N.
Proof. vm_compute. repeat split. Qed.
