From DSG Require Import Base Dsg Sel SelP Problem.
Theorem C01_placeholder : True. Proof. exact I. Qed.
Print Assumptions C01_placeholder.
