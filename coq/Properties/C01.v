(* C01 — every design vector decodes to a valid architecture instance.
   The correction search (which valid vector is picked) is abstracted: decode_witness decides, for what the implementation
   returned, whether it is an architecture the graph semantics admit. These theorems say what a positive answer means. *)
From DSG Require Import Base Dsg Sel SelP DesVar Problem ProblemP.
From Coq Require Import QArith.

Theorem C01_decode_valid : forall g E k x x' act inst dvv s,
  decode_witness g E k x x' act inst dvv = Some (Some s) ->
  Adm g s /\ (forall n, In n inst <-> (Reach g s n /\ is_choice g n = false)).
Proof. exact decode_instance_is_closure. Qed.
Print Assumptions C01_decode_valid.

Theorem C01_witness_sound : forall g E k x x' act inst dvv s,
  decode_witness g E k x x' act inst dvv = Some (Some s) ->
  Adm g s /\ exists J, inst_nodes g s = Some J /\ (forall n, In n J <-> In n inst) /\
                       vars_ok k s J dvv E x x' act = true.
Proof. exact decode_witness_sound. Qed.
Print Assumptions C01_witness_sound.

(* decoding may only fail when nothing is admissible: the model's enumeration is empty iff no assignment is admissible *)
Theorem C01_error_only_if_empty : forall g l, enum_adm g = Some l -> (l = [] <-> forall s, ~ Adm g s).
Proof. exact infeasible_iff. Qed.
Print Assumptions C01_error_only_if_empty.

Definition ex_g : dsg := {|
  nodes := [(0,Generic);(1,Generic);(2,Generic);(3,DesVarK);(10,SelChoice)]%N;
  edges := [((0,10),Derives);((10,1),Derives);((10,2),Derives);((2,3),Derives)]%N;
  start := [0%N]; cons := [] |}.
Example C01_ex : decode_witness ex_g [VSel 10 [1;2]; VDv 3 (Disc 3)]%N Full [1; 5] [1; 2] [true; true] [0;2;3]%N [(3%N, 2)]
  = Some (Some [(10,2)]%N).
Proof. vm_compute. reflexivity. Qed.
