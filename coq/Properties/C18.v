(* C18 — identity, equality and serialization of graphs are structural. *)
From DSG Require Import Base Identity IdentityP.
From Coq Require Import Permutation.

(* a copy (same nodes, edges, start nodes in any order, same constraints) is equal to the original *)
Theorem C18_copy_equal : forall a b,
  Permutation (g_nodes a) (g_nodes b) -> Permutation (g_edges a) (g_edges b) -> Permutation (g_start a) (g_start b) ->
  g_cons a = g_cons b -> same_graph a b = true.
Proof. exact copy_same. Qed.
Print Assumptions C18_copy_equal.

(* ... and becomes unequal as soon as either side gains (or, by symmetry, loses) a node, an edge, a start node, a constraint *)
Theorem C18_node_edit : forall g n, same_graph (add_node g n) g = false.
Proof. exact add_node_differs. Qed.
Print Assumptions C18_node_edit.
Theorem C18_edge_edit : forall g e, same_graph (add_edge g e) g = false.
Proof. exact add_edge_differs. Qed.
Print Assumptions C18_edge_edit.
Theorem C18_start_edit : forall g n, same_graph (add_start g n) g = false.
Proof. exact add_start_differs. Qed.
Print Assumptions C18_start_edit.
Theorem C18_constraint_edit : forall g c, same_graph (add_con g c) g = false.
Proof. exact add_con_differs. Qed.
Print Assumptions C18_constraint_edit.
Theorem C18_symmetric : forall a b, same_graph a b = same_graph b a.
Proof. exact same_graph_sym. Qed.
Print Assumptions C18_symmetric.

(* equal graphs have the same hash for ANY hash function of the structural key (so in any process, with any hash seed);
   with an injective hash on the keys that occur, the hash decides equality *)
Theorem C18_same_hash : forall (h : gkey -> N) a b, same_graph a b = true -> h (key_of a) = h (key_of b).
Proof. exact same_graph_same_hash. Qed.
Print Assumptions C18_same_hash.
Theorem C18_hash_decides : forall (h : gkey -> N), (forall k1 k2, h k1 = h k2 -> k1 = k2) ->
  forall a b, (h (key_of a) = h (key_of b)) <-> same_graph a b = true.
Proof. exact hash_decides. Qed.
Print Assumptions C18_hash_decides.

Example C18_ex : same_graph {| g_nodes := [3;1;2]; g_edges := [12;23;12]; g_start := [1]; g_cons := [] |}%N
                            {| g_nodes := [1;2;3]; g_edges := [12;12;23]; g_start := [1]; g_cons := [] |}%N = true
  /\ same_graph {| g_nodes := [3;1;2]; g_edges := [12;23]; g_start := [1]; g_cons := [] |}%N
                {| g_nodes := [1;2;3]; g_edges := [12;12;23]; g_start := [1]; g_cons := [] |}%N = false.
Proof. vm_compute. split; reflexivity. Qed.
