(* C19 — the time limiter returns, raises or times out, and leaves nothing running (logic of the protocol). *)
From DSG Require Import Base Timeout TimeoutP.

(* for every schedule: the function's own result iff it completed before the expiry; otherwise TimeoutError *)
Theorem C19_outcome : forall p sched o w, 1 <= p_dur p -> run p sched = (MReturned o, w) ->
  (o = p_res p /\ p_dur p <= ticks_before_expire sched) \/
  (o = OTimeout /\ has_expire sched = true /\ ticks_before_expire sched < p_dur p).
Proof. exact outcome_spec. Qed.
Print Assumptions C19_outcome.

(* after the call has returned the worker is finished or dead — also when the function swallows the injected exception *)
Theorem C19_nothing_running : forall p sched o w, run p sched = (MReturned o, w) -> w = WDone \/ w = WDead.
Proof. exact nothing_running. Qed.
Print Assumptions C19_nothing_running.

(* a returned call is final *)
Theorem C19_returned_is_final : forall p sched o w, fold_left (step p) sched (MReturned o, w) = (MReturned o, w).
Proof. exact run_returned_stays. Qed.
Print Assumptions C19_returned_is_final.

Theorem C19_allowed_outcomes : forall p sched o w dur limit tol,
  1 <= p_dur p -> run p sched = (MReturned o, w) -> p_res p <> OTimeout ->
  (dur + tol < limit -> p_dur p <= ticks_before_expire sched) ->
  (limit + tol < dur -> ticks_before_expire sched < p_dur p) ->
  In o (allowed p dur limit tol).
Proof. exact allowed_sound. Qed.
Print Assumptions C19_allowed_outcomes.

Example C19_ex_race :
  run {| p_dur := 2; p_res := OValue 7; p_swallow := false |} [Tick; Tick; Expire] = (MReturned (OValue 7), WDone) /\
  run {| p_dur := 2; p_res := OValue 7; p_swallow := false |} [Tick; Expire; Tick] = (MReturned OTimeout, WDead) /\
  run {| p_dur := 3; p_res := OValue 7; p_swallow := true |} [Tick; Expire; Tick; Tick] = (MReturned OTimeout, WDone) /\
  run {| p_dur := 3; p_res := OValue 7; p_swallow := true |} [Tick; Expire; Tick] = (MJoining, WRunning 2 false).
Proof. vm_compute. repeat split. Qed.

(* nested limits (an outer limit around a call that sets its own, longer or shorter): for every schedule of worker progress
   and of the two expiries, once the caller has its answer neither the function nor the middle thread is running, and the
   answer is the function's result or TimeoutError *)
Theorem C19_nested_nothing_running : forall p sched o m w,
  nrun true p sched = (OReturned o, m, w) -> w = WDone \/ w = WDead.
Proof. exact nested_nothing_running. Qed.
Print Assumptions C19_nested_nothing_running.

Theorem C19_nested_middle_ended : forall fx p sched o m w,
  nrun fx p sched = (OReturned o, m, w) -> m = MidDone \/ m = MidDead.
Proof. exact nested_middle_ended. Qed.
Print Assumptions C19_nested_middle_ended.

Theorem C19_nested_outcome : forall fx p sched o m w,
  nrun fx p sched = (OReturned o, m, w) -> o = p_res p \/ o = OTimeout.
Proof. exact nested_outcome. Qed.
Print Assumptions C19_nested_outcome.

(* the limiter as found (before 7b08eac) leaves the function running: outer expiry, then inner expiry *)
Theorem C19_nested_leak_refuted :
  exists p sched o m k inj, nrun false p sched = (OReturned o, m, WRunning k inj).
Proof. exact nested_leak_refuted. Qed.
Print Assumptions C19_nested_leak_refuted.

(* what the driver lists for the correspondence run are reachable states only *)
Theorem C19_nested_exploration_sound : forall fx p n s s',
  In s' (nreach fx p n s) -> exists sched, length sched = n /\ fold_left (nstep fx p) sched s = s'.
Proof. exact nreach_reachable. Qed.
Print Assumptions C19_nested_exploration_sound.

Example C19_ex_nested :
  nrun true {| p_dur := 5; p_res := OValue 7; p_swallow := false |} [NTick; NExpireO; NTick; NExpireI; NTick]
    = (OReturned OTimeout, MidDead, WDead) /\
  nrun true {| p_dur := 2; p_res := OValue 7; p_swallow := false |} [NTick; NTick] = (OReturned (OValue 7), MidDone, WDone) /\
  nrun true {| p_dur := 5; p_res := OValue 7; p_swallow := false |} [NTick; NExpireI; NTick] = (OReturned OTimeout, MidDone, WDead).
Proof. vm_compute. repeat split. Qed.
