(* C14 — the fast selection-choice encoder is sound and covers the design space. *)
From DSG Require Import Base Dsg Sel SelP DesVar Problem ProblemP.

(* soundness: whatever passes decode_witness is an architecture the graph semantics admit *)
Theorem C14_sound : forall g E k x x' act inst dvv s,
  decode_witness g E k x x' act inst dvv = Some (Some s) ->
  Adm g s /\ (forall n, In n inst <-> (Reach g s n /\ is_choice g n = false)).
Proof. exact decode_instance_is_closure. Qed.
Print Assumptions C14_sound.

(* the reference set both encoders are compared with is exactly the admissible assignments *)
Theorem C14_reference_sound : forall g l, enum_adm g = Some l -> forall s, In s l -> Adm g s.
Proof. exact enum_adm_sound. Qed.
Print Assumptions C14_reference_sound.

Theorem C14_reference_complete : forall g l, enum_adm g = Some l -> forall s, Adm g s -> exists s', In s' l /\ same s' s.
Proof. exact enum_adm_complete. Qed.
Print Assumptions C14_reference_complete.

(* every admissible architecture can be produced by greedy resolution in some legal order (what the fast encoder does) *)
Theorem C14_greedy_reaches_all : forall g l, enum_adm g = Some l -> forall s, Adm g s -> exists s', Run g s' /\ same s' s.
Proof. exact adm_has_run. Qed.
Print Assumptions C14_greedy_reaches_all.
