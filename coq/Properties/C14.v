(* C14 — the fast selection-choice encoder is sound and covers the design space. *)
From DSG Require Import Base Dsg Sel SelP DesVar Problem ProblemP Neighborhood NeighborhoodP Greedy GreedyP.

(* soundness: whatever passes decode_witness is an architecture the graph semantics admit *)
Theorem C14_sound : forall g E k x x' act inst dvv s,
  decode_witness g E k x x' act inst dvv = Some (Some s) ->
  Adm g s /\ (forall n, In n inst <-> (Reach g s n /\ is_choice g n = false)).
Proof. exact decode_instance_is_closure. Qed.
Print Assumptions C14_sound.

(* the reference set both encoders are compared with is exactly the admissible assignments *)
Theorem C14_reference_sound : forall g l, enum_adm g = Some l -> forall s, In s l -> Adm g s.
Proof. exact enum_adm_sound. Qed.
Print Assumptions C14_reference_sound.

Theorem C14_reference_complete : forall g l, enum_adm g = Some l -> forall s, Adm g s -> exists s', In s' l /\ same s' s.
Proof. exact enum_adm_complete. Qed.
Print Assumptions C14_reference_complete.

(* every admissible architecture can be produced by greedy resolution in some legal order (what the fast encoder does) *)
Theorem C14_greedy_reaches_all : forall g l, enum_adm g = Some l -> forall s, Adm g s -> exists s', Run g s' /\ same s' s.
Proof. exact adm_has_run. Qed.
Print Assumptions C14_greedy_reaches_all.

(* the order in which the fast encoder tries vectors (_iter_neighborhood): exactly the space left by the fixed variables,
   every vector once, the requested vector first *)
Theorem C14_neighborhood_exact : forall vs, requested_ok vs -> forall x, In x (neighborhood vs) <-> in_space vs x.
Proof. exact neighborhood_exact. Qed.
Print Assumptions C14_neighborhood_exact.

Theorem C14_neighborhood_once : forall vs, requested_ok vs -> NoDup (neighborhood vs).
Proof. exact neighborhood_NoDup. Qed.
Print Assumptions C14_neighborhood_once.

(* so the search returns a feasible vector whenever that space contains one (coverage), the result respects the fixed
   variables, a feasible request is returned unchanged, and a failed search means the space holds no feasible vector *)
Theorem C14_search_total : forall feas vs, requested_ok vs -> (exists x, in_space vs x /\ feas x = true) ->
  exists y, first_feasible feas vs = Some y /\ feas y = true /\ in_space vs y.
Proof. exact first_feasible_total. Qed.
Print Assumptions C14_search_total.

Theorem C14_search_keeps_feasible_request : forall feas vs, feas (map (fun v : nvar => snd (fst v)) vs) = true ->
  first_feasible feas vs = Some (map (fun v : nvar => snd (fst v)) vs).
Proof. exact first_feasible_identity. Qed.
Print Assumptions C14_search_keeps_feasible_request.

Theorem C14_search_failure_means_empty : forall feas vs, requested_ok vs -> first_feasible feas vs = None ->
  forall x, in_space vs x -> feas x = false.
Proof. exact first_feasible_none. Qed.
Print Assumptions C14_search_failure_means_empty.

Example C14_ex_neighborhood : neighborhood [(3%nat, 1%Z, false); (2%nat, 0%Z, true)] = [[1;0];[2;0];[0;0]]%Z.
Proof. vm_compute. reflexivity. Qed.

(* ---- the decode of the fast encoder as a function of the graph (Greedy.fast_decode; compared "=" with the implementation
   on every generated graph without choice constraints outside the known-finding classes) ---- *)

(* soundness: whatever it returns is the instance of an admissible architecture of the graph semantics (Adm), reached from a
   vector of the neighbourhood of the request whose fixed entries are the requested ones; the corrected vector lists, per
   choice, the index taken from that vector, or -1 when the choice was not met or was resolved automatically *)
Theorem C14_fast_decode_sound : forall chk g ovars vars x fixed imp inst,
  requested_ok (nvars_of vars x fixed) ->
  fast_decode chk g ovars vars x fixed = Some (Some (imp, inst)) ->
  exists y s taken,
    in_space (nvars_of vars x fixed) y /\ settled g ovars s /\ (vars_wf g ovars -> Adm g s) /\ inst_nodes g s = Some inst /\
    imp = map (fun v => zlookup taken (fst v)) vars /\
    (forall c i, In (c, i) taken -> i = req_of vars y c) /\
    (chk = true -> respects_fixed g vars y fixed taken inst = true).
Proof. exact fast_decode_sound. Qed.
Print Assumptions C14_fast_decode_sound.

(* a vector that is already valid is returned unchanged *)
Theorem C14_fast_decode_identity : forall chk g ovars vars x fixed r,
  length x = length vars -> length fixed = length vars ->
  try_vector chk g ovars vars fixed x = Some (Some r) ->
  fast_decode chk g ovars vars x fixed = Some (Some r).
Proof. exact fast_decode_identity. Qed.
Print Assumptions C14_fast_decode_identity.

(* a greedy application that succeeds is an admissible architecture *)
Theorem C14_greedy_application_admissible : forall g vars x fuel s taken,
  vars_wf g vars -> greedy g vars x fuel [] [] [] = Some (TOk s taken) -> Adm g s.
Proof. exact greedy_adm. Qed.
Print Assumptions C14_greedy_application_admissible.

Example C14_ex_fast_decode :
  vars_wf g_f20 vars_f20 /\
  fast_decode true g_f20 vars_f20 vars_f20 [1; 0]%Z [false; false] = Some (Some ([1; -1]%Z, [0; 1; 4; 3; 6]%N)).
Proof.
  split; [|vm_compute; reflexivity]. split.
  - intros v [<-|[<-|[]]]; split; try reflexivity; intros o Ho; vm_compute; vm_compute in Ho; tauto.
  - intros c Hc. unfold is_sel, kind_of in Hc. vm_compute. 
    destruct (N.eq_dec c 10) as [->|]; [left; reflexivity|]. destruct (N.eq_dec c 11) as [->|]; [right; left; reflexivity|].
    exfalso. revert Hc. unfold g_f20. cbn [nodes find fst snd]. 
    repeat (match goal with |- context [N.eqb ?a c] => destruct (N.eqb_spec a c); [subst; try congruence|] end); cbn; congruence.
Qed.
