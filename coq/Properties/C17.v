(* C17 — metrics are classified and evaluated according to the documented contract. *)
From DSG Require Import Base Dsg Sel SelP Metric MetricP.
From Coq Require Import QArith.

Theorem C17_obj_only_if : forall perm m, classify perm m = RObj -> m_dir m = true /\ perm = true /\ m_ty m <> Some TNone.
Proof. exact classify_obj_only_if. Qed.
Print Assumptions C17_obj_only_if.

Theorem C17_con_only_if : forall perm m, classify perm m = RCon -> m_dir m = true /\ has_ref m = true /\ m_ty m <> Some TNone.
Proof. exact classify_con_only_if. Qed.
Print Assumptions C17_con_only_if.

Theorem C17_none_unused : forall perm m, m_ty m = Some TNone -> classify perm m = RUnused.
Proof. exact classify_none_unused. Qed.
Print Assumptions C17_none_unused.

Theorem C17_declared_decides : forall perm m,
  m_dir m = true -> perm = true -> has_ref m = true ->
  classify perm m = match m_ty m with
                    | Some TNone => RUnused | Some TObj => RObj | Some TCon => RCon | _ => RAmbiguous end.
Proof. exact classify_declared_decides. Qed.
Print Assumptions C17_declared_decides.

Theorem C17_no_direction_unused : forall perm m, m_dir m = false -> classify perm m = RUnused.
Proof. exact classify_no_dir_unused. Qed.
Print Assumptions C17_no_direction_unused.

(* an objective exists in every architecture: permanent nodes are reached under every option assignment *)
Theorem C17_objective_is_everywhere : forall g ms rs n,
  classify_all g ms = Some rs -> In n (objectives rs) -> forall s, Reach g s n.
Proof. exact objective_in_every_architecture. Qed.
Print Assumptions C17_objective_is_everywhere.

Theorem C17_flag_sound : forall g n, in_every_arch g n = Some true -> forall s, Adm g s -> Reach g s n.
Proof. exact in_every_arch_sound. Qed.
Print Assumptions C17_flag_sound.

Theorem C17_flagged_objective_is_everywhere : forall g (ms : list (metric * bool)) n,
  (forall m f, In (m, f) ms -> f = true -> in_every_arch g (m_id m) = Some true) ->
  In n (objectives (classify_flags ms)) -> forall s, Adm g s -> Reach g s n.
Proof. exact flagged_objective_everywhere. Qed.
Print Assumptions C17_flagged_objective_is_everywhere.

Theorem C17_eval_shape : forall ms rs inst vals,
  let '(o, c, _) := evaluate ms rs inst vals in
  length o = length (objectives rs) /\ length c = length (constraints rs).
Proof. exact evaluate_shape. Qed.
Print Assumptions C17_eval_shape.

(* given value | NaN when missing | exactly the reference value for a constraint whose node is absent *)
Theorem C17_eval_values : forall ms rs inst vals,
  let '(o, c, mv) := evaluate ms rs inst vals in
  (forall i n, nth_error (objectives rs) i = Some n ->
     nth_error o i = Some (match lookupV vals n with Some v => v | None => VNaN end)) /\
  (forall i n, nth_error (constraints rs) i = Some n ->
     nth_error c i = Some (if memN n inst then match lookupV vals n with Some v => v | None => VNaN end
                           else ref_of ms n)).
Proof. exact evaluate_values. Qed.
Print Assumptions C17_eval_values.

Example C17_ex : classify true {| m_id := 1%N; m_dir := true; m_ref := Some 2; m_ty := Some TCon |} = RCon
  /\ classify false {| m_id := 1%N; m_dir := true; m_ref := None; m_ty := None |} = RUnused
  /\ classify true {| m_id := 1%N; m_dir := true; m_ref := Some 2; m_ty := None |} = RAmbiguous.
Proof. repeat split. Qed.
