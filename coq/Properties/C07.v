From DSG Require Import Base Dsg Sel SelP Problem.
Theorem C07_placeholder : True. Proof. exact I. Qed.
Print Assumptions C07_placeholder.
