(* C07 — activeness and imputation follow one contract. *)
From DSG Require Import Base Dsg Sel SelP DesVar Problem ProblemP.
From Coq Require Import QArith.

(* active => the choice was reached / the design-variable node exists *)
Theorem C07_active_selection_exists : forall g E x x' act inst dvv s i c opts xi',
  decode_witness g E Full x x' act inst dvv = Some (Some s) ->
  nth_error E i = Some (VSel c opts) -> nth_error act i = Some true -> nth_error x' i = Some xi' ->
  exists o j, lookup s c = Some o /\ nth_error opts j = Some o /\ xi' == inject_Z (Z.of_nat j) /\
              Reach g s c /\ is_sel g c = true /\ Reach g s o /\ (is_choice g o = false -> In o inst).
Proof. exact active_sel_describes. Qed.
Print Assumptions C07_active_selection_exists.

Theorem C07_dv_active_iff_exists : forall g E k x x' act inst dvv s i n d xi xi' a,
  decode_witness g E k x x' act inst dvv = Some (Some s) ->
  nth_error E i = Some (VDv n d) -> nth_error x i = Some xi -> nth_error x' i = Some xi' -> nth_error act i = Some a ->
  (In n inst <-> a = true) /\
  (In n inst -> xi' == correct d xi /\ exists qv, lookupQ dvv n = Some qv /\ qv == xi') /\
  (~ In n inst -> xi' == canon d /\ lookupQ dvv n = None).
Proof. exact dv_present_iff_value. Qed.
Print Assumptions C07_dv_active_iff_exists.

(* inactive => canonical value *)
Theorem C07_inactive_canonical : forall g E x x' act inst dvv s i v xi',
  decode_witness g E Full x x' act inst dvv = Some (Some s) ->
  nth_error E i = Some v -> nth_error act i = Some false -> nth_error x' i = Some xi' ->
  match v with VSel _ _ => xi' == 0 | VDv n d => xi' == canon d /\ ~ In n inst end.
Proof. exact inactive_canonical. Qed.
Print Assumptions C07_inactive_canonical.

(* in the enumeration of valid designs an active entry always refers to something that exists *)
Theorem C07_row_active_only_if_exists : forall g E rows r, rows_of g E = Some rows -> In r rows ->
  exists s J, Adm g s /\ inst_nodes g s = Some J /\
    forall i v e, nth_error E i = Some v -> nth_error r i = Some e -> (e <> -1)%Z ->
      match v with
      | VSel c opts => (exists o, lookup s c = Some o) /\ Reach g s c
      | VDv n d => In n J
      end.
Proof. exact row_active_only_if_exists. Qed.
Print Assumptions C07_row_active_only_if_exists.
