(* C08 — design space graphs behave as persistent values.
   The specification is a heap of immutable values: every derive/copy/apply/constrain/decode operation appends a value that
   is a function of an existing one.  The implementation shares node objects between graphs; the one piece of per-graph
   state it keeps on a shared node (the aggregated degree of a grouping connector) is modelled as a shared cell. *)
From DSG Require Import Base Dsg Matrix ConnChoice Persist PersistP.
Local Open Scope nat_scope.

Theorem C08_existing_objects_unchanged : forall (V : Type) ops (h : list V) i, i < length h ->
  forallb (fun o => negb (targets V o i)) ops = true ->
  nth_error (prun V h ops) i = nth_error h i.
Proof. exact prun_old. Qed.
Print Assumptions C08_existing_objects_unchanged.

Theorem C08_observations_stable : forall (V O : Type) (obs : V -> O) ops1 ops2 (h : list V) i,
  i < length (prun V h ops1) -> forallb (fun o => negb (targets V o i)) ops2 = true ->
  option_map obs (nth_error (prun V h (ops1 ++ ops2)) i) = option_map obs (nth_error (prun V h ops1) i).
Proof. exact observation_stable. Qed.
Print Assumptions C08_observations_stable.

Theorem C08_derived_is_function_of_parent : forall (V : Type) ops (h : list V) i f v,
  nth_error (prun V h ops) i = Some v ->
  nth_error (prun V h (ops ++ [Derive V i f])) (length (prun V h ops)) = Some (f v).
Proof. exact derived_value. Qed.
Print Assumptions C08_derived_is_function_of_parent.

Theorem C08_stored_value_changes_that_object_only : forall (V : Type) (h : list V) i f v, nth_error h i = Some v ->
  nth_error (pstep V h (Update V i f)) i = Some (f v) /\
  forall k, k < length h -> k <> i -> nth_error (pstep V h (Update V i f)) k = nth_error h k.
Proof.
  intros V h i f v H. split; [exact (update_value V h i f v H)|].
  intros k Hk Hne. apply pstep_old; [exact Hk|]. simpl. apply Nat.eqb_neq. intros E. apply Hne. symmetry. exact E.
Qed.
Print Assumptions C08_stored_value_changes_that_object_only.

(* grouping connectors: reading the aggregated degree after a refresh for the graph at hand is stable under any further
   derivations ... *)
Theorem C08_refreshed_degree_stable : forall specs e st ops k, k < length (cs_heap st) ->
  read_refreshed specs e (crun specs e st ops) k = read_refreshed specs e st k.
Proof. exact read_refreshed_stable. Qed.
Print Assumptions C08_refreshed_degree_stable.

(* ... reading the shared cell is not (the defect F6 repaired by 04fe5a0) *)
Theorem C08_shared_cell_refuted :
  let st1 := cderive w_specs w_entry w_init 0 (filter (fun n => negb (N.eqb n 11))) in
  let st2 := cderive w_specs w_entry st1 0 (filter (fun n => negb (N.eqb n 10))) in
  read_shared st1 1 <> read_shared st2 1 /\
  read_refreshed w_specs w_entry st1 1 = read_refreshed w_specs w_entry st2 1.
Proof. exact read_shared_refuted. Qed.
Print Assumptions C08_shared_cell_refuted.

Example C08_ex : prun_ids [5%N] [(false, (0, 6%N)); (false, (1, 7%N)); (true, (1, 9%N)); (false, (0, 8%N))] = [5%N; 9%N; 7%N; 8%N].
Proof. vm_compute. reflexivity. Qed.
