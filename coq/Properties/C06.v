(* C06 — incompatibility constraints are enforced and never over-prune. *)
From DSG Require Import Base Dsg Sel SelP.

(* no admissible (= feasible) instance contains both ends of an incompatibility constraint *)
Theorem C06_enforced : forall g s I, Adm g s -> inst_nodes g s = Some I ->
  forall a b, In (a, b) (incompat g) -> ~ (In a I /\ In b I).
Proof. exact inst_no_conflict. Qed.
Print Assumptions C06_enforced.

(* an option whose selection necessarily confirms two incompatible nodes is in no admissible result *)
Theorem C06_doomed_option : forall g s c o a b,
  In (a, b) (incompat g) -> Reach g (s ++ [(c, o)]) a -> Reach g (s ++ [(c, o)]) b ->
  forall s', Adm g s' -> incl (s ++ [(c, o)]) s' -> False.
Proof. exact doomed_option. Qed.
Print Assumptions C06_doomed_option.

(* nothing more is removed: every assignment whose closure is free of incompatible pairs is enumerated and can be
   reached by a legal resolution order *)
Theorem C06_no_over_pruning : forall g l, enum_adm g = Some l ->
  forall s, Adm g s -> (exists s', In s' l /\ same s' s) /\ (exists s', Run g s' /\ same s' s).
Proof. exact no_over_pruning. Qed.
Print Assumptions C06_no_over_pruning.

(* a graph has no admissible assignment iff every assignment conflicts (or violates a choice constraint) *)
Theorem C06_infeasible_iff : forall g l, enum_adm g = Some l -> (l = [] <-> forall s, ~ Adm g s).
Proof. exact infeasible_iff. Qed.
Print Assumptions C06_infeasible_iff.

Definition ex_g : dsg := {|
  nodes := [(0,Generic);(1,Generic);(2,Generic);(3,Generic);(4,Generic);(5,Generic);(10,SelChoice);(11,SelChoice)]%N;
  edges := [((0,10),Derives);((10,1),Derives);((10,2),Derives);((0,11),Derives);((11,3),Derives);((11,4),Derives);
            ((2,5),Derives);((3,5),Incompat);((5,3),Incompat)]%N;
  start := [0%N]; cons := [] |}.
Example C06_ex_enum : enum_adm ex_g = Some [[(10,1);(11,3)];[(10,1);(11,4)];[(10,2);(11,4)]]%N.
Proof. vm_compute. reflexivity. Qed.
