(* C02 — an architecture instance is exactly the derivation closure of the choices made. *)
From DSG Require Import Base Dsg Sel SelP TotalP.

(* the executable closure computes exactly the declarative derivation closure *)
Theorem C02_closure_is_reach : forall g s W, closure g s = Some W -> forall n, In n W <-> Reach g s n.
Proof. exact closure_spec. Qed.
Print Assumptions C02_closure_is_reach.

(* resolving in any legal order until no active choice is left: the nodes are exactly the closure (nothing required is
   missing, nothing unreachable remains), all start nodes are there, no choice node is left *)
Theorem C02_instance_is_closure : forall g s W I,
  Run g s -> closure g s = Some W -> pending g s W = [] -> inst_nodes g s = Some I ->
  (forall n, In n I <-> (Reach g s n /\ is_choice g n = false)) /\
  (forall n, In n (start g) -> is_choice g n = false -> In n I) /\
  (forall n, In n I -> is_choice g n = false) /\
  (final_ok g s W = true -> Adm g s).
Proof. exact run_final_is_closure. Qed.
Print Assumptions C02_instance_is_closure.

(* the end result does not depend on the order in which the active choices were taken *)
Theorem C02_order_independent : forall g s s',
  Run g s -> Run g s' -> same s s' -> forall n, Reach g s n <-> Reach g s' n.
Proof. exact run_order_independent. Qed.
Print Assumptions C02_order_independent.

(* feasible instances reachable by resolving = assignments enumerated and filtered by incompatibility *)
Theorem C02_feasible_set_sound : forall g l, enum_adm g = Some l -> forall s, In s l -> Adm g s.
Proof. exact enum_adm_sound. Qed.
Print Assumptions C02_feasible_set_sound.

Theorem C02_feasible_set_complete : forall g l, enum_adm g = Some l -> forall s, Adm g s -> exists s', In s' l /\ same s' s.
Proof. exact enum_adm_complete. Qed.
Print Assumptions C02_feasible_set_complete.

Theorem C02_feasible_set_distinct : forall g l, opts_nodup g -> enum_adm g = Some l ->
  ForallOrdPairs (fun a b => ~ same a b) l.
Proof. exact enum_adm_distinct. Qed.
Print Assumptions C02_feasible_set_distinct.

Theorem C02_admissible_is_resolvable : forall g l, enum_adm g = Some l ->
  forall s, Adm g s -> exists s', Run g s' /\ same s' s.
Proof. exact adm_has_run. Qed.
Print Assumptions C02_admissible_is_resolvable.

Theorem C02_monotone : forall g s s', sub s s' -> forall n, Reach g s n -> Reach g s' n.
Proof. exact Reach_mono. Qed.
Print Assumptions C02_monotone.

(* non-vacuity: the theory-page style graph: 0 -> choice 10 {1,2}; 1 -> choice 11 {3,4}; 2 -> 5; incompat (4,5) unused *)
Definition ex_g : dsg := {|
  nodes := [(0,Generic);(1,Generic);(2,Generic);(3,Generic);(4,Generic);(5,Generic);(10,SelChoice);(11,SelChoice)]%N;
  edges := [((0,10),Derives);((10,1),Derives);((10,2),Derives);((1,11),Derives);((11,3),Derives);((11,4),Derives);
            ((2,5),Derives);((3,5),Incompat);((5,3),Incompat)]%N;
  start := [0%N]; cons := [] |}.
Example C02_ex_enum : enum_adm ex_g = Some [[(10,1);(11,3)];[(10,1);(11,4)];[(10,2)]]%N.
Proof. vm_compute. reflexivity. Qed.
Example C02_ex_inst : inst_nodes ex_g [(10,2)]%N = Some [0;2;5]%N.
Proof. vm_compute. reflexivity. Qed.
Example C02_ex_run : Run ex_g ([] ++ [(10,1)] ++ [(11,4)])%N.
Proof.
  rewrite app_assoc. apply Run_step; [apply (Run_step ex_g [] 10 1 (Run_nil _))| | | |].
  - apply R_edge with (m := 0%N); [apply R_start; left; reflexivity|reflexivity|vm_compute; tauto].
  - reflexivity.
  - intros [].
  - vm_compute; tauto.
  - apply R_edge with (m := 1%N); [|reflexivity|vm_compute; tauto].
    apply R_sel with (c := 10%N); [|reflexivity|reflexivity|vm_compute; tauto].
    apply R_edge with (m := 0%N); [apply R_start; left; reflexivity|reflexivity|vm_compute; tauto].
  - reflexivity.
  - simpl. intros [H|[]]. discriminate.
  - vm_compute; tauto.
Qed.

(* the fuelled closure and enumeration never run out of fuel on a graph whose start nodes and edge targets are declared
   nodes, so the statements above are about every such graph and every assignment *)
Theorem C02_closure_total : forall g s, wf_nodes g -> exists W, closure g s = Some W.
Proof. exact closure_total. Qed.
Print Assumptions C02_closure_total.

Theorem C02_enumeration_total : forall g, wf_nodes g -> exists l, enum_adm g = Some l.
Proof. exact enum_adm_total. Qed.
Print Assumptions C02_enumeration_total.

Example C02_ex_wf : wf_nodes ex_g.
Proof.
  split.
  - intros n Hn. vm_compute in Hn. vm_compute. tauto.
  - intros e He. vm_compute in He. repeat (destruct He as [<-|He]; [vm_compute; tauto|]). contradiction.
Qed.

(* only derivation and connection edges derive: an excluded-connection or incompatibility edge added to the graph leaves
   the closure of every assignment unchanged (the defect F16, repaired by a8ef938, was an implementation that followed
   EXCLUDES edges) *)
Theorem C02_non_deriving_edges_do_not_derive : forall g e s n, non_deriving e ->
  (Reach (add_edge g e) s n <-> Reach g s n).
Proof. exact reach_ignores_non_deriving_edges. Qed.
Print Assumptions C02_non_deriving_edges_do_not_derive.
