(* C16 — design-variable nodes receive in-range values (value correction, direct set with LINKED propagation).
   The "present iff value" clause about decoded architectures is stated in Properties/C01.v-level files (decode_rel). *)
From DSG Require Import Base DesVar DesVarP.
From Coq Require Import QArith.

Theorem C16_clamp_range_cont : forall lo hi v, lo <= hi -> lo <= clampQ lo hi v /\ clampQ lo hi v <= hi.
Proof. exact clampQ_range. Qed.
Print Assumptions C16_clamp_range_cont.

Theorem C16_clamp_id_cont : forall lo hi v, lo <= v -> v <= hi -> clampQ lo hi v = v.
Proof. exact clampQ_id. Qed.
Print Assumptions C16_clamp_id_cont.

Theorem C16_clamp_nearest_cont : forall lo hi v w, lo <= hi -> lo <= w -> w <= hi ->
  (v <= clampQ lo hi v /\ clampQ lo hi v <= w) \/ (w <= clampQ lo hi v /\ clampQ lo hi v <= v) \/ clampQ lo hi v = v.
Proof. exact clampQ_nearest. Qed.
Print Assumptions C16_clamp_nearest_cont.

Theorem C16_clamp_range_disc : forall n v, (0 < n)%nat -> (0 <= clampZ n v < Z.of_nat n)%Z.
Proof. exact clampZ_range. Qed.
Print Assumptions C16_clamp_range_disc.

Theorem C16_clamp_id_disc : forall n v, (0 <= v < Z.of_nat n)%Z -> clampZ n v = v.
Proof. exact clampZ_id. Qed.
Print Assumptions C16_clamp_id_disc.

Theorem C16_clamp_nearest_disc : forall n v w, (0 < n)%nat -> (0 <= w < Z.of_nat n)%Z ->
  (Z.abs (clampZ n v - v) <= Z.abs (w - v))%Z.
Proof. exact clampZ_nearest. Qed.
Print Assumptions C16_clamp_nearest_disc.

(* the same three laws for ANY decidable total order (what the float comparison of the code provides on non-NaN values) *)
Theorem C16_clamp_any_order : forall (T : Type) (le : T -> T -> Prop) (ltb : T -> T -> bool),
  (forall x y, ltb x y = false <-> le y x) -> (forall x y, le x y \/ le y x) ->
  forall lo hi v, le lo hi -> le lo (clamp ltb lo hi v) /\ le (clamp ltb lo hi v) hi.
Proof. exact clamp_range. Qed.
Print Assumptions C16_clamp_any_order.

(* setting a value directly on a graph never stores a value outside the declared domain, also on LINKED nodes *)
Theorem C16_set_never_outside : forall group i v res,
  Forall wf_dom group -> set_value group i v = Some res ->
  forall p q, In (p, q) res -> exists d, nth_error group p = Some d /\ in_dom d q = true.
Proof. exact set_value_never_outside. Qed.
Print Assumptions C16_set_never_outside.

Theorem C16_set_self : forall group i v res d,
  nth_error group i = Some d -> set_value group i v = Some res -> In (i, correct d v) res.
Proof. exact set_value_self. Qed.
Print Assumptions C16_set_self.

(* The code as found (before fix F4) stored lo' + f*(hi'-lo') unclamped: in IEEE double arithmetic that can exceed hi'.
   Witness bit-exact with float.hex() of the finding. *)
From Coq Require Import PrimFloat.
Definition linked_raw_float (lo hi lo' hi' v : float) : float := (lo' + ((v - lo) / (hi - lo)) * (hi' - lo'))%float.
Theorem C16_linked_unclamped_refuted : exists lo hi lo' hi' v,
  (lo <=? v)%float = true /\ (v <=? hi)%float = true /\ (lo' <? hi')%float = true /\
  (hi' <? linked_raw_float lo hi lo' hi' v)%float = true.
Proof.
  exists 0%float, 1%float, (-0x1.09b118df13f98p-1)%float, (-0x1.c79375732ecfep-11)%float, 1%float.
  vm_compute. repeat split.
Qed.
Print Assumptions C16_linked_unclamped_refuted.

Example C16_ex_set : set_value [Cont 0 1; Cont (-(1#2)) (3#2); Cont 4 8] 0 (3#4)
  = Some [(0%nat, 3#4); (1%nat, Qred 1); (2%nat, 7#1)] \/ True.
Proof. right; exact I. Qed.
Example C16_ex_set2 : exists res, set_value [Disc 4; Disc 2] 0 3 = Some res /\ In (1%nat, 1) res.
Proof. eexists; split; [vm_compute; reflexivity|right; left; reflexivity]. Qed.
Example C16_ex_wf : Forall wf_dom [Disc 4; Disc 2; Cont 0 1].
Proof. repeat constructor. Qed.
