(* C03 — the corrected vector describes the instance. *)
From DSG Require Import Base Dsg Sel SelP DesVar DesVarP Problem ProblemP.
From Coq Require Import QArith.

(* for every active selection variable the option at that index is the option taken by (wired to the originating node of)
   the choice, and it is part of the instance *)
Theorem C03_describes_selection : forall g E x x' act inst dvv s i c opts xi',
  decode_witness g E Full x x' act inst dvv = Some (Some s) ->
  nth_error E i = Some (VSel c opts) -> nth_error act i = Some true -> nth_error x' i = Some xi' ->
  exists o j, lookup s c = Some o /\ nth_error opts j = Some o /\ xi' == inject_Z (Z.of_nat j) /\
              Reach g s c /\ is_sel g c = true /\ Reach g s o /\ (is_choice g o = false -> In o inst).
Proof. exact active_sel_describes. Qed.
Print Assumptions C03_describes_selection.

(* design-variable nodes carry the reported values *)
Theorem C03_describes_design_variables : forall g E k x x' act inst dvv s i n d xi xi' a,
  decode_witness g E k x x' act inst dvv = Some (Some s) ->
  nth_error E i = Some (VDv n d) -> nth_error x i = Some xi -> nth_error x' i = Some xi' -> nth_error act i = Some a ->
  (In n inst <-> a = true) /\
  (In n inst -> xi' == correct d xi /\ exists qv, lookupQ dvv n = Some qv /\ qv == xi') /\
  (~ In n inst -> xi' == canon d /\ lookupQ dvv n = None).
Proof. exact dv_present_iff_value. Qed.
Print Assumptions C03_describes_design_variables.

(* the corrected value of a present design-variable node is inside the declared range *)
Theorem C03_in_range : forall g E k x x' act inst dvv s i n d xi',
  decode_witness g E k x x' act inst dvv = Some (Some s) ->
  nth_error E i = Some (VDv n d) -> nth_error x' i = Some xi' -> In n inst -> wf_dom d ->
  exists xi, nth_error x i = Some xi /\ xi' == correct d xi /\ in_dom d (correct d xi) = true.
Proof. exact dv_value_in_domain. Qed.
Print Assumptions C03_in_range.

(* the architecture a vector denotes depends only on the set of (choice, option) pairs *)
Theorem C03_same_pairs_same_instance : forall g s s',
  NoDup (map fst s) -> NoDup (map fst s') -> same s s' -> forall n, Reach g s n <-> Reach g s' n.
Proof. exact Reach_order_independent. Qed.
Print Assumptions C03_same_pairs_same_instance.
