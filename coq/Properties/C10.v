(* C10 — every connection encoder is a faithful, total and onto coding of connection sets.
   An encoder is observed as its finite decode table (input vector, corrected vector, activeness, matrix) per existence
   pattern; the extracted checker coding_ok decides the table; these theorems say what acceptance means, for any settings,
   any pattern and any table size. *)
From DSG Require Import Base Matrix MatrixP Coding CodingP.

Theorem C10_valid_and_in_range : forall s e nopts tbl, coding_ok s e nopts tbl = true ->
  forall o, In o tbl -> ValidM s e (o_mat o) /\ in_range nopts (o_out o) (o_act o) = true.
Proof. exact coding_valid. Qed.
Print Assumptions C10_valid_and_in_range.

Theorem C10_range_meaning : forall nopts x act, in_range nopts x act = true ->
  length x = length nopts /\ length act = length nopts /\
  forall i n v a, nth_error nopts i = Some n -> nth_error x i = Some v -> nth_error act i = Some a ->
    (0 <= v < Z.of_nat n)%Z /\ (a = false -> v = 0%Z).
Proof. exact in_range_spec. Qed.
Print Assumptions C10_range_meaning.

Theorem C10_idempotent : forall s e nopts tbl, coding_ok s e nopts tbl = true ->
  forall o, In o tbl ->
    exists o', In o' tbl /\ o_in o' = o_out o /\ o_out o' = o_out o /\ o_act o' = o_act o /\ o_mat o' = o_mat o.
Proof. exact coding_idempotent. Qed.
Print Assumptions C10_idempotent.

Theorem C10_onto : forall s e nopts tbl, coding_ok s e nopts tbl = true ->
  forall M, ValidM s e M -> exists o, In o tbl /\ o_mat o = M.
Proof. exact coding_onto. Qed.
Print Assumptions C10_onto.

Theorem C10_injective : forall s e nopts tbl, coding_ok s e nopts tbl = true ->
  forall o1 o2, In o1 tbl -> In o2 tbl -> o_out o1 = o_out o2 -> o_mat o1 = o_mat o2.
Proof. exact coding_injective. Qed.
Print Assumptions C10_injective.

Theorem C10_design_space_not_smaller : forall s e nopts tbl, coding_ok s e nopts tbl = true ->
  forall outs, (forall o, In o tbl -> In (o_out o) outs) -> length (enum_M s e) <= length outs.
Proof. exact coding_count. Qed.
Print Assumptions C10_design_space_not_smaller.

Theorem C10_verdict : forall s e nopts tbl, coding_verdict s e nopts tbl = 0 <-> coding_ok s e nopts tbl = true.
Proof. exact verdict_zero_iff. Qed.
Print Assumptions C10_verdict.

Definition ex_s : settings := {|
  s_src := [{| c_list := Some [1]; c_min := 0; c_rep := true |}];
  s_tgt := [{| c_list := Some [0;1]; c_min := 0; c_rep := true |}; {| c_list := Some [0;1]; c_min := 0; c_rep := true |}];
  s_excl := []; s_par := None |}.
Example C10_ex : coding_ok ex_s {| x_src := [None]; x_tgt := [None; None] |} [2]
  [ {| o_in := [0%Z]; o_out := [0%Z]; o_act := [true]; o_mat := [[1;0]] |};
    {| o_in := [1%Z]; o_out := [1%Z]; o_act := [true]; o_mat := [[0;1]] |};
    {| o_in := [5%Z]; o_out := [1%Z]; o_act := [true]; o_mat := [[0;1]] |} ] = true.
Proof. vm_compute. reflexivity. Qed.
