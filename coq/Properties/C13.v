(* C13 — choice constraints admit exactly the documented index combinations.
   Only statements here; every proof is `exact <lemma>`; Print Assumptions beneath each. *)
From DSG Require Import Base Constraint ConstraintP.
From Coq Require Import Sorted.

(* the index-combination function of the complete encoder, row by row; -1 (= not active together) entries are ignored *)
Theorem C13_linked : forall p row,
  valid_row Linked p row = true <-> (forall x y, In x (act row) -> In y (act row) -> x = y).
Proof. exact valid_row_linked. Qed.
Print Assumptions C13_linked.

Theorem C13_permutation : forall p row, valid_row Permutation p row = true <-> NoDup (act row).
Proof. exact valid_row_permutation. Qed.
Print Assumptions C13_permutation.

Theorem C13_unordered : forall p row, valid_row Unordered p row = true <-> StronglySorted Z.le (act row).
Proof. exact valid_row_unordered. Qed.
Print Assumptions C13_unordered.

Theorem C13_noreplace : forall row,
  valid_row UnorderedNorepl false row = true <-> StronglySorted Z.lt (act row).
Proof. exact valid_row_norepl. Qed.
Print Assumptions C13_noreplace.

Theorem C13_not_together : forall t p row row',
  act row = act row' -> (1 < length row)%nat -> (1 < length row')%nat -> valid_row t p row = valid_row t p row'.
Proof. exact valid_row_inactive_ignored. Qed.
Print Assumptions C13_not_together.

(* removing options from the siblings as choices are taken, in ANY order, admits exactly the documented combinations *)
Theorem C13_removal_consistent : forall t ns v before,
  length ns = length v -> total_order (length v) before ->
  (forall a b, a < length v -> b < length v -> nth a v 0 < nth b ns 0) ->
  ((forall a b, a < length v -> b < length v -> a <> b -> before a b ->
       ~ In (nth b v 0) (removed_pos t (nth b ns 0) b a (nth a v 0)))
   <-> pairwise t v).
Proof. exact removal_consistent. Qed.
Print Assumptions C13_removal_consistent.

Theorem C13_rule_is_pairwise : forall t v, idx_okb t (map Z.of_nat v) = true <-> pairwise t v.
Proof. exact idx_okb_pairwise. Qed.
Print Assumptions C13_rule_is_pairwise.

(* up-front removal loses no valid combination; an unsatisfiable permutation constraint has no valid combination *)
Theorem C13_pre_removed_sound : forall ns v i j,
  length ns = length v -> pairwise UnorderedNorepl v ->
  (forall a, a < length v -> nth a v 0 < nth a ns 0) ->
  (forall a b, a < length v -> b < length v -> nth a ns 0 = nth b ns 0) ->
  i < length v -> In (i, j) (flat_map (fun p => map (pair (fst p)) (snd p)) (pre_removed UnorderedNorepl ns true)) ->
  nth i v 0 <> j.
Proof. exact pre_removed_norepl_sound. Qed.
Print Assumptions C13_pre_removed_sound.

Theorem C13_unsat_permutation : forall ns v,
  length ns = length v -> pairwise Permutation v ->
  (forall a, a < length v -> nth a v 0 < fold_right Nat.max 0 ns) ->
  length v <= fold_right Nat.max 0 ns.
Proof. exact pre_removed_permutation_sound. Qed.
Print Assumptions C13_unsat_permutation.

(* non-vacuity *)
Example C13_ex_rows :
  valid_idx_rows Linked false [[0;0];[0;1];[1;0];[1;1]]%Z = [0;3] /\
  valid_idx_rows Permutation false [[0;0];[0;1];[1;0];[1;1]]%Z = [1;2] /\
  valid_idx_rows Unordered false [[0;0];[0;1];[1;0];[1;1]]%Z = [0;1;3] /\
  valid_idx_rows UnorderedNorepl false [[0;0];[0;1];[1;0];[1;1];[1;-1]]%Z = [1;4].
Proof. vm_compute. repeat split. Qed.

Example C13_ex_removal : pairwise UnorderedNorepl [0;1;2] /\ removed_options UnorderedNorepl [3;3;3] 1 1 = [(0,[1;2]);(2,[0;1])].
Proof. split; [intros a b Hab Hb; simpl in Hb; destruct a as [|[|[|a]]], b as [|[|[|b]]]; simpl; lia|reflexivity]. Qed.
