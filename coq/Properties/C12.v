(* C12 — encoder selection always succeeds and the disk caches are transparent.
   Selection is modelled as a function of the score rows of the candidate managers that could be constructed
   (Selector.select / get_best); the caches as one keyed store shared by all processes (Cache.cstep) with the structured
   value that MatrixGenSettings.get_cache_key digests as key (Cache.cache_key).  "A working coding" is C10's coding_ok. *)
From DSG Require Import Base Matrix Coding CodingP Selector SelectorP Cache CacheP.
From Coq Require Import QArith.
Local Open Scope nat_scope.

(* the priority-area search never fails with an exception and only returns rows of the table *)
Theorem C12_get_best_in_range : forall knows np by_inf t,
  get_best knows np by_inf t <> RRaise /\ forall i, get_best knows np by_inf t = RIdx i -> i < length t.
Proof. exact get_best_good. Qed.
Print Assumptions C12_get_best_in_range.

(* the last resort (all areas, by information index) finds a row in every non-empty table *)
Theorem C12_get_best_inf_total : forall knows t, t <> [] -> exists i, get_best knows None true t = RIdx i.
Proof. exact get_best_inf_total. Qed.
Print Assumptions C12_get_best_inf_total.

(* the row comes from the first non-empty priority area that is allowed ... *)
Theorem C12_get_best_first_area : forall knows np by_inf t k, get_best knows np by_inf t = RIdx k ->
  exists pre a post, areas by_inf = pre ++ a :: post /\
    (forall a', In a' pre -> filter (in_area by_inf a') (mk_rows knows t) = []) /\
    (match np with Some n => length pre < n | None => True end) /\
    best_within by_inf (filter (in_area by_inf a) (mk_rows knows t)) = RIdx k.
Proof. exact get_best_first_area. Qed.
Print Assumptions C12_get_best_first_area.

(* ... and is the best of that area: largest distance correlation, then smallest imputation ratio *)
Theorem C12_best_by_distance_correlation : forall sel i, best_within false sel = RIdx i ->
  exists b, In b sel /\ r_idx b = i /\ has_dc b = true /\
    (forall r, In r sel -> has_dc r = true -> (dc_val r <= dc_val b)%Q) /\
    (forall r, In r sel -> has_dc r = true -> (dc_val r == dc_val b)%Q -> (r_nimp b <= r_nimp r)%Q).
Proof. exact best_within_dc_spec. Qed.
Print Assumptions C12_best_by_distance_correlation.

(* or smallest imputation ratio, then largest information index *)
Theorem C12_best_by_information_index : forall sel i, best_within true sel = RIdx i ->
  exists b, In b sel /\ r_idx b = i /\
    (forall r, In r sel -> (r_nimp b <= r_nimp r)%Q) /\
    (forall r, In r sel -> (r_nimp r == r_nimp b)%Q -> (c_inf (r_c r) <= c_inf (r_c b))%Q).
Proof. exact best_within_inf_spec. Qed.
Print Assumptions C12_best_by_information_index.

(* the score post-processing keeps imputation ratio and information index and rounds the (group mean of the) distance
   correlation to the nearest hundredth, a tie to the even neighbour *)
Theorem C12_rounding : forall q,
  let z := round_half_even q in
  (inject_Z z - (1#2) <= q <= inject_Z z + (1#2))%Q /\
  ((q == inject_Z z + (1#2))%Q \/ (q == inject_Z z - (1#2))%Q -> Z.even z = true).
Proof. exact round_half_even_spec. Qed.
Print Assumptions C12_rounding.

Theorem C12_equalize_keeps_scores : forall t, map c_imp (equalize t) = map c_imp t /\ map c_inf (equalize t) = map c_inf t.
Proof. exact equalize_keeps_scores. Qed.
Print Assumptions C12_equalize_keeps_scores.

(* the staged selection: default manager iff there are no matrices; otherwise a constructed candidate of a family that
   was created; an exception only if not one candidate of any family could be constructed *)
Theorem C12_select_outcome : forall e,
  match fst (select e) with
  | OChosen st f p => p < length (ftable e f) /\ (f = FPat -> e_excl e = false)
  | ODefault => e_nmat e = Some 0%N
  | ORaise => e_nmat e <> Some 0%N /\ all_candidates e = []
  | OBad => False
  end.
Proof. exact select_ok. Qed.
Print Assumptions C12_select_outcome.

Theorem C12_select_succeeds : forall e, e_nmat e <> Some 0%N -> all_candidates e <> [] ->
  exists st f p, fst (select e) = OChosen st f p /\ p < length (ftable e f).
Proof. exact select_total. Qed.
Print Assumptions C12_select_succeeds.

Theorem C12_select_no_matrices : forall e, e_nmat e = Some 0%N -> select e = (ODefault, []).
Proof. exact select_default. Qed.
Print Assumptions C12_select_no_matrices.

(* caches: every history of cached / uncached requests and resets, by any number of processes sharing the store, delivers
   for each request a result acceptable for the settings asked, provided settings sharing a key accept the same results *)
Theorem C12_cache_transparent : forall (S K V : Type) (keyf : S -> K) (keq : K -> K -> bool),
  (forall a b, keq a b = true <-> a = b) ->
  forall ok : S -> V -> Prop, (forall s1 s2, keyf s1 = keyf s2 -> forall v, ok s1 v -> ok s2 v) ->
  forall h st, inv S K V keyf keq ok st -> Forall (fresh_ok S V ok) h ->
  Forall (out_ok S V ok) (crun S K V keyf keq st h).
Proof. exact crun_transparent. Qed.
Print Assumptions C12_cache_transparent.

Theorem C12_cache_equals_fresh : forall (S K V : Type) (keyf : S -> K) (keq : K -> K -> bool) (compute : S -> V),
  (forall a b, keq a b = true <-> a = b) ->
  (forall s1 s2, keyf s1 = keyf s2 -> compute s1 = compute s2) ->
  forall h, Forall (fun o => match o with Get _ _ s _ v => v = compute s | Reset _ _ _ => True end) h ->
  Forall (fun p => match fst p with Get _ _ s _ _ => snd p = Some (compute s) | Reset _ _ _ => snd p = None end)
         (crun S K V keyf keq [] h).
Proof. exact cache_transparent_det. Qed.
Print Assumptions C12_cache_equals_fresh.

(* the key condition is necessary *)
Theorem C12_collision_breaks_transparency : forall (S K V : Type) (keyf : S -> K) (keq : K -> K -> bool) (compute : S -> V) s1 s2,
  (forall a b, keq a b = true <-> a = b) -> keyf s1 = keyf s2 -> compute s1 <> compute s2 ->
  exists h, Forall (fun o => match o with Get _ _ s _ v => v = compute s | Reset _ _ _ => True end) h /\
            exists v, In (Get S V s2 true (compute s2), Some v) (crun S K V keyf keq [] h) /\ v <> compute s2.
Proof. exact cache_collision_observable. Qed.
Print Assumptions C12_collision_breaks_transparency.

(* the key of the implementation: settings that share it have the same valid connection matrices under every pattern and
   the same list of patterns *)
Theorem C12_shared_key_same_matrices : forall s1 p1 s2 p2, cache_key s1 p1 = cache_key s2 p2 ->
  (forall e M, ValidM s1 e M <-> ValidM s2 e M) /\ option_map (map pattern_key) p1 = option_map (map pattern_key) p2.
Proof. intros s1 p1 s2 p2 H. split; [exact (shared_entry_same_matrices s1 p1 s2 p2 H)|exact (proj2 (cache_key_seqv s1 p1 s2 p2 H))]. Qed.
Print Assumptions C12_shared_key_same_matrices.

Theorem C12_pattern_key_injective : forall e1 e2, length (x_src e1) = length (x_src e2) -> length (x_tgt e1) = length (x_tgt e2) ->
  pattern_key e1 = pattern_key e2 -> e1 = e2.
Proof. exact pattern_key_inj. Qed.
Print Assumptions C12_pattern_key_injective.

Theorem C12_key_eqb_decides : forall a b, ckey_eqb a b = true <-> a = b.
Proof. exact ckey_eqb_spec. Qed.
Print Assumptions C12_key_eqb_decides.

(* non-vacuity *)
Example C12_ex_select :
  fst (select {| e_excl := false; e_nmat := None; e_nmax := 1000%N; e_pat := []; e_eag := [];
                 e_laz := [{| c_imp := 200%Q; c_inf := (1#10)%Q; c_dc := None |}];
                 e_enum := [{| c_imp := 1%Q; c_inf := 0%Q; c_dc := None |}] |}) = OChosen S4_all_inf_idx FEnum 0.
Proof. vm_compute. reflexivity. Qed.

Example C12_ex_stage1 :
  fst (select {| e_excl := false; e_nmat := Some 5%N; e_nmax := 1000%N; e_pat := [];
                 e_eag := [{| c_imp := 1%Q; c_inf := 1%Q; c_dc := Some (9#10)%Q |}; {| c_imp := 3%Q; c_inf := 1%Q; c_dc := Some 1%Q |}];
                 e_laz := [{| c_imp := 1%Q; c_inf := (1#2)%Q; c_dc := Some (1#2)%Q |}];
                 e_enum := [] |}) = OChosen S1_init_all FEag 0.
Proof. vm_compute. reflexivity. Qed.

Example C12_ex_keys :
  let a := {| s_src := [{| c_list := Some [2;1]; c_min := 0; c_rep := true |}]; s_tgt := [{| c_list := None; c_min := 1; c_rep := false |}];
              s_excl := [(1,0);(0,0)]; s_par := None |} in
  let b := {| s_src := [{| c_list := Some [1;2]; c_min := 7; c_rep := true |}]; s_tgt := [{| c_list := None; c_min := 1; c_rep := false |}];
              s_excl := [(0,0);(1,0)]; s_par := None |} in
  let c := {| s_src := [{| c_list := Some [1;2]; c_min := 0; c_rep := false |}]; s_tgt := [{| c_list := None; c_min := 1; c_rep := false |}];
              s_excl := [(0,0);(1,0)]; s_par := None |} in
  ckey_eqb (cache_key a None) (cache_key b None) = true /\ ckey_eqb (cache_key a None) (cache_key c None) = false.
Proof. vm_compute. split; reflexivity. Qed.
