(* C15 — fixing a design variable restricts the design space exactly; freeing restores it. *)
From DSG Require Import Base Proc ProcP Dsg Sel Neighborhood NeighborhoodP Greedy GreedyP.
Open Scope Z_scope.

(* every design of the restricted problem is an original design (column removed) in which the variable has that value —
   or, for a design-variable-node variable, is inactive *)
Theorem C15_subset : forall sel i v rows r',
  In r' (restrict_rows sel i v rows) ->
  exists r, In r rows /\ r' = drop_col i r /\ (nth i r (-1) = v \/ (sel = false /\ nth i r (-1) = -1)).
Proof. exact restrict_subset. Qed.
Print Assumptions C15_subset.

(* every original design in which the variable is active with that value is still present *)
Theorem C15_keeps : forall sel i v rows r,
  In r rows -> nth i r (-1) = v -> In (drop_col i r) (restrict_rows sel i v rows).
Proof. exact restrict_keeps. Qed.
Print Assumptions C15_keeps.

(* none in which it is active with another value is *)
Theorem C15_drops : forall sel i v rows r,
  In r rows -> nth i r (-1) <> v -> nth i r (-1) <> -1 -> ~ In r (filter (keep_row sel i v) rows).
Proof. exact restrict_drops. Qed.
Print Assumptions C15_drops.

Theorem C15_count : forall sel i v rows,
  length (restrict_rows sel i v rows) = length (filter (keep_row sel i v) rows).
Proof. exact restrict_count. Qed.
Print Assumptions C15_count.

Close Scope Z_scope.
(* decodes under fixed values only return rows the fixed values allow *)
Theorem C15_decode_respects_fixed : forall (X : Type) (feasible_row : nat -> bool) (pick : mask -> X -> option nat),
  (forall m x r, pick m x = Some r -> m r = true) ->
  (forall m m' x r, pick m x = Some r -> (forall i, m' i = true -> m i = true) -> m' r = true -> pick m' x = Some r) ->
  forall fuel feas fixm x r feas',
    Inv feasible_row feas -> decode X feasible_row pick false fuel feas fixm x = Some (r, feas') -> fixm r = true.
Proof. exact decode_respects_fixed. Qed.
Print Assumptions C15_decode_respects_fixed.

(* freeing restores the original problem after any sequence of fix / free / decode operations: a decode after the
   history equals the decode of a fresh processor carrying the same fixed mask (in particular: none) *)
Theorem C15_free_restores : forall (X : Type) (feasible_row : nat -> bool) (pick : mask -> X -> option nat),
  (forall m x r, pick m x = Some r -> m r = true) ->
  (forall m m' x r, pick m x = Some r -> (forall i, m' i = true -> m i = true) -> m' r = true -> pick m' x = Some r) ->
  forall fuel fuel' ops x r r' s1 s2,
    let s := run X feasible_row pick false fuel (init) ops in
    step X feasible_row pick false fuel s (Decode X x) = (s1, Some r) ->
    step X feasible_row pick false fuel' {| st_feas := mtrue; st_fix := st_fix s |} (Decode X x) = (s2, Some r') ->
    r = r'.
Proof. exact decode_after_any_history. Qed.
Print Assumptions C15_free_restores.

Theorem C15_inplace_mask_refuted :
  let s := run nat (fun _ => true) pick2 true 3 (init) [SetFixed nat only1; Decode nat 1%nat; SetFixed nat mtrue] in
  snd (step nat (fun _ => true) pick2 true 3 s (Decode nat 0%nat)) = Some 1%nat /\
  snd (step nat (fun _ => true) pick2 true 3 init (Decode nat 0%nat)) = Some 0%nat.
Proof. exact inplace_and_refuted. Qed.
Print Assumptions C15_inplace_mask_refuted.

Example C15_ex : restrict_rows true 0 1 [[0;-1];[1;0];[1;1]]%Z = [[0];[1]]%Z
  /\ restrict_rows false 1 0 [[0;-1];[1;0];[1;1]]%Z = [[0];[1]]%Z.
Proof. vm_compute. split; reflexivity. Qed.

(* the fast encoder under fixed values (Greedy.fast_decode): the accepted vector keeps the fixed entries (in_space) and its
   instance passes the check respects_fixed -- a fixed choice that the vector could not be applied to was not given another
   option while its originating node is in the instance *)
Theorem C15_fast_decode_respects_fixed : forall g ovars vars x fixed imp inst,
  requested_ok (nvars_of vars x fixed) ->
  fast_decode true g ovars vars x fixed = Some (Some (imp, inst)) ->
  exists y taken, in_space (nvars_of vars x fixed) y /\ respects_fixed g vars y fixed taken inst = true /\
                  imp = map (fun v => zlookup taken (fst v)) vars.
Proof. exact fast_decode_respects. Qed.
Print Assumptions C15_fast_decode_respects_fixed.

(* as found (before 30ede4f, check off) the fixed value was ignored: choice 11 fixed to option 5, the free choice 10 asks for
   node 3, which is incompatible with 5 -- the instance has 6 and the choice is reported inactive; with the check the
   neighbour (10 -> 2, 11 -> 5) is returned *)
Theorem C15_fixed_value_ignored_refuted :
  fast_decode false g_f20 vars_f20 vars_f20 [1; 0]%Z [false; true] = Some (Some ([1; -1]%Z, [0; 1; 4; 3; 6]%N)) /\
  fast_decode true g_f20 vars_f20 vars_f20 [1; 0]%Z [false; true] = Some (Some ([0; 0]%Z, [0; 1; 4; 2; 5]%N)).
Proof. exact fixed_value_ignored_refuted. Qed.
Print Assumptions C15_fixed_value_ignored_refuted.
