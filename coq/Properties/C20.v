(* C20 — a supplementary graph resolves to the mapped option for each source architecture. *)
From DSG Require Import Base Constraint Dsg Sel SelP Sup SupP.

Theorem C20_resolved : forall g maps src_inst src_s s I,
  resolve g maps src_inst src_s = Some (s, I) ->
  (forall n, In n I <-> (Reach g s n /\ is_choice g n = false)) /\
  (forall c, is_sel g c = true -> Reach g s c -> exists o, lookup s c = Some o) /\
  (forall c m, In (c, m) maps -> exists o, resolve_one src_inst src_s m = Some o /\ lookup s c = Some o).
Proof. exact resolve_spec. Qed.
Print Assumptions C20_resolved.

Theorem C20_option_mapping : forall src_inst src_s c origin sopts cond tbl o,
  resolve_one src_inst src_s (MOpt c origin sopts cond tbl) = Some o ->
  (In origin src_inst /\ exists so, lookup src_s c = Some so /\ assocO tbl (Some so) = Some o) \/
  (~ In origin src_inst /\ assocO tbl None = Some o).
Proof. exact resolve_one_option. Qed.
Print Assumptions C20_option_mapping.

Theorem C20_existence_mapping : forall src_inst src_s tbl d o,
  resolve_one src_inst src_s (MExist tbl d) = Some o ->
  (exists pre n post, tbl = pre ++ (n, o) :: post /\ In n src_inst /\ forall p, In p pre -> ~ In (fst p) src_inst) \/
  ((forall p, In p tbl -> ~ In (fst p) src_inst) /\ d = Some o).
Proof. exact resolve_one_existence. Qed.
Print Assumptions C20_existence_mapping.

Theorem C20_accepted_mappings_are_complete : forall g maps c sc origin sopts cond tbl,
  maps_ok g maps = true -> In (c, MOpt sc origin sopts cond tbl) maps ->
  (forall o, In o sopts -> exists v, assocO tbl (Some o) = Some v) /\
  (cond = true -> exists v, assocO tbl None = Some v).
Proof. exact maps_ok_complete. Qed.
Print Assumptions C20_accepted_mappings_are_complete.

Theorem C20_rejects : forall g maps src_inst src_s,
  (maps_ok g maps = false \/ sup_assign src_inst src_s maps = None) -> resolve g maps src_inst src_s = None.
Proof. exact resolve_rejects. Qed.
Print Assumptions C20_rejects.

Definition ex_sup : dsg := {|
  nodes := [(0,Generic);(1,Generic);(2,Generic);(9,SelChoice)]%N;
  edges := [((0,9),Derives);((9,1),Derives);((9,2),Derives)]%N; start := [0%N]; cons := [] |}.
Example C20_ex : resolve ex_sup [(9, MOpt 20 10 [11;12] true [(Some 11, 1); (Some 12, 2); (None, 2)])]%N [10;12]%N [(20,12)]%N
  = Some ([(9,2)], [0;2])%N
  /\ resolve ex_sup [(9, MOpt 20 10 [11;12] true [(Some 11, 1); (Some 12, 2); (None, 1)])]%N [5]%N []%N = Some ([(9,1)], [0;1])%N
  /\ resolve ex_sup [(9, MExist [(7,1);(8,2)] (Some 1))]%N [8]%N []%N = Some ([(9,2)], [0;2])%N
  /\ resolve ex_sup []%N [8]%N []%N = None.
Proof. vm_compute. repeat split. Qed.
