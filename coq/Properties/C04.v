From DSG Require Import Base Dsg Sel SelP Problem.
Theorem C04_placeholder : True. Proof. exact I. Qed.
Print Assumptions C04_placeholder.
