(* C04 — the enumerated valid design vectors are exactly the architectures. *)
From DSG Require Import Base Dsg Sel SelP DesVar Problem ProblemP RowsP.

(* a vector is listed iff it is the vector of an admissible assignment with in-domain design-variable values *)
Theorem C04_rows_exact : forall g E rows, rows_of g E = Some rows ->
  forall r, In r rows <->
    exists s J, Adm g s /\ inst_nodes g s = Some J /\ (exists l, enum_adm g = Some l /\ In s l) /\
                Forall2 (fun e v => In e (var_entries s J v)) r E.
Proof. exact rows_of_spec. Qed.
Print Assumptions C04_rows_exact.

(* every admissible architecture is listed *)
Theorem C04_rows_complete : forall g E rows s, rows_of g E = Some rows -> Adm g s ->
  exists s' J', same s' s /\ inst_nodes g s' = Some J' /\
                forall r, Forall2 (fun e v => In e (var_entries s' J' v)) r E -> In r rows.
Proof. exact rows_of_complete. Qed.
Print Assumptions C04_rows_complete.

(* admissible assignments are enumerated once each *)
Theorem C04_assignments_once : forall g l, opts_nodup g -> enum_adm g = Some l -> ForallOrdPairs (fun a b => ~ same a b) l.
Proof. exact enum_adm_distinct. Qed.
Print Assumptions C04_assignments_once.

(* one each: under a faithful encoding (distinct admissible assignments get distinct selection vectors -- decided by the
   extracted enc_ok on every case) no vector is listed twice *)
Theorem C04_rows_once : forall g E rows, enc_ok g E = Some true -> rows_of g E = Some rows -> NoDup rows.
Proof. exact rows_of_NoDup. Qed.
Print Assumptions C04_rows_once.

Theorem C04_n_valid : forall g E rows, rows_of g E = Some rows -> n_valid g E = Some (N.of_nat (length rows)).
Proof. exact n_valid_is_length. Qed.
Print Assumptions C04_n_valid.

Definition ex_g : dsg := {|
  nodes := [(0,Generic);(1,Generic);(2,Generic);(3,DesVarK);(10,SelChoice)]%N;
  edges := [((0,10),Derives);((10,1),Derives);((10,2),Derives);((2,3),Derives)]%N;
  start := [0%N]; cons := [] |}.
Example C04_ex : rows_of ex_g [VSel 10 [1;2]; VDv 3 (Disc 2)]%N = Some [[0;-1];[1;0];[1;1]]%Z
  /\ n_declared [VSel 10 [1;2]; VDv 3 (Disc 2)]%N = 4%N
  /\ enc_ok ex_g [VSel 10 [1;2]; VDv 3 (Disc 2)]%N = Some true.
Proof. vm_compute. repeat split. Qed.
