(* Extraction of the executable model to OCaml.  Only ExtrOcamlBasic is used: bool, option, unit, list, prod,
   sumbool, sumor map to OCaml's; nat, positive, N, Z stay the extracted Coq datatypes. *)
From Coq Require Import Extraction ExtrOcamlBasic.
From DSG Require Import Base Constraint DesVar Dsg Sel Problem Metric Matrix Proc Coding ConnChoice Sup Timeout Identity Selector Cache Persist Neighborhood Greedy.
Extraction "dsgm_model.ml" Base.memN Base.memZ
  Constraint.valid_row Constraint.valid_idx_rows Constraint.idx_okb Constraint.removed_options
  Constraint.pre_removed Constraint.count_max
  DesVar.correct DesVar.in_dom DesVar.set_value DesVar.canon DesVar.truncQ
  Sel.closure Sel.inst_nodes Sel.enum_adm Sel.admb Sel.permanent Sel.cons_okb Dsg.sel_opts Dsg.sel_choices
  Problem.rows_of Problem.enc_ok Problem.n_declared Problem.n_valid Problem.decode_witness Problem.cond_active_at Problem.sel_vec
  Metric.classify_all Metric.classify_flags Metric.in_every_arch Metric.evaluate Metric.objectives Metric.constraints Metric.ambiguous
  Matrix.enum_M Matrix.validate Matrix.count_M Matrix.max_conn_mat
  Proc.restrict_rows Proc.arun Proc.ainit
  Coding.coding_verdict Coding.coding_ok
  ConnChoice.conn_sets ConnChoice.edges_valid ConnChoice.settings_for ConnChoice.combined
  Sup.resolve Sup.resolve_one
  Greedy.fast_decode Timeout.allowed Timeout.run Timeout.nrun Timeout.nreach Timeout.nleaks Timeout.nreturned
  Identity.same_graph
  Selector.select Selector.get_best Selector.equalize
  Cache.cache_key Cache.ckey_eqb
  Persist.prun_ids
  Neighborhood.neighborhood.
